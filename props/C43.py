"""C43 -- the flow view always shows exactly the matching flows in order.

Model: spec/View/View.tla   Monitor: Mon_View.tla
Real code: mitmproxy.addons.view.View (+ Focus, Settings) inside a taddons context, real flows of every type,
receivers connected to the view's signals.

Facts of a flow (what the harness makes true on the flow object before add/update):
  marked, tags (letters of flow.comment), ftype, key = integer sort keys per order (see KEY TABLES below).
"""
from __future__ import annotations

import random

from vf import core

ORDERS = ("time", "method", "url", "size")
# KEY TABLES: integer key -> concrete value; integers are ordered like the values the real order keys compare
METHODS = ["DELETE", "GET", "IQUERY", "POST", "PUT", "QUERY", "TCP", "UDP"]  # sorted
METHOD_DOM = {"http": (0, 1, 3, 4), "dns": (2, 5), "tcp": (6,), "udp": (7,)}
URL_DOM = {"dns": (0, 1, 2), "tcp": (3, 4, 5), "udp": (3, 4, 5), "http": (6, 7, 8)}
VARIANTS = {"http": "http", "http_resp": "http", "ws": "http", "http_err": "http", "tcp": "tcp", "udp": "udp",
            "dns": "dns", "dns_resp": "dns"}


def url_value(ftype, k):
    if ftype == "dns":
        return f"a{k}.test"
    if ftype in ("tcp", "udp"):
        return f"b{k - 3}.test"  # shown by the order key as b<k>.test:80
    return f"http://c{k - 6}.test/"


def facts(ftype, time, method=None, url=None, size=0, marked=False, tags=("a",)):
    return {"marked": marked, "tags": tuple(tags), "ftype": ftype,
            "key": {"time": time, "method": METHOD_DOM[ftype][0] if method is None else method,
                    "url": URL_DOM[ftype][0] if url is None else url, "size": size}}


def flt(kind, arg="", neg=False):
    return {"kind": kind, "arg": arg, "neg": neg}


class _HD(dict):
    def __hash__(self):  # type: ignore[override]
        return hash(repr(sorted(self.items())))


def _h(d):
    return _HD({k: (_h(v) if isinstance(v, dict) else v) for k, v in d.items()})


def filter_expr(f):
    kind, arg = f["kind"], f["arg"]
    e = {"all": "~all", "tag": f"~comment {arg}", "type": f"~{arg}", "marked": "~marked"}[kind]
    return f"! {e}" if f["neg"] else e  # not "!(~http)": flowfilter rejects a bare operator before ")" (see C42)


# ---------------------------------------------------------------------------------------------------------------
class Run:
    def __init__(self, sc):
        self.sc = sc
        self.trace: list = []
        self.sigs: list = []
        self.keep: list = []

    def make_flow(self, variant):
        from mitmproxy.test import tflow

        if variant == "http":
            return tflow.tflow()
        if variant == "http_resp":
            f = tflow.tflow(resp=True)
            f.response.content = b""
            return f
        if variant == "http_err":
            return tflow.tflow(err=True)
        if variant == "ws":
            f = tflow.twebsocketflow()
            f.response.content = b""
            return f
        if variant == "tcp":
            return tflow.ttcpflow()
        if variant == "udp":
            return tflow.tudpflow()
        if variant == "dns":
            return tflow.tdnsflow()
        if variant == "dns_resp":
            return tflow.tdnsflow(resp=True)
        raise ValueError(variant)

    def apply(self, n, fx):
        """Make the facts true on flow n (the harness is the only writer of these attributes)."""
        from mitmproxy import dns, tcp, udp

        f = self.flows[n]
        ftype = fx["ftype"]
        key = fx["key"]
        f.marked = ":default:" if fx["marked"] else ""
        f.comment = "".join(fx["tags"])
        f.timestamp_created = 1000.0 + key["time"]
        size = key["size"]
        if ftype == "http":
            f.request.method = METHODS[key["method"]]
            f.request.url = url_value("http", key["url"])
            f.request.content = b"x" * size
        elif ftype in ("tcp", "udp"):
            f.server_conn.address = (url_value(ftype, key["url"]), 80)
            cls = tcp.TCPMessage if ftype == "tcp" else udp.UDPMessage
            half = size // 2
            f.messages = [m for m in (cls(True, b"x" * half), cls(False, b"y" * (size - half))) if m.content] if size else []
        else:
            f.request.op_code = {2: 1, 5: 0}[key["method"]]
            f.request.questions[0].name = url_value("dns", key["url"])
            if size:
                f.response = f.request.succeed([dns.ResourceRecord(f.request.questions[0].name, dns.types.TXT,
                                                                   dns.classes.IN, 60, b"x" * size)])
            else:
                f.response = None

    def num(self, f):
        if f is None:
            return 0
        return self.ids.get(id(f), 99)

    def observe(self):
        v = self.view
        try:
            shown = [self.num(f) for f in list(v)]
        except Exception as e:  # a broken list is an observation too
            shown = [self.num(f) for f in list(v._view)]
            self.exc = self.exc or type(e).__name__
        byid = {f.id: n for n, f in self.flows.items()}
        return shown, self.num(v.focus.flow), sorted(byid.get(fid, 99) for fid in list(v.settings))

    def go(self):
        from mitmproxy import flowfilter
        from mitmproxy.addons import view as viewmod
        from mitmproxy.test import taddons

        sc = self.sc
        v = self.view = viewmod.View()
        self.flows = {int(n): self.make_flow(var) for n, var in sc["pool"].items()}
        self.ids = {id(f): n for n, f in self.flows.items()}
        self.fx = {int(n): fx for n, fx in sc["facts"].items()}
        for n, fx in self.fx.items():
            self.apply(n, fx)

        def on(name, with_flow=True, with_index=False):
            if with_index:
                def r(flow, index):
                    self.sigs.append({"s": name, "f": self.num(flow), "i": int(index)})
            elif with_flow:
                def r(flow):
                    self.sigs.append({"s": name, "f": self.num(flow), "i": 0})
            else:
                def r():
                    self.sigs.append({"s": name, "f": 0, "i": 0})
            self.keep.append(r)
            return r

        v.sig_view_add.connect(on("add"))
        v.sig_view_remove.connect(on("remove", with_index=True))
        v.sig_view_update.connect(on("update"))
        v.sig_view_refresh.connect(on("refresh", with_flow=False))
        v.sig_store_remove.connect(on("store_remove"))
        v.sig_store_refresh.connect(on("store_refresh", with_flow=False))
        with taddons.context(v) as tctx:
            ff = bool(sc.get("ff"))
            if ff:
                tctx.configure(v, console_focus_follow=True)
            self.trace.append({"k": "setup", "ff": ff})
            via_opts = bool(sc.get("via_options"))
            for op in sc["ops"]:
                self.sigs = []
                self.exc = ""
                kind = op[0]
                ev = {"k": "op", "op": kind, "f": 0}
                try:
                    if kind in ("add", "update", "remove"):
                        n = op[1]
                        ev["f"] = n
                        if kind == "update":
                            self.fx[n] = op[2]
                            self.apply(n, op[2])
                        if kind != "remove":
                            ev["facts"] = self.fx[n]
                        getattr(v, kind)([self.flows[n]])
                    elif kind == "setfilter":
                        ev["flt"] = op[1]
                        expr = filter_expr(op[1])
                        if via_opts:
                            tctx.configure(v, view_filter=None if op[1]["kind"] == "all" and not op[1]["neg"] else expr)
                        elif op[1]["kind"] == "all" and not op[1]["neg"]:
                            v.set_filter(None)
                        else:
                            v.set_filter(flowfilter.parse(expr))
                    elif kind == "setorder":
                        ev["order"] = op[1]
                        if via_opts:
                            tctx.configure(v, view_order=op[1])
                        else:
                            v.set_order(op[1])
                    elif kind == "setrev":
                        ev["rev"] = bool(op[1])
                        if via_opts:
                            tctx.configure(v, view_order_reversed=bool(op[1]))
                        else:
                            v.set_reversed(bool(op[1]))
                    elif kind == "togglemarked":
                        v.toggle_marked()
                    elif kind == "clear":
                        v.clear()
                    elif kind == "clearunmarked":
                        v.clear_not_marked()
                    else:
                        raise core.MachineryError(f"unknown op {op}")
                except core.MachineryError:
                    raise
                except Exception as e:  # the call failed: an observation, the state is judged as it is
                    self.exc = type(e).__name__
                shown, focus, settings = self.observe()
                ev.update(view=shown, focus=focus, settings=settings, sigs=self.sigs)
                if self.exc:
                    ev["exc"] = self.exc
                self.trace.append(ev)
        return self.trace


# ---------------------------------------------------------------------------------------------------------------
POOL_Q = {1: "http", 2: "dns_resp", 3: "tcp"}
FACTS_Q = {1: facts("http", 2, size=1), 2: facts("dns", 1, size=0, tags=()), 3: facts("tcp", 3, size=1, marked=True)}
POOL_T = {1: "http_resp", 2: "dns", 3: "tcp", 4: "udp"}
FACTS_T = {1: facts("http", 2, size=1), 2: facts("dns", 1, size=0, tags=()), 3: facts("tcp", 3, size=1, marked=True),
           4: facts("udp", 2, size=2)}


def _suite():
    """Directed histories (beyond the quick model's depth) that re-show a flow whose sort key changed while hidden."""
    def ch(fx, **kw):
        out = {"marked": fx["marked"], "tags": list(fx["tags"]), "ftype": fx["ftype"], "key": dict(fx["key"])}
        for k, v in kw.items():
            if k in ORDERS:
                out["key"][k] = v
            else:
                out[k] = v
        return out
    f1 = FACTS_T[1]
    hide_change_show = [["add", 1], ["add", 3], ["add", 4], ["setorder", "size"], ["setfilter", flt("tag", "a")],
                        ["update", 1, ch(f1, tags=[])], ["update", 1, ch(f1, tags=[], size=3)],
                        ["update", 1, ch(f1, tags=["a"], size=3)]]
    order_roundtrip = [["add", 1], ["add", 3], ["add", 4], ["setorder", "size"], ["setorder", "time"],
                       ["update", 1, ch(f1, size=3)], ["setorder", "size"]]
    marked_roundtrip = [["setorder", "size"], ["add", 1], ["add", 3], ["add", 4], ["togglemarked"],
                        ["update", 4, ch(FACTS_T[4], size=0, tags=[])], ["togglemarked"]]
    refilter = [["setorder", "size"], ["add", 2], ["add", 1], ["add", 3], ["setfilter", flt("type", "dns", True)],
                ["update", 2, ch(FACTS_T[2], size=3)], ["setrev", True], ["setfilter", flt("all")]]
    # one directed history per clause antecedent, so that no witness depends on what the seed happens to sample
    f2, f3 = FACTS_T[2], FACTS_T[3]
    basics = [
        [["add", 1], ["add", 3], ["add", 4], ["setorder", "size"], ["update", 1, ch(f1, size=3)]],          # moved
        [["add", 1], ["add", 4], ["add", 2], ["add", 3], ["remove", 1]],                                     # tie, types
        [["setfilter", flt("tag", "a")], ["add", 1], ["add", 2], ["update", 1, ch(f1, tags=[])],
         ["update", 1, ch(f1, tags=["a"])]],                                                                   # hid, showed
        [["add", 2], ["add", 1], ["remove", 2]],                                                               # first left
        [["add", 3], ["add", 1], ["setrev", True], ["remove", 3]],                                             # first, reversed
        [["add", 2], ["add", 1], ["setrev", True], ["remove", 2]],                                             # last, reversed
        [["add", 3], ["add", 1], ["setrev", True], ["setfilter", flt("tag", "a")], ["update", 3, ch(f3, tags=[])]],
        [["add", 3], ["togglemarked"], ["togglemarked"], ["add", 1], ["clearunmarked"], ["add", 2], ["clear"]],
    ]
    return [hide_change_show, order_roundtrip, marked_roundtrip, refilter] + basics


# narrow instance for long focus histories: two flows that both carry the tag, direction / filter / membership calls only
POOL_F = {1: "http", 2: "tcp"}
FACTS_F = {1: facts("http", 2, size=1), 2: facts("tcp", 1, size=1)}
ALL_ACTS = ("add", "mark", "tag", "key", "touch", "remove", "setfilter", "togglemarked", "clearunmarked", "setorder",
            "setrev", "clear")
FILTERS = (flt("all"), flt("tag", "a"), flt("tag", "a", True), flt("type", "http", True), flt("marked"))


class Check(core.PropertyCheck):
    ID = "C43"
    SPEC_DIR = "View"
    MODEL = "View"
    MON = "Mon_View"
    REQUIRED_WITNESSES = ("add_shown", "add_hidden", "update_moved", "update_hid", "update_showed", "removed_focused",
                          "marked_only", "reversed", "ordered_by_mutable_key", "filter_hides", "clear", "clear_unmarked",
                          "tie", "focus_moved", "mixed_types", "focused_first_left", "focused_first_left_reversed", "focused_last_left_reversed")
    REQUIRED_ACTIONS = ("Add", "RemoveFlow", "SetFilter", "ToggleMarked",
                        "ClearUnmarked", "SetOrder", "SetRev", "Clear")
    ASSUMPTIONS = (
        "the harness is the only writer of the flow attributes the filter and the order keys read (marked, comment, "
        "timestamp_created, method, url/address/question name, body/messages/answers); every edit is followed by "
        "View.update([flow]) as the proxy's hooks do; the facts logged are the values it wrote",
        "integer sort keys are ordered like the concrete values (tables in props/C43.py); ties are not constrained",
        "filters are ~all / ~comment / ~http.. / ~marked and their negations, parsed by mitmproxy.flowfilter (C42)",
    )
    PROCS = 4

    def mon_constants(self, tier):
        return {}

    def _consts(self, size):
        if size == "focus":
            c, _, _ = self._consts("small")
            return dict(c, Flows=frozenset({1, 2}), InitFacts=tuple(_h(FACTS_F[i]) for i in (1, 2)),
                        OrdersUsed=frozenset({"time"}), Filters=frozenset(_h(f) for f in FILTERS[:2]),
                        Acts=frozenset({"add", "tag", "remove", "setfilter", "setrev"}), MaxOps=5), POOL_F, FACTS_F
        pool, fx = (POOL_Q, FACTS_Q) if size == "small" else (POOL_T, FACTS_T)
        n = len(pool)
        doms = {"size": {t: frozenset({0, 1, 2}) for t in ("http", "tcp", "udp", "dns")},
                "url": {t: frozenset(URL_DOM[t][:2]) for t in URL_DOM}}
        mut = ("size",) if size == "small" else ("size", "url")
        return {"Flows": frozenset(range(1, n + 1)), "InitFacts": tuple(_h(fx[i]) for i in range(1, n + 1)),
                "KeyDom": _h({o: doms[o] for o in mut}), "MutOrders": frozenset(mut),
                "OrdersUsed": frozenset(("time",) + mut),
                "Filters": frozenset(_h(f) for f in (FILTERS[:3] if size == "small" else FILTERS)),
                "Acts": frozenset(ALL_ACTS), "MarkedOnAdd": False, "FreshKeys": False, "MaxOps": 3}, pool, fx

    def model_constants(self, tier):
        return self._consts("small")[0]

    def model_runs(self, ctx):
        c, _, _ = self._consts("small")
        small = ctx.model_check(self.MODEL, dict(c, MaxOps=2 if ctx.quick else 3), dump=True, timeout=1200)
        # second dumped instance: few kinds of calls, histories of five (where the focus ends up after the focused flow
        # leaves the list depends on direction, position and focus_follow: needs add, add, reverse, filter, leave)
        fc, _, _ = self._consts("focus")
        req, self.REQUIRED_ACTIONS = self.REQUIRED_ACTIONS, ("Add", "RemoveFlow", "SetFilter", "SetRev")
        try:
            focus = ctx.model_check(self.MODEL, fc, dump=True, timeout=1200, tag="_focus")
        finally:
            self.REQUIRED_ACTIONS = req
        if ctx.quick:
            return [small, focus]
        big, _, _ = self._consts("big")
        return [small, focus, ctx.model_check(self.MODEL, dict(big, MaxOps=3), dump=False, tag="_big")]

    # -- behaviours -> scenarios
    @staticmethod
    def _ops(beh):
        """The calls of a behaviour, read from the event records the model emitted (the arguments are in them)."""
        from vf import tlaval

        ops, ff = [], False
        for _name, _args, st in beh[1:]:
            for ev in core._jsonable(tlaval.to_py(st.get("obs", ()))):
                if ev["k"] == "setup":
                    ff = bool(ev["ff"])
                    continue
                op = ev["op"]
                if op in ("add", "remove"):
                    ops.append([op, ev["f"]])
                elif op == "update":
                    ops.append(["update", ev["f"], ev["facts"]])
                elif op == "setfilter":
                    ops.append(["setfilter", ev["flt"]])
                elif op == "setorder":
                    ops.append(["setorder", ev["order"]])
                elif op == "setrev":
                    ops.append(["setrev", bool(ev["rev"])])
                elif op in ("togglemarked", "clearunmarked", "clear"):
                    ops.append([op])
                else:
                    raise core.MachineryError(f"unknown op {op}")
        return ops, ff

    def scenarios(self, ctx, models):
        rng = random.Random(ctx.seed + 43)
        c, pool, fx = self._consts("small")
        g = models[0].graph
        behs = [(b, pool, fx, "model") for b in g.edge_cover(ctx.rng, max_len=12, tail=3)]
        fb = [(b, POOL_F, FACTS_F, "model") for b in models[1].graph.edge_cover(ctx.rng, max_len=12, tail=2)]
        if len(fb) > (1000 if ctx.quick else 6000):
            fb = ctx.rng.sample(fb, 1000 if ctx.quick else 6000)
        if len(behs) > 8000:  # thorough: the edge cover of the MaxOps=3 graph is sampled
            behs = ctx.rng.sample(behs, 8000)
        behs += fb
        big, bpool, bfx = self._consts("big")
        sims, _ = ctx.simulate(self.MODEL, dict(big, MaxOps=8 if ctx.quick else 12), num=400 if ctx.quick else 4000,
                               depth=10 if ctx.quick else 14, timeout=1200)
        behs += [(b, bpool, bfx, "simulate") for b in sims]
        for i, (b, p, f0, src) in enumerate(behs):
            ops, ff = self._ops(b)
            yield core.Scenario({"pool": {str(k): v for k, v in p.items()}, "facts": {str(k): v for k, v in f0.items()},
                                 "ff": ff, "via_options": bool(i % 4 == 3), "ops": ops},
                                predicted=core.predicted_events(b), source=src)
        for ops in _suite():
            for ff in (False, True):
                yield core.Scenario({"pool": {str(k): v for k, v in POOL_T.items()},
                                     "facts": {str(k): v for k, v in FACTS_T.items()}, "ff": ff, "via_options": ff,
                                     "ops": ops}, source="suite")
        for i in range(300 if ctx.quick else 4000):
            yield core.Scenario(self._pattern(rng) if i % 4 == 3 else self._focus_pattern(rng) if i % 4 == 1
                                else self._random(rng), source="random")

    # -- random driver: bigger pools, every flow variant, all four orders, longer histories
    def _random(self, rng):
        n = rng.randint(3, 7)
        variants = list(VARIANTS)
        pool = {i: rng.choice(variants) for i in range(1, n + 1)}

        def rnd_facts(i, old=None):
            t = VARIANTS[pool[i]]
            if old is None:
                return facts(t, rng.randint(0, 4), rng.choice(METHOD_DOM[t]), rng.choice(URL_DOM[t]), rng.randint(0, 3),
                             rng.random() < 0.3, [x for x in "ab" if rng.random() < 0.5])
            fx = {"marked": old["marked"], "tags": list(old["tags"]), "ftype": t, "key": dict(old["key"])}
            for _ in range(rng.choice([0, 1, 1, 2])):
                what = rng.choice(["marked", "tag", "tag", "method", "url", "size", "size"])
                if what == "marked":
                    fx["marked"] = not fx["marked"]
                elif what == "tag":
                    x = rng.choice("ab")
                    fx["tags"] = [y for y in fx["tags"] if y != x] if x in fx["tags"] else fx["tags"] + [x]
                elif what == "method":
                    fx["key"]["method"] = rng.choice(METHOD_DOM[t])
                elif what == "url":
                    fx["key"]["url"] = rng.choice(URL_DOM[t])
                else:
                    fx["key"]["size"] = rng.randint(0, 3)
            return fx

        fx = {i: rnd_facts(i) for i in pool}
        cur = {i: fx[i] for i in pool}
        ops = []
        rev = False
        if rng.random() < 0.6:  # start under an order whose keys change, often with a filter that flows drop out of
            ops.append(["setorder", rng.choice(ORDERS[1:])])
            if rng.random() < 0.6:
                ops.append(["setfilter", flt("tag", rng.choice("ab"), rng.random() < 0.3)])
        for _ in range(rng.randint(4, 18)):
            r = rng.random()
            i = rng.randint(1, n)
            if r < 0.25:
                ops.append(["add", i])
            elif r < 0.55:
                cur[i] = rnd_facts(i, cur[i])
                ops.append(["update", i, cur[i]])
            elif r < 0.63:
                ops.append(["remove", i])
            elif r < 0.73:
                kind = rng.choice(["all", "tag", "tag", "type", "marked"])
                arg = {"tag": rng.choice("ab"), "type": rng.choice(["http", "tcp", "udp", "dns"])}.get(kind, "")
                ops.append(["setfilter", flt(kind, arg, rng.random() < 0.3)])
            elif r < 0.83:
                ops.append(["setorder", rng.choice(ORDERS)])
            elif r < 0.89:
                rev = not rev if rng.random() < 0.8 else rev
                ops.append(["setrev", rev])
            elif r < 0.95:
                ops.append(["togglemarked"])
            elif r < 0.98:
                ops.append(["clearunmarked"])
            else:
                ops.append(["clear"])
        return {"pool": {str(k): v for k, v in pool.items()}, "facts": {str(k): v for k, v in fx.items()},
                "ff": rng.random() < 0.3, "via_options": rng.random() < 0.3, "ops": ops}

    def _pattern(self, rng):
        """Random member of the family 'a listed flow leaves the list, its sort key changes, it comes back'."""
        sc = self._random(rng)
        pool = {int(k): v for k, v in sc["pool"].items()}
        fx = {int(k): dict(v, tags=sorted(set(v["tags"]) | {"a"}), marked=True, key=dict(v["key"])) for k, v in sc["facts"].items()}
        ids = list(pool)
        rng.shuffle(ids)
        v = ids[0]
        t = VARIANTS[pool[v]]
        order = rng.choice(["size", "size", "url", "method"])
        dom = {"size": (0, 1, 2, 3), "url": URL_DOM[t], "method": METHOD_DOM[t]}[order]
        if len(dom) < 2:
            order, dom = "size", (0, 1, 2, 3)
        for i in ids:  # the victim starts at one end of its range, the others in the middle
            fx[i]["key"]["size"] = dom[0] if (i == v and order == "size") else rng.choice([1, 2])
        fx[v]["key"][order] = dom[0]

        def ch(**kw):
            cur = fx[v] = {"marked": fx[v]["marked"], "tags": list(fx[v]["tags"]), "ftype": fx[v]["ftype"], "key": dict(fx[v]["key"])}
            for k, x in kw.items():
                if k in ORDERS:
                    cur["key"][k] = x
                else:
                    cur[k] = x
            return {"marked": cur["marked"], "tags": list(cur["tags"]), "ftype": cur["ftype"], "key": dict(cur["key"])}

        init = {str(k): {"marked": x["marked"], "tags": list(x["tags"]), "ftype": x["ftype"], "key": dict(x["key"])} for k, x in fx.items()}
        ops = [["add", i] for i in ids]
        ops.insert(rng.randint(0, len(ops)), ["setorder", order])
        if rng.random() < 0.4:
            ops.append(["setrev", True])
        how = rng.choice(["tag", "tag", "order", "marked", "type"])
        new = dom[-1]
        if how == "tag":
            ops += [["setfilter", flt("tag", "a")], ["update", v, ch(tags=[])], ["update", v, ch(**{order: new})],
                    rng.choice([["update", v, ch(tags=["a"])], ["setfilter", flt("all")]])]
        elif how == "order":
            ops += [["setorder", "time"], ["update", v, ch(**{order: new})], ["setorder", order]]
        elif how == "marked":
            ops += [["setfilter", flt("marked")], ["update", v, ch(marked=False)], ["update", v, ch(**{order: new})],
                    rng.choice([["update", v, ch(marked=True)], ["setfilter", flt("all")]])]
        else:
            ops += [["setfilter", flt("type", t, True)], ["update", v, ch(**{order: new})], ["setfilter", flt("all")]]
        ops += sc["ops"][: rng.randint(0, 3)]
        return {"pool": sc["pool"], "facts": init, "ff": sc["ff"], "via_options": sc["via_options"], "ops": ops}

    def _focus_pattern(self, rng):
        """Random member of the family 'the focused flow sits at one end of the list, in either direction, and leaves'."""
        sc = self._random(rng)
        pool = {int(k): v for k, v in sc["pool"].items()}
        fx = {int(k): {"marked": True, "tags": ["a"], "ftype": v["ftype"], "key": dict(v["key"])} for k, v in sc["facts"].items()}
        ids = list(pool)
        rng.shuffle(ids)
        ids = ids[: rng.randint(2, min(5, len(ids)))]
        ff = rng.random() < 0.5
        v = ids[-1] if ff else ids[0]          # the flow that holds the focus once all are added
        order = rng.choice(["time", "time", "size"])
        for i in ids:
            fx[i]["key"][order] = rng.choice([1, 2])
        fx[v]["key"][order] = rng.choice([0, 3])  # first or last in the underlying list
        init = {str(k): {"marked": x["marked"], "tags": list(x["tags"]), "ftype": x["ftype"], "key": dict(x["key"])} for k, x in fx.items()}
        ops = [["add", i] for i in ids]
        pre = [["setrev", rng.random() < 0.7]]
        if order != "time":
            pre.append(["setorder", order])
        how = rng.choice(["remove", "tag", "marked"])
        if how == "tag":
            pre.append(["setfilter", flt("tag", "a")])
        elif how == "marked":
            pre.append(["setfilter", flt("marked")])
        for o in pre:
            ops.insert(rng.randint(0, len(ops)), o)
        gone = dict(init[str(v)])
        if how == "remove":
            ops.append(["remove", v])
        elif how == "tag":
            ops.append(["update", v, dict(gone, tags=[])])
        else:
            ops.append(["update", v, dict(gone, marked=False)])
        ops += [o for o in sc["ops"] if o[0] in ("remove", "setrev", "add")][: rng.randint(0, 3)]
        return {"pool": sc["pool"], "facts": init, "ff": ff, "via_options": sc["via_options"], "ops": ops}

    def execute(self, sc):
        return Run(sc).go()

    def drift_view(self, trace):
        return trace
