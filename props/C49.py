"""C49 -- mitmdump output cannot inject terminal control sequences.

Model: spec/TermSafe/TermSafe.tla   Monitor: Mon_TermSafe.tla   Real code: mitmproxy.addons.dumper.Dumper
(with strutils.escape_control_characters / bytes_to_escaped_str and contentviews.prettify_message behind it).

The real Dumper writes into a recording stream (`Sink`).  Each write is attributed to the dumper.py function that
issued it (stack inspection), consecutive writes of one function form a *segment*.  The styling mitmdump adds itself
is learned from the real calls of mitmproxy.contrib.click.style (the wrapper asks the real function how it styles a
neutral text with the same arguments) and exactly those SGR sequences are removed.  What remains is classified
character by character; the monitor (TLA+) decides.
"""
from __future__ import annotations

import ast
import gzip
import json
import os
import random
import re
import struct
import sys

from vf import core

# ---- character classes ------------------------------------------------------------------------------------------
CLASS_ORDER = ("esc", "c0", "del", "c1", "sp", "print", "uni", "bin")
FORBIDDEN_FOR_ATTRIBUTION = ("esc", "c0", "del", "c1")  # classes whose origin is reported as signature (`src`)


def char_class(ch: str) -> str:
    o = ord(ch)
    if o == 0x1B:
        return "esc"
    if o in (9, 10, 13):
        return "sp"
    if o < 0x20:
        return "c0"
    if o == 0x7F:
        return "del"
    if o < 0x7F:
        return "print"
    if o <= 0x9F:
        return "c1"
    if 0xD800 <= o <= 0xDFFF:
        return "bin"
    return "uni"


# payload variants per class.  Model scenarios use MODEL_VARIANTS (class-pure, no Unicode line separators, which
# str.splitlines() in dumper.indent() would turn into newlines); the random driver also uses EXTRA_VARIANTS.
MODEL_VARIANTS = {
    "esc": ["\x1b[2J", "\x1b]0;pwn\x1b\\", "\x1b[4m", "\x1bc", "\x1b[38;5;196m", "\x1b"],
    "c0": ["\x07", "\x08\x08", "\x00", "\x0e", "\x01", "\x1f"],
    "del": ["\x7f", "\x7f\x7f"],
    "c1": ["\x9b2J", "\x90", "\x9d0;x\x9c", "\x80", "\x9f"],
    "sp": ["\t", "\n", "\r\n", "\r"],
    "print": ["abc~", "-", "[0m", "\\x1b"],
    "uni": ["\xe9", "\xa0", "漢字", "\U0001f600"],
    "bin": ["\udcff", "\udc9b", "\udcc3\udcc3"],
}
EXTRA_VARIANTS = {"c1": ["\x85"], "c0": ["\x0b", "\x0c", "\x1c", "\x1d", "\x1e"], "uni": [" ", "‮"],
                  "esc": ["\x1b[31m", "\x1b[0m", "\x1b[1m"]}
LATIN1_ONLY = {"reason"}  # Response.reason is ISO-8859-1 on the wire

SITES = ["none", "method", "url_path", "req_version", "req_hname", "req_hvalue", "host_header", "req_body",
         "req_tname", "req_tvalue", "resp_version", "reason", "resp_hname", "resp_hvalue", "resp_body",
         "resp_tname", "resp_tvalue", "error_msg", "ws_path", "ws_server_host", "ws_content", "close_reason",
         "server_host", "content", "proto_error_msg", "qname", "ans_txt", "ans_cname", "ans_https",
         "dns_error_msg"]
MARK = {s: "zq%02dx" % i for i, s in enumerate(SITES)}
MARK_RE = re.compile(r"zq(\d\d)x", re.I)  # Request.method upper-cases

# ---- description of the tree under test (model constants; see spec/TermSafe/README.md) -----------------------------
# fields dumper.py puts into an f-string without any escaping: none since /repo c426961fa (before that fix: PREFIX_RAW)
RAW_SITES = frozenset()
PREFIX_RAW = frozenset({"req_version", "resp_version", "ws_path", "ws_server_host", "close_reason", "server_host",
                        "proto_error_msg", "qname", "ans_txt", "ans_cname", "ans_https"})
ECC_KEEPS_C1 = False  # strutils.escape_control_characters translates C0, DEL and (since /repo a273e7200) C1

KNOWN_ECHO_FUNCTIONS = {"echo", "_echo_headers", "_echo_trailers", "_echo_message", "_echo_request_line",
                        "_echo_response_line", "echo_flow", "websocket_message", "websocket_end", "_proto_error",
                        "_proto_message", "_echo_dns_query", "dns_response", "dns_error"}


PAD = b"the quick brown fox jumps over the lazy dog: "  # keeps a short payload from making a body \"mostly binary\"


def enc(s: str) -> bytes:
    return s.encode("utf-8", "surrogateescape")


def value(site: str, payload: str) -> str:
    return MARK[site] + payload + "e"


# ---- the recording stream -----------------------------------------------------------------------------------------
class Sink:
    def __init__(self, styled: bool):
        self.styled = styled
        self.writes: list[tuple[str, str]] = []

    def isatty(self):
        return self.styled

    def flush(self):
        pass

    def write(self, s):
        f = sys._getframe(1)
        fn = "?"
        while f is not None:
            if f.f_code.co_filename.replace("\\", "/").endswith("addons/dumper.py") and f.f_code.co_name != "echo":
                fn = f.f_code.co_name
                break
            f = f.f_back
        self.writes.append((fn, s))
        return len(s)

    def take(self):
        w, self.writes = self.writes, []
        segs: list[list] = []
        for fn, s in w:
            if segs and segs[-1][0] == fn:
                segs[-1][1] += s
            else:
                segs.append([fn, s])
        return segs


_SGR_TOKEN = re.compile(r"\x1b\[[0-9;]*m")


class StyleTap:
    """Wraps mitmproxy.contrib.click.style: the real function is called unchanged; in addition the sequences it adds
    for these arguments are learned by styling a neutral text."""

    def __init__(self):
        from mitmproxy.contrib import click as miniclick

        self.mod = miniclick
        self.real = miniclick.style
        self.own: set[str] = set()
        self.odd = 0

    def __enter__(self):
        def tap(text, *a, **kw):
            r = self.real(text, *a, **kw)
            try:
                probe = self.real("X", *a, **kw)
                pre, _, post = probe.partition("X")
                for part in (pre, post):
                    toks = _SGR_TOKEN.findall(part)
                    if "".join(toks) == part:
                        self.own.update(toks)
                    else:
                        self.odd += 1  # something that is not a styling sequence: never removed
            except Exception:
                self.odd += 1
            return r

        self.mod.style = tap
        return self

    def __exit__(self, *exc):
        self.mod.style = self.real


def strip_own(text: str, own: set[str]):
    removed = False
    for tok in sorted(own, key=len, reverse=True):
        if tok in text:
            removed = True
            text = text.replace(tok, "")
    return text, removed


def project_segment(fn: str, text: str, site: str):
    present = {char_class(ch) for ch in text}
    cls = [c for c in CLASS_ORDER if c in present]
    src = []
    for c in cls:
        if c in FORBIDDEN_FOR_ATTRIBUTION:
            pos = next(i for i, ch in enumerate(text) if char_class(ch) == c)
            ms = list(MARK_RE.finditer(text[:pos]))
            field = "?"
            if ms:
                idx = int(ms[-1].group(1))
                if idx < len(SITES):
                    field = SITES[idx]
            src.append([c, field])
    hit = site in MARK and site != "none" and MARK[site] in text.lower()
    return {"k": "seg", "fn": fn, "hit": hit, "cls": cls, "src": src}


# ---- flows --------------------------------------------------------------------------------------------------------
_TCTX = None


def tctx():
    global _TCTX
    if _TCTX is None:
        from mitmproxy.addons import dumper
        from mitmproxy.test import taddons

        _TCTX = taddons.context(dumper.Dumper(Sink(False)))
        _TCTX.__enter__()
    return _TCTX


def _add_header(msg, name: bytes, val: bytes):
    msg.headers.fields = msg.headers.fields + ((name, val),)


def build_http(sh: dict, inj: dict):
    """inj: site -> str value (marker + payload) for every injected site."""
    from mitmproxy import http
    from mitmproxy.test import tflow

    f = tflow.tflow(resp=bool(sh["resp"]), err=bool(sh["err"]))
    if sh.get("h2"):
        f.request.http_version = "HTTP/2.0"
        if f.response:
            f.response.http_version = "HTTP/2.0"
    if not sh["body"]:
        f.request.content = b""
        if f.response:
            f.response.content = b""
    if sh["trl"]:
        f.request.trailers = http.Headers([(b"trailer-a", b"tv")])
        if f.response:
            f.response.trailers = http.Headers([(b"trailer-b", b"tw")])
    if sh.get("status") and f.response:
        f.response.status_code = sh["status"]
    if sh.get("replay"):
        f.is_replay = sh["replay"]
    if sh.get("pushed"):
        f.metadata["h2-pushed-stream"] = True
    rq, rs = f.request, f.response
    for site, v in inj.items():
        if site == "method":
            rq.method = v
        elif site == "url_path":
            rq.path = "/p" + v
        elif site == "req_version":
            rq.http_version = v
        elif site == "req_hname":
            _add_header(rq, enc(v), b"v")
        elif site == "req_hvalue":
            _add_header(rq, b"x-req", enc(v))
        elif site == "host_header":
            _add_header(rq, b"host", enc(v))
        elif site == "req_body" and sh["body"]:
            rq.content = _wrap(sh, "req", v)
        elif site == "req_tname" and sh["trl"]:
            rq.trailers.fields = rq.trailers.fields + ((enc(v), b"v"),)
        elif site == "req_tvalue" and sh["trl"]:
            rq.trailers.fields = rq.trailers.fields + ((b"x-t", enc(v)),)
        elif site == "error_msg" and f.error:
            f.error.msg = "boom " + v
        elif rs is not None:
            if site == "resp_version":
                rs.http_version = v
            elif site == "reason":
                # ISO-8859-1 on the wire: undecodable-byte surrogates stand for the byte itself
                rs.data.reason = bytes((ord(ch) - 0xDC00) if 0xDC80 <= ord(ch) <= 0xDCFF else ord(ch) for ch in v)
            elif site == "resp_hname":
                _add_header(rs, enc(v), b"v")
            elif site == "resp_hvalue":
                _add_header(rs, b"x-resp", enc(v))
            elif site == "resp_body" and sh["body"]:
                rs.content = _wrap(sh, "resp", v)
            elif site == "resp_tname" and sh["trl"]:
                rs.trailers.fields = rs.trailers.fields + ((enc(v), b"v"),)
            elif site == "resp_tvalue" and sh["trl"]:
                rs.trailers.fields = rs.trailers.fields + ((b"x-t", enc(v)),)
    for side, msg in (("req", rq), ("resp", rs)):
        ct = sh.get(side + "_ct")
        if msg is not None and ct:
            msg.headers["content-type"] = ct
        if msg is not None and sh.get(side + "_gzip") and msg.raw_content:
            raw = msg.raw_content
            msg.headers["content-encoding"] = "gzip"
            msg.raw_content = gzip.compress(raw, mtime=0)
    return f


def _wrap(sh: dict, side: str, v: str) -> bytes:
    """Place the value into a body of the format the scenario asks for (random driver; default: plain text)."""
    fmt = sh.get(side + "_fmt", "text")
    if fmt == "json":
        return json.dumps({"k": v, "n": [1, v]}, ensure_ascii=bool(sh.get("ascii"))).encode("utf-8", "surrogatepass")
    if fmt == "xml":
        return b"<a b=\"" + enc(v) + b"\"><c>" + enc(v) + b"</c></a>"
    if fmt == "form":
        return b"a=" + enc(v) + b"&" + enc(v) + b"=1"
    if fmt == "js":
        return b"function f(){var a='" + enc(v) + b"';}"
    if fmt == "css":
        return b"a{b:'" + enc(v) + b"';}"
    return PAD + enc(v)


def build_ws(inj: dict, *, text=True, from_client=True):
    from mitmproxy.test import tflow
    from mitmproxy.websocket import WebSocketMessage
    from wsproto.frame_protocol import Opcode

    f = tflow.twebsocketflow()
    content = PAD + enc(inj["ws_content"]) if "ws_content" in inj else b"hello"
    f.websocket.messages.append(WebSocketMessage(Opcode.TEXT if text else Opcode.BINARY, from_client, content))
    if "ws_path" in inj:
        f.request.path = "/ws" + inj["ws_path"]
    if "ws_server_host" in inj:
        f.server_conn.address = ("h" + inj["ws_server_host"], 443)
    return f


WS_CODES = {"normal": 1000, "abnormal": 1006, "unknown": 4999}


def build_wsend(code: str, inj: dict, *, by_client=True, raw_code=None):
    f = build_ws(inj)
    f.websocket.close_code = raw_code if raw_code is not None else WS_CODES[code]
    f.websocket.closed_by_client = by_client
    f.websocket.close_reason = ("r " + inj["close_reason"]) if "close_reason" in inj else "bye"
    return f


def build_proto(proto: str, inj: dict, *, err=False, from_client=True, quic=False):
    from mitmproxy import flow as mflow
    from mitmproxy import tcp, udp
    from mitmproxy.test import tflow

    f = tflow.ttcpflow() if proto == "tcp" else tflow.tudpflow()
    content = PAD + enc(inj["content"]) if "content" in inj else b"data"
    f.messages.append((tcp.TCPMessage if proto == "tcp" else udp.UDPMessage)(from_client, content))
    if "server_host" in inj:
        f.server_conn.address = ("h" + inj["server_host"], 22)
    if err:
        f.error = mflow.Error("e " + inj["proto_error_msg"] if "proto_error_msg" in inj else "connection lost")
    if quic:
        f.client_conn.tls_version = "QUICv1"
        f.metadata["quic_stream_id_client"] = 4
        f.metadata["quic_stream_id_server"] = 8
    return f


def _labels(*labels: bytes) -> bytes:
    return b"".join(bytes([len(x)]) + x for x in labels) + b"\x00"


def build_dns(ans: str, inj: dict, *, err=False, qtype=None, rcode=3):
    from mitmproxy import dns
    from mitmproxy.test import tflow

    f = tflow.tdnsflow(resp=not err, err=err)
    if "qname" in inj:
        f.request.questions[0].name = "q" + inj["qname"] + ".example"
    if qtype is not None:
        f.request.questions[0].type = qtype
    if err:
        if "dns_error_msg" in inj:
            f.error.msg = "resolver: " + inj["dns_error_msg"]
        return f
    a = dns.ResourceRecord("dns.google", dns.types.A, dns.classes.IN, 32, b"\x08\x08\x08\x08")
    if ans == "none":
        f.response.answers = []
        f.response.response_code = rcode
    elif ans == "txt":
        data = b"t " + enc(inj["ans_txt"]) if "ans_txt" in inj else b"t txt"
        f.response.answers = [a, dns.ResourceRecord("dns.google", dns.types.TXT, dns.classes.IN, 60, data)]
    elif ans == "cname":
        lab = b"c" + enc(inj["ans_cname"]) if "ans_cname" in inj else b"cn"
        f.response.answers = [a, dns.ResourceRecord("dns.google", dns.types.CNAME, dns.classes.IN, 60,
                                                    _labels(lab[:63], b"example"))]
    elif ans == "https":
        alpn = b"h2" + enc(inj["ans_https"]) if "ans_https" in inj else b"h2"
        alpn = alpn[:200]
        rdata = struct.pack("!H", 1) + _labels(b"svc", b"example") + struct.pack("!HH", 1, len(alpn) + 1) + \
            bytes([len(alpn)]) + alpn
        f.response.answers = [a, dns.ResourceRecord("dns.google", dns.types.HTTPS, dns.classes.IN, 60, rdata)]
    return f


# ---- running one hook ---------------------------------------------------------------------------------------------
def run_hook(d, sink: Sink, tap: StyleTap, call, site: str):
    import signal

    class _NoReturn(BaseException):
        pass

    def fire(signum, frame):
        raise _NoReturn()

    tap.own.clear()
    out = []
    raised = None
    old = signal.signal(signal.SIGALRM, fire)
    signal.setitimer(signal.ITIMER_REAL, 10.0)  # a hook that does not come back (e.g. a view that blocks) is an observation
    try:
        call()
    except Exception as e:  # observation, not a harness failure
        raised = type(e).__name__
    except _NoReturn:
        raised = "NoReturn"
    finally:
        signal.setitimer(signal.ITIMER_REAL, 0)
        signal.signal(signal.SIGALRM, old)
    own_removed = False
    for fn, text in sink.take():
        text, removed = strip_own(text, tap.own)
        own_removed = own_removed or removed
        out.append(project_segment(fn, text, site))
    if raised:
        out.append({"k": "raised", "exc": raised})
    out.append({"k": "end", "own": own_removed})
    return out


def pick_variant(site: str, pcls: str, v: int, pool=MODEL_VARIANTS) -> str:
    cands = list(pool[pcls])
    if site in LATIN1_ONLY:
        cands = [c for c in cands if all(ord(ch) <= 0xFF for ch in c)] or ["\udcff"]  # byte 0xff: a Latin-1 letter
    return cands[v % len(cands)]


class Check(core.PropertyCheck):
    ID = "C49"
    SPEC_DIR = "TermSafe"
    MODEL = "TermSafe"
    MON = "Mon_TermSafe"
    REQUIRED_WITNESSES = ("echoed_esc", "echoed_c0", "echoed_del", "echoed_c1", "styled", "plain",
                          "own_styling_removed", "http", "ws", "tcp", "udp", "dns", "fd1", "fd2", "fd3", "fd4")
    REQUIRED_ACTIONS = ("Configure", "HttpHook", "WsMessage", "WsEnd", "ProtoMessage", "ProtoError", "DnsResponse",
                        "DnsError")
    PROCS = 4
    ASSUMPTIONS = (
        "flows are built with mitmproxy.test.tflow and the payload is assigned to the flow's fields (str fields "
        "through their setters, byte fields as UTF-8 with surrogateescape); which values a wire parser lets through "
        "is not part of this check",
        "the styling mitmdump adds itself = the SGR sequences mitmproxy.contrib.click.style produces for the "
        "arguments of the calls made during the hook (learned by styling a neutral text with the real function); "
        "exactly these strings are removed wherever they occur, payload variants never coincide with them",
        "a write is attributed to the innermost dumper.py frame other than echo(); the field of a control character "
        "is the one whose marker precedes it in the same segment (signature only)",
        "exceptions escaping a hook are recorded but not judged (the statement is about the text written)",
    )

    # ---- constants -------------------------------------------------------------------------------------------
    def mon_constants(self, tier):
        return {}

    @staticmethod
    def _shape(hook, resp, err, body, trl, h2):
        return {"hook": hook, "resp": resp, "err": err, "body": body, "trl": trl, "h2": h2}

    def model_constants(self, tier):
        S = self._shape
        if tier == "quick":
            configs = {(0, False, False), (1, False, False), (1, True, True), (2, True, False), (2, False, True),
                       (3, True, False), (4, False, False), (4, True, False)}
            shapes = [S("response", True, False, True, False, False), S("error", True, True, False, True, False),
                      S("http_connect_error", False, True, True, False, True)]
            pcl = ("esc", "c0", "del", "c1", "sp", "print")
            ws, dns = ("normal", "abnormal"), ("txt", "cname", "https", "none")
        else:
            configs = {(fd, st, False) for fd in range(0, 5) for st in (False, True)}
            configs |= {(1, True, True), (2, False, True), (3, True, True), (4, False, True)}
            shapes = [S("response", True, False, b, t, h2) for b in (False, True) for t in (False, True) for h2 in (False, True)]
            shapes += [S("error", r, True, b, t, False) for r in (False, True) for b in (False, True) for t in (False, True)
                       if not (r and b and t)]
            shapes += [S("error", True, True, True, True, True), S("http_connect_error", False, True, True, False, False),
                       S("http_connect_error", False, True, False, False, True)]
            pcl = CLASS_ORDER
            ws, dns = ("normal", "abnormal", "unknown"), ("txt", "cname", "https", "none")
        return {"Configs": frozenset(configs), "HttpShapes": frozenset(_FrozenDict(s) for s in shapes),
                "WsEndCodes": frozenset(ws), "DnsAnswers": frozenset(dns), "PClasses": frozenset(pcl),
                "MaxHooks": 1, "RawSites": RAW_SITES, "EccKeepsC1": ECC_KEEPS_C1}

    def model_runs(self, ctx):
        res = [ctx.model_check(self.MODEL, self.model_constants(ctx.tier), dump=True, timeout=900 if ctx.quick else 3000)]
        if not ctx.quick:
            # design-level result: the same model instantiated for the tree before the fixes (11 raw echo sites, C1 kept)
            # reaches the violations that were found there
            prefix = dict(self.model_constants("quick"), RawSites=PREFIX_RAW, EccKeepsC1=True)
            r2 = ctx.model_check(self.MODEL, prefix, dump=False, tag="_prefix", timeout=1500)
            ctx.notes["model_of_prefix_tree_reachable_bad"] = len(r2.bad)
            if not r2.bad:
                raise core.MachineryError("the pre-fix instance of the model reaches no violation: model lost its teeth")
        return res

    def setup(self, ctx):
        os.environ["COLUMNS"] = "200"
        # the echo-site inventory must match the code (a new echoing function would silently escape the model)
        from mitmproxy.addons import dumper

        tree = ast.parse(open(dumper.__file__).read())
        found = set()
        for node in ast.walk(tree):
            if isinstance(node, ast.FunctionDef):
                for sub in ast.walk(node):
                    if isinstance(sub, ast.Call):
                        fn = sub.func
                        name = fn.attr if isinstance(fn, ast.Attribute) else getattr(fn, "id", "")
                        if name in ("echo", "print", "write", "secho"):
                            found.add(node.name)
        stale = found - KNOWN_ECHO_FUNCTIONS
        ctx.notes["echo_functions_in_code"] = sorted(found)
        if stale:
            raise core.MachineryError(f"stale echo-site inventory: dumper.py writes from unknown function(s) {sorted(stale)}")

    # ---- scenarios -------------------------------------------------------------------------------------------
    @staticmethod
    def _ops(beh, rng):
        """Model behaviour -> operations.  The payload (field, class) of a hook step is chosen inside the model's
        action; it is read from the hook record the step emits."""
        from vf import tlaval

        ops = []
        for name, args, st in beh[1:]:
            v = rng.randrange(1000)
            if name == "Configure":
                fd, sty, sh = args[0]
                ops.append(["conf", int(fd), bool(sty), bool(sh)])
                continue
            h = tlaval.to_py(st["obs"])[0]
            site, pcls = h["site"], h["pcls"]
            if name == "HttpHook":
                ops.append(["http", tlaval.to_py(args[0]), site, pcls, v])
            elif name == "WsMessage":
                ops.append(["wsmsg", site, pcls, v])
            elif name == "WsEnd":
                ops.append(["wsend", args[0], site, pcls, v])
            elif name == "ProtoMessage":
                ops.append(["pmsg", args[0], site, pcls, v])
            elif name == "ProtoError":
                ops.append(["perr", args[0], site, pcls, v])
            elif name == "DnsResponse":
                ops.append(["dnsresp", args[0], site, pcls, v])
            elif name == "DnsError":
                ops.append(["dnserr", site, pcls, v])
        return ops

    def scenarios(self, ctx, models):
        g = models[0].graph
        behs = g.edge_cover(ctx.rng, max_len=6, tail=0)
        reps = 1 if ctx.quick else 2
        for b in behs:
            if len(b) < 3:
                continue  # Configure only
            pred = core.predicted_events(b)
            for _ in range(reps):
                yield core.Scenario({"ops": self._ops(b, ctx.rng)}, predicted=pred, source="model")
        if not ctx.quick:
            # sequences Configure/hook/Configure/hook... (the Dumper keeps only its options between hooks)
            behs2, _r = ctx.simulate(self.MODEL, dict(self.model_constants("quick"), MaxHooks=3), num=1500, depth=8)
            for b in behs2:
                ops = self._ops(b, ctx.rng)
                if len(ops) >= 2:
                    yield core.Scenario({"ops": ops}, predicted=core.predicted_events(b), source="simulate")
        rng = random.Random(ctx.seed + 49)
        for _ in range(3000 if ctx.quick else 20000):
            yield core.Scenario({"random": rng.randrange(1 << 30)}, source="random")

    # ---- execution -------------------------------------------------------------------------------------------
    def execute(self, sc):
        if "random" in sc:
            return self._random(sc["random"])
        return self._run(sc["ops"])

    def _run(self, ops):
        from mitmproxy.addons import dumper

        t = tctx()
        trace = []
        d = sink = None
        fd, styled, showhost = 1, False, False
        with StyleTap() as tap:
            for op in ops:
                kind = op[0]
                if kind == "conf":
                    fd, styled, showhost = op[1], op[2], op[3]
                    extra = op[4] if len(op) > 4 else {}
                    os.environ["COLUMNS"] = str(extra.get("columns", 200))
                    t.options.update(flow_detail=fd, showhost=showhost,
                                     dumper_default_contentview=extra.get("view", "auto"),
                                     content_view_lines_cutoff=extra.get("cutoff", 512))
                    sink = Sink(styled)
                    d = dumper.Dumper(sink)  # vt_codes.ensure_supported(outfile) == outfile.isatty()
                    trace.append({"k": "conf", "fd": fd, "styled": styled, "showhost": showhost})
                    continue
                if d is None:
                    break  # the model never asks for a hook before Configure
                site, pcls, v = op[-3], op[-2], op[-1]
                inj = {}
                if isinstance(site, dict):  # random driver: several fields at once
                    inj = {s: value(s, p) for s, p in site.items()}
                    site_name = "multi"
                else:
                    site_name = site
                    if site != "none":
                        inj = {site: value(site, pick_variant(site, pcls, v))}
                if kind == "http":
                    sh = op[1]
                    f = build_http(sh, inj)
                    hook, ftype, call = sh["hook"], "http", (lambda f=f, h=sh["hook"]: getattr(d, h)(f))
                elif kind == "wsmsg":
                    f = build_ws(inj)
                    hook, ftype, call = "websocket_message", "ws", (lambda f=f: d.websocket_message(f))
                elif kind == "wsend":
                    code = op[1]
                    f = build_wsend(code, inj, by_client=True)
                    hook, ftype, call = "websocket_end", "ws", (lambda f=f: d.websocket_end(f))
                elif kind in ("pmsg", "perr"):
                    proto = op[1]
                    f = build_proto(proto, inj, err=(kind == "perr"))
                    hook = proto + ("_message" if kind == "pmsg" else "_error")
                    ftype, call = proto, (lambda f=f, h=hook: getattr(d, h)(f))
                elif kind == "dnsresp":
                    f = build_dns(op[1], inj)
                    hook, ftype, call = "dns_response", "dns", (lambda f=f: d.dns_response(f))
                elif kind == "dnserr":
                    f = build_dns("none", inj, err=True)
                    hook, ftype, call = "dns_error", "dns", (lambda f=f: d.dns_error(f))
                else:
                    break
                trace.append({"k": "hook", "hook": hook, "ftype": ftype, "fd": fd, "fdw": "fd%d" % min(fd, 4),
                              "styled": styled, "showhost": showhost, "site": site_name, "pcls": pcls})
                trace.extend(run_hook(d, sink, tap, call, site_name))
        return trace

    # ---- random driver: many fields at once, random strings, formats, options -----------------------------------
    def _random(self, seed):
        from mitmproxy.addons import dumper

        rng = random.Random(seed)
        t = tctx()
        pools = {c: MODEL_VARIANTS[c] + EXTRA_VARIANTS.get(c, []) for c in CLASS_ORDER}

        def rand_payload(site):
            n = rng.randint(1, 4)
            parts = []
            for _ in range(n):
                c = rng.choice(CLASS_ORDER)
                p = rng.choice(pools[c])
                if site in LATIN1_ONLY and not all(ord(ch) <= 0xFF or 0xDC80 <= ord(ch) <= 0xDCFF for ch in p):
                    p = "\xe9"
                parts.append(p)
                if rng.random() < 0.3:
                    parts.append(rng.choice(["x", " ", ";", "m", "[", "0"]))
            return "".join(parts)

        def inject(sites, p=0.6):
            # few fields per scenario: validation stops at the first violated segment of a trace
            k = rng.choice([1, 1, 2, 3])
            return {s: value(s, rand_payload(s)) for s in rng.sample(sites, min(k, len(sites)))}

        fd = rng.choice([1, 2, 3, 3, 4, 4])
        styled = rng.random() < 0.5
        showhost = rng.random() < 0.3
        view = "auto"
        if rng.random() < 0.35:
            from mitmproxy import contentviews

            view = rng.choice(contentviews.registry.available_views())
        os.environ["COLUMNS"] = str(rng.choice([40, 80, 200]))
        t.options.update(flow_detail=fd, showhost=showhost, dumper_default_contentview=view,
                         content_view_lines_cutoff=rng.choice([1, 3, 512]))
        sink = Sink(styled)
        d = dumper.Dumper(sink)
        trace = [{"k": "conf", "fd": fd, "styled": styled, "showhost": showhost}]
        with StyleTap() as tap:
            for _ in range(1):
                kind = rng.choice(["http", "http", "http", "http", "wsmsg", "wsend", "pmsg", "perr", "dnsresp", "dnserr"])
                if kind == "http":
                    hook = rng.choice(["response", "error", "http_connect_error"])
                    sh = {"hook": hook, "resp": hook == "response" or (hook == "error" and rng.random() < 0.5),
                          "err": hook != "response", "body": rng.random() < 0.8, "trl": rng.random() < 0.4,
                          "h2": rng.random() < 0.3, "status": rng.choice([200, 204, 302, 404, 418, 500, 99, 700]),
                          "replay": rng.choice([None, None, "request", "response"]), "pushed": rng.random() < 0.2,
                          "ascii": rng.random() < 0.5}
                    for side in ("req", "resp"):
                        fmt = rng.choice(["text", "text", "json", "xml", "form", "js", "css"])
                        sh[side + "_fmt"] = fmt
                        sh[side + "_ct"] = {"text": rng.choice([None, "text/plain"]), "json": "application/json",
                                            "xml": rng.choice(["text/html", "application/xml"]),
                                            "form": "application/x-www-form-urlencoded", "js": "text/javascript",
                                            "css": "text/css"}[fmt]
                        sh[side + "_gzip"] = rng.random() < 0.2
                    inj = inject(["method", "url_path", "req_version", "req_hname", "req_hvalue", "host_header",
                                  "req_body", "req_tname", "req_tvalue", "resp_version", "reason", "resp_hname",
                                  "resp_hvalue", "resp_body", "resp_tname", "resp_tvalue", "error_msg"], 0.4)
                    if "url_path" in inj and rng.random() < 0.5:  # long URLs: truncation at flow_detail 1
                        pad = "a" * rng.choice([20, 60, 150])
                        inj["url_path"] = pad + inj["url_path"] if rng.random() < 0.5 else inj["url_path"] + pad
                    f = build_http(sh, inj)
                    ftype, call = "http", (lambda f=f, h=hook: getattr(d, h)(f))
                elif kind == "wsmsg":
                    inj = inject(["ws_path", "ws_server_host", "ws_content"])
                    f = build_ws(inj, text=rng.random() < 0.6, from_client=rng.random() < 0.5)
                    hook, ftype, call = "websocket_message", "ws", (lambda f=f: d.websocket_message(f))
                elif kind == "wsend":
                    inj = inject(["close_reason", "ws_server_host"], 0.8)
                    code = rng.choice([1000, 1001, 1005, 1006, 1002, 1011, 4999, 0])
                    f = build_wsend("normal", inj, by_client=rng.random() < 0.5, raw_code=code)
                    hook, ftype, call = "websocket_end", "ws", (lambda f=f: d.websocket_end(f))
                elif kind in ("pmsg", "perr"):
                    proto = rng.choice(["tcp", "udp"])
                    inj = inject(["server_host", "content", "proto_error_msg"], 0.7)
                    f = build_proto(proto, inj, err=(kind == "perr"), from_client=rng.random() < 0.5,
                                    quic=rng.random() < 0.2)
                    hook = proto + ("_message" if kind == "pmsg" else "_error")
                    ftype, call = proto, (lambda f=f, h=hook: getattr(d, h)(f))
                elif kind == "dnsresp":
                    ans = rng.choice(["txt", "cname", "https", "none"])
                    inj = inject(["qname", "ans_txt", "ans_cname", "ans_https"], 0.7)
                    f = build_dns(ans, inj, qtype=rng.choice([None, 1, 28, 16, 65, 65280]), rcode=rng.choice([2, 3, 5, 11]))
                    hook, ftype, call = "dns_response", "dns", (lambda f=f: d.dns_response(f))
                else:
                    inj = inject(["qname", "dns_error_msg"], 0.8)
                    f = build_dns("none", inj, err=True)
                    hook, ftype, call = "dns_error", "dns", (lambda f=f: d.dns_error(f))
                trace.append({"k": "hook", "hook": hook, "ftype": ftype, "fd": fd, "fdw": "fd%d" % fd,
                              "styled": styled, "showhost": showhost, "site": "multi", "pcls": "mixed"})
                trace.extend(run_hook(d, sink, tap, call, "multi"))
        t.options.update(dumper_default_contentview="auto", content_view_lines_cutoff=512)
        os.environ["COLUMNS"] = "200"
        return trace


class _FrozenDict(dict):
    """hashable dict, so that records can be members of a frozenset constant"""

    def __hash__(self):
        return hash(tuple(sorted(self.items())))
