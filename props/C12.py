"""C12 -- error pages never reflect unescaped client input.

Model: spec/ErrorPage/ErrorPage.tla   Monitor: Mon_ErrorPage.tla
Real code: the real HttpLayer (regular mode) with Http1Server / Http2Server towards the client and Http1Client
towards the upstream, driven sans-io (lib/vf/sansio.py); every page mitmproxy generates itself
(format_error / make_error_response / the plain 502 of handle_connect_regular) is read back by independent readers:
  * html.parser.HTMLParser (convert_charrefs=False) tokenises the body,
  * the harness's own HTTP/1 response reader checks the framing,
  * an h2 client peer (hyper-h2, the client's role) reads HTTP/2 answers.
Each scenario is run twice: with the payload and with a neutral payload (letters); the page structure of the second
run is the reference for the first (no knowledge of the template is needed to see injected markup).
"""
from __future__ import annotations

import random
import re
from html.parser import HTMLParser
from pathlib import Path

from vf import core

S_MARK, E_MARK = "zqS", "zqE"

# atom -> (text, classes of its markup-significant characters, tokens a tokeniser sees when it is copied raw)
ATOMS = {
    "tag": ("<i>", ["lt", "gt"], ["i"]),
    "ctag": ("</p>", ["lt", "gt"], ["/p"]),
    "script": ("<script>alert(1)</script>", ["lt", "gt", "lt", "gt"], ["script", "/script"]),
    "cmt": ("<!--x-->", ["lt", "gt"], ["!--"]),
    "copy": ("&copy;", ["amp"], ["ref"]),
    "num": ("&#9731;", ["amp"], ["ref"]),
    "ent": ("&lt;", ["amp"], []),
    "amp": ("&", ["amp"], []),
    "gt": (">", ["gt"], []),
    "quot": ('"', ["quot"], []),
    "apos": ("'", ["apos"], []),
    "uni": ("é", [], []),
    "plain": ("x", [], []),
    # line breaks inside the message (multi-line OS / OpenSSL / upstream error texts); only sources that can carry them
    "lf": ("\n", [], []),
    "crlf": ("\r\n", [], []),
}
NEWLINE_ATOMS = ("lf", "crlf")
# sites whose source can contain a line break (error text handed over by the connection attempt)
MULTILINE_SITES = ("connect_failed", "connect_eager_failed")
# size classes of the reflected text: 0 = short, 1 = more than 16 KiB, 2 = more than 64 KiB (letters in front of the payload)
SIZE_FILL = {0: 0, 1: 17000, 2: 70000}


def max_size(site: str) -> int:
    """Largest size class the site's source can carry and still be reflected into an HTML page."""
    _protos, _st, _srck, reflects, path = SITES[site]
    if not reflects or path == "connect" or site == "resp_h2_bad_status":
        return 0
    return 1 if site == "req_bad_scheme" else 2  # an h2 header block is limited to 64 KiB


def size_ok(site: str, proto: str, size: int) -> bool:
    # class 2 only towards HTTP/1 clients: the h2 client peer of the harness does not reopen its flow-control window
    return size <= max_size(site) and (size < 2 or proto == "h1")
ATOMS_QUICK = ("tag", "cmt", "copy", "amp", "quot", "apos", "uni", "lf", "crlf")  # the random driver uses all atoms

# site -> protos, status, source kind, reflects the source, path (see ErrorPage.tla)
SITES = {
    "h1_bad_request_line": (("h1",), 400, "request_line", True, "read_headers"),
    "h1_bad_authority": (("h1",), 400, "authority", True, "read_headers"),
    "h1_bad_header_line": (("h1",), 400, "header_line", True, "read_headers"),
    "h1_bad_content_length": (("h1",), 400, "header_value", True, "read_headers"),
    "h1_bad_transfer_encoding": (("h1",), 400, "header_value", True, "read_headers"),
    "req_bad_header_name": (("h1",), 400, "header_name", True, "stream"),
    "req_bad_scheme": (("h2",), 400, "scheme", True, "stream"),
    "req_no_host": (("h1",), 400, "authority", False, "stream"),
    "req_too_large": (("h1", "h2"), 413, "header_value", False, "stream"),
    "connect_failed": (("h1", "h2"), 502, "upstream_error", True, "stream"),
    "resp_bad_header_name": (("h1", "h2"), 502, "response_header_name", True, "stream"),
    "resp_bad_status_line": (("h1", "h2"), 502, "response_line", True, "stream"),
    "resp_bad_content_length": (("h1", "h2"), 502, "response_header_value", True, "stream"),
    "resp_truncated_head": (("h1", "h2"), 502, "response_line", True, "stream"),
    "resp_too_large": (("h1", "h2"), 502, "response_header_value", False, "stream"),
    "resp_h2_bad_status": (("h1", "h2"), 502, "response_h2_status", True, "stream"),
    "connect_eager_failed": (("h1",), 502, "upstream_error", False, "connect"),
    # not a Request site: the page an exchange gets when its upstream connection dies (history family, see Exchange)
    "upstream_closed": (("h1",), 502, "none", False, "exchange"),
}
OUTCOMES = ("ok", "before_head", "mid_body")
# files that may call format_error( / make_error_response( ; anything else means the site list is stale
KNOWN_CALLERS = {
    "mitmproxy/proxy/layers/http/_base.py", "mitmproxy/proxy/layers/http/_http1.py",
    "mitmproxy/proxy/layers/http/_http2.py", "mitmproxy/proxy/layers/http/_http3.py",
}
KNOWN_CALL_COUNT = 5  # call sites (definitions and imports excluded): _http1 x3 (2 uses + make_error_response body), _http2, _http3


# ------------------------------------------------------------------------------------------------------
# independent readers
# ------------------------------------------------------------------------------------------------------
SAFE_REFS = {"amp", "lt", "gt", "quot", "apos", "#34", "#38", "#39", "#60", "#62", "#x22", "#x26", "#x27", "#x3c", "#x3e"}
REF_CHAR = {"amp": "&", "lt": "<", "gt": ">", "quot": '"', "apos": "'", "#34": '"', "#38": "&", "#39": "'", "#60": "<",
            "#62": ">", "#x22": '"', "#x26": "&", "#x27": "'", "#x3c": "<", "#x3e": ">"}
CLS = {"<": "lt", ">": "gt", "&": "amp", '"': "quot", "'": "apos"}


class _Tok(HTMLParser):
    def __init__(self):
        super().__init__(convert_charrefs=False)
        self.text: list[str] = []  # decoded character data, one entry per character
        self.marks: list[tuple[int, str]] = []  # (offset into text, token)

    def _mark(self, tok):
        self.marks.append((len(self.text), tok))

    def handle_starttag(self, tag, attrs):
        self._mark(" ".join([tag] + [a for a, _v in attrs]))

    def handle_startendtag(self, tag, attrs):
        self._mark(" ".join([tag] + [a for a, _v in attrs]) + " /")

    def handle_endtag(self, tag):
        self._mark("/" + tag)

    def handle_comment(self, data):
        self._mark("!--")

    def handle_decl(self, decl):
        self._mark("!decl")

    def unknown_decl(self, data):
        self._mark("!decl")

    def handle_pi(self, data):
        self._mark("?pi")

    def handle_data(self, data):
        self.text.extend(data)

    def _ref(self, name):
        n = name.lower()
        if n in SAFE_REFS:
            self.text.append(REF_CHAR[n])
        else:
            self._mark("ref")
            self.text.append("�")

    def handle_entityref(self, name):
        self._ref(name)

    def handle_charref(self, name):
        self._ref("#" + name)


def tokenise(body: bytes):
    t = _Tok()
    t.feed(body.decode("utf-8", "replace"))
    t.close()
    return t


def html_view(body: bytes, body0: bytes):
    """Project a page and the neutral page of the same scenario."""
    t, t0 = tokenise(body), tokenise(body0)
    skel = [m for _o, m in t.marks if m != "ref"]
    skel0 = [m for _o, m in t0.marks if m != "ref"]
    text = "".join(t.text)
    s = text.find(S_MARK)
    e = text.find(E_MARK, s + len(S_MARK)) if s >= 0 else -1
    refl = s >= 0 and e >= 0
    inner, dec = [], []
    if refl:
        lo, hi = s + len(S_MARK), e
        # marks carry the number of characters that precede them; the markers are characters themselves, so a mark lies
        # between them exactly when lo <= offset <= hi
        inner = ["ref" if m == "ref" else "markup" for o, m in t.marks if lo <= o <= hi]
        dec = [CLS[c] for c in text[lo:hi] if c in CLS]
    return {"html0": any(m.split(" ")[0] == "html" for m in skel0), "skel": skel, "skel0": skel0,
            "nlt": body.count(b"<"), "nlt0": body0.count(b"<"), "refl": refl, "inner": inner, "dec": dec}


_STATUS = re.compile(rb"^HTTP/1\.[01] (\d{3})(?: [^\r\n]*)?$")
_HDR = re.compile(rb"^([!#$%&'*+\-.^_`|~0-9A-Za-z]+):[ \t]*(.*?)[ \t]*$")


def h1_view(raw: bytes, closed: bool):
    """The harness's HTTP/1 response reader: framing features of the first response in `raw`."""
    out = {"parsed": False, "has_len": False, "chunked": False, "delta": 0, "closed": bool(closed), "status": 0,
           "ctype": "none"}
    head, sep, rest = raw.partition(b"\r\n\r\n")
    if not sep:
        return out, b""
    lines = head.split(b"\r\n")
    m = _STATUS.match(lines[0])
    if not m:
        return out, b""
    headers = []
    for ln in lines[1:]:
        hm = _HDR.match(ln)
        if not hm:
            return out, b""
        headers.append((hm.group(1).lower(), hm.group(2)))
    out["status"] = int(m.group(1))
    cls = [v for k, v in headers if k == b"content-length"]
    tes = [v.lower() for k, v in headers if k == b"transfer-encoding"]
    cts = [v for k, v in headers if k == b"content-type"]
    out["ctype"] = ctype_class(cts)
    if tes and cls:
        return out, b""  # ambiguous framing: not a correctly framed response
    out["parsed"] = True
    body = rest
    if tes:
        out["chunked"] = tes[-1].split(b",")[-1].strip() == b"chunked" and len(tes) == 1
        if out["chunked"]:
            data, left = _dechunk(rest)
            if data is None:
                out["parsed"] = False
                return out, b""
            out["delta"] = len(left)
            body = data
    elif cls:
        if len(set(cls)) == 1 and cls[0].isdigit():
            out["has_len"] = True
            out["delta"] = len(rest) - int(cls[0])
            # the HTML view is taken of everything mitmproxy sent as this page; a wrong length is judged by the framing
            # clause, not by tokenising a truncated page
            body = rest
        else:
            out["parsed"] = False
    return out, body


def _dechunk(b: bytes):
    data = b""
    while True:
        ln, sep, b = b.partition(b"\r\n")
        if not sep:
            return None, b""
        try:
            n = int(ln.split(b";")[0], 16)
        except ValueError:
            return None, b""
        if n == 0:
            _t, sep, left = (b"\r\n" + b).partition(b"\r\n\r\n")
            return (data, left) if sep else (None, b"")
        if len(b) < n + 2 or b[n:n + 2] != b"\r\n":
            return None, b""
        data += b[:n]
        b = b[n + 2:]


def ctype_class(values) -> str:
    if not values:
        return "none"
    if len(values) > 1:
        return "other"
    mt = values[0].split(b";")[0].strip().lower()
    return "html" if mt in (b"text/html", b"application/xhtml+xml") else "other"


def _looks_html(ctype: str, body: bytes) -> bool:
    return ctype == "html" or any(m.split(" ")[0] == "html" for _o, m in tokenise(body).marks)


def h1_stream_items(chunks, closed: bool):
    """The harness's HTTP/1 reader over everything mitmproxy wrote to the client, as a sequence of responses.

    Returns items {off, status, ctype, body, fr, complete, embedded}.  Responses are read one after the other
    (1xx/204/304 without body, Content-Length, chunked, or close-delimited).  A write that starts with a status line
    but does NOT start at a message boundary of that sequence is reported as an `embedded` item (bytes that look like
    a response but lie inside another response)."""
    raw = b"".join(chunks)
    items, off = [], 0
    while off < len(raw):
        fr, body = h1_view(raw[off:], closed)
        status, ctype = fr.pop("status"), fr.pop("ctype")
        consumed = len(raw) - off
        if fr["parsed"]:
            head_len = raw[off:].index(b"\r\n\r\n") + 4
            if 100 <= status < 200 or status in (204, 304):
                consumed, body = head_len, b""
                fr.update(has_len=False, chunked=False, delta=0)
                complete = True
            elif fr["has_len"]:
                n = len(raw) - off - head_len - fr["delta"]
                rest = raw[off + head_len + n:] if fr["delta"] > 0 else b""
                if fr["delta"] > 0 and rest.startswith(b"HTTP/1."):
                    consumed, body = head_len + n, raw[off + head_len: off + head_len + n]
                    fr["delta"] = 0
                complete = fr["delta"] == 0
            elif fr["chunked"]:
                complete = fr["delta"] == 0
            else:
                complete = bool(closed)
        else:
            complete = False
        items.append({"off": off, "status": status, "ctype": ctype, "body": body, "fr": fr, "complete": complete,
                      "embedded": False})
        off += consumed
    starts = {it["off"] for it in items}
    o = 0
    for c in chunks:
        if o not in starts and c.startswith(b"HTTP/1."):
            fr, body = h1_view(raw[o:], closed)
            status, ctype = fr.pop("status"), fr.pop("ctype")
            items.append({"off": o, "status": status, "ctype": ctype, "body": body, "fr": fr, "complete": False,
                          "embedded": True})
        o += len(c)
    items.sort(key=lambda it: it["off"])
    prev_complete = None
    for it in items:
        it["prior"] = "open" if it["embedded"] or prev_complete is False else ("none" if prev_complete is None else "complete")
        if not it["embedded"]:
            prev_complete = it["complete"]
    return items


# ------------------------------------------------------------------------------------------------------
# driving the real layers
# ------------------------------------------------------------------------------------------------------
def payload_text(atoms, neutral: bool) -> str:
    if neutral:  # letters instead of every atom, but the same line structure
        return S_MARK + "".join(ATOMS[a][0] if a in NEWLINE_ATOMS else "zqN" for a in atoms) + E_MARK
    return S_MARK + "".join(ATOMS[a][0] for a in atoms) + E_MARK


def drive(site, proto: str, text: str, opts_extra=None, history=()):
    """Run one client connection through the real layers: the exchanges of `history` ((expect, stream, outcome) each,
    HTTP/1 only), then -- unless site is None -- the request that makes mitmproxy answer with a page.
    Returns (list of byte strings written to the client, client closed by mitmproxy, h2 peer)."""
    from vf import sansio

    from mitmproxy.proxy.layers import http

    P = text.encode("utf-8")
    opts = dict(opts_extra or {})
    open_err = None
    server_bytes = None
    server_closes = False
    server_h2_status = None
    method, target, headers, body = b"GET", b"http://example.com/", [], None
    raw_request = None
    if site == "h1_bad_request_line":
        raw_request = b"GET /" + P + b" HTTX/1.1\r\nHost: example.com\r\n\r\n"
    elif site == "h1_bad_authority":
        raw_request = b"CONNECT " + P + b"^:443 HTTP/1.1\r\n\r\n"  # "^" keeps the authority invalid for any payload
    elif site == "h1_bad_header_line":
        raw_request = b"GET http://example.com/ HTTP/1.1\r\n" + P + b"\r\n\r\n"
    elif site == "h1_bad_content_length":
        headers = [(b"Content-Length", P)]
    elif site == "h1_bad_transfer_encoding":
        method, headers = b"POST", [(b"Transfer-Encoding", P)]
    elif site == "req_bad_header_name":
        headers = [(b"X" + P + b"(", b"1")]  # "(" is not a token character: invalid for any payload
    elif site == "req_bad_scheme":
        target = P + b"://example.com/"
    elif site == "req_no_host":
        raw_request = b"GET / HTTP/1.1\r\nHost: " + P + b"^\r\n\r\n"
    elif site == "req_too_large":
        method, headers, body = b"POST", [(b"Content-Length", b"100"), (b"X-Note", P)], b"y" * 100
        opts["body_size_limit"] = "10"
    elif site == "connect_failed":
        open_err = "upstream said: " + text
    elif site == "resp_bad_header_name":
        server_bytes = b"HTTP/1.1 200 OK\r\nX" + P + b"(: 1\r\nContent-Length: 0\r\n\r\n"
    elif site == "resp_bad_status_line":
        server_bytes = b"HTTX/1.1 " + P + b"\r\n\r\n"
    elif site == "resp_bad_content_length":
        server_bytes = b"HTTP/1.1 200 OK\r\nContent-Length: " + P + b"\r\n\r\n"
    elif site == "resp_truncated_head":
        server_bytes, server_closes = b"HTTP/1.1 200 " + P, True
    elif site == "resp_too_large":
        server_bytes = b"HTTP/1.1 200 OK\r\nContent-Length: 100\r\nX-Note: " + P + b"\r\n\r\n"
        opts["body_size_limit"] = "10"
    elif site == "resp_h2_bad_status":
        server_h2_status = P  # an HTTP/2 upstream (ALPN h2) answers with this :status
    elif site == "connect_eager_failed":
        raw_request = b"CONNECT example.com:443 HTTP/1.1\r\n\r\n"
        open_err = "upstream said: " + text
        opts["connection_strategy"] = "eager"
    elif site is not None:
        raise ValueError(site)

    o = sansio.make_options(**opts)
    ctx = sansio.make_context(o)
    peer = None
    if proto == "h2":
        ctx.client.alpn = b"h2"
    top = http.HttpLayer(ctx, http.HTTPMode.regular)
    cur = {"stream": False}

    def on_hook(_d, hook):  # an addon turns on streaming for the response of the current exchange
        if hook.name == "responseheaders" and cur["stream"]:
            hook.args()[0].response.stream = True

    d = sansio.Driver(ctx, top, auto_hooks=True, on_hook=on_hook)
    d.start()
    for i, (expect, stream, outcome) in enumerate(history):
        cur["stream"] = bool(stream)
        host = b"h%d.example" % i
        req = b"POST http://" + host + b"/ HTTP/1.1\r\nHost: " + host + b"\r\nContent-Length: 3\r\n"
        if expect:
            req += b"Expect: 100-continue\r\n"
        d.data("client", req + b"\r\n")
        d.data("client", b"abc")
        ops = d.opens_pending()
        if not ops:
            break  # the code did not ask for an upstream connection: diverged, judge what was written so far
        d.complete(ops[0], None)
        name = d.name(ops[0].connection)
        head = b"HTTP/1.1 200 OK\r\nContent-Type: application/octet-stream\r\nContent-Length: 10\r\n\r\n"
        if outcome == "ok":
            d.data(name, head + b"0123456789")
        elif outcome == "mid_body":
            d.data(name, head + b"012")
            d.peer_close(name)
        else:
            d.peer_close(name)
    cur["stream"] = False
    if site is None:
        pass
    elif proto == "h1":
        if raw_request is None:
            raw_request = method + b" " + target + b" HTTP/1.1\r\nHost: example.com\r\n"
            for k, v in headers:
                raw_request += k + b": " + v + b"\r\n"
            raw_request += b"\r\n" + (body or b"")
        d.data("client", raw_request)
    else:
        import h2.config
        import h2.connection

        peer = h2.connection.H2Connection(h2.config.H2Configuration(
            client_side=True, validate_outbound_headers=False, normalize_outbound_headers=False,
            validate_inbound_headers=False, header_encoding=None))
        peer.initiate_connection()
        scheme, _, rest = target.partition(b"://")
        hs = [(b":method", method), (b":scheme", scheme), (b":authority", b"example.com"), (b":path", b"/")]
        hs += [(k.lower(), v) for k, v in headers]
        peer.send_headers(1, hs, end_stream=body is None)
        if body is not None:
            peer.send_data(1, body, end_stream=True)
        d.data("client", peer.data_to_send())
    for _ in range(4 if site is not None else 0):
        ops = d.opens_pending()
        if not ops:
            break
        if server_h2_status is not None:
            ops[0].connection.alpn = b"h2"  # what the TLS layer would have negotiated
        d.complete(ops[0], open_err)
        if server_h2_status is not None:
            import h2.config
            import h2.connection
            import h2.events

            name = d.name(ops[0].connection)
            srv = h2.connection.H2Connection(h2.config.H2Configuration(
                client_side=False, validate_outbound_headers=False, normalize_outbound_headers=False,
                validate_inbound_headers=False, header_encoding=None))
            srv.initiate_connection()
            sids = [e.stream_id for e in srv.receive_data(d.sent_to(name)) if isinstance(e, h2.events.RequestReceived)]
            if sids:
                srv.send_headers(sids[0], [(b":status", server_h2_status), (b"content-length", b"0")], end_stream=True)
                d.data(name, srv.data_to_send())
        elif open_err is None and server_bytes is not None:
            name = d.name(ops[0].connection)
            d.data(name, server_bytes)
            if server_closes:
                d.peer_close(name)
    from mitmproxy.connection import ConnectionState

    closed = ctx.client.state is ConnectionState.CLOSED
    chunks = [bytes(e["data"]) for e in d.log if e["t"] == "send" and e["c"] == "client"]
    return chunks, closed, peer


def h2_read(peer, raw: bytes):
    """The h2 client peer's view of what mitmproxy sent: list of (status, ctype values, body, ended)."""
    import h2.events
    import h2.exceptions

    out = {}
    try:
        evs = peer.receive_data(raw)
    except h2.exceptions.ProtocolError:
        return [], True
    broken = False
    for e in evs:
        if isinstance(e, h2.events.ResponseReceived):
            hd = [(bytes(k), bytes(v)) for k, v in e.headers]
            st = [v for k, v in hd if k == b":status"]
            out[e.stream_id] = {"status": int(st[0]) if st and st[0].isdigit() else 0,
                                "ct": [v for k, v in hd if k.lower() == b"content-type"],
                                "cl": [v for k, v in hd if k.lower() == b"content-length"], "body": b"", "ended": False}
        elif isinstance(e, h2.events.DataReceived) and e.stream_id in out:
            out[e.stream_id]["body"] += e.data
        elif isinstance(e, h2.events.StreamEnded) and e.stream_id in out:
            out[e.stream_id]["ended"] = True
        elif isinstance(e, (h2.events.ConnectionTerminated, h2.events.StreamReset)):
            broken = True
    return [out[k] for k in sorted(out)], broken


NO_HTML = {"html0": False, "skel": [], "skel0": [], "nlt": 0, "nlt0": 0, "refl": False, "inner": [], "dec": []}


def run_scenario(sc):
    site, proto, atoms = sc.get("site"), sc.get("proto", "h1"), list(sc.get("atoms", []))
    history = [tuple(h) for h in sc.get("history", [])]
    size = int(sc.get("size", 0))
    pre, post = "Q" * SIZE_FILL[size] + sc.get("pre", ""), sc.get("post", "")
    src = [c for a in atoms for c in ATOMS[a][1]]
    trace = []
    for expect, stream, outcome in history:
        trace.append({"k": "input", "site": "exchange", "proto": "h1", "srck": "none", "src": [], "lines": 1, "size": 0,
                      "expect": bool(expect), "stream": bool(stream), "outcome": outcome})
    if site is not None:
        srck = SITES[site][2]
        trace.append({"k": "input", "site": site, "proto": proto, "srck": srck, "src": src,
                      "lines": 1 + sum(1 for a in atoms if a in NEWLINE_ATOMS), "size": size})
    else:
        site_name, srck = "upstream_closed", "none"
    runs = []
    for neutral in ((False, True) if site is not None else (False,)):
        text = pre + payload_text(atoms, neutral) + post
        try:
            runs.append(drive(site, proto, text, sc.get("opts"), history))
        except Exception as e:  # noqa: BLE001  the code under test raised out of handle_event
            trace.append({"k": "raised", "exc": type(e).__name__, "neutral": neutral})
            trace.append({"k": "end"})
            return _order(trace)
    chunks, closed, peer = runs[0]
    chunks0, closed0, peer0 = runs[-1]
    if proto == "h2":
        pages = []
        for r, p in ((b"".join(chunks), peer), (b"".join(chunks0), peer0)):
            rs, broken = h2_read(p, r)
            if rs:
                x = rs[0]
                fr = {"parsed": bool(x["ended"]) and not broken, "has_len": bool(x["cl"]), "chunked": False,
                      "delta": (len(x["body"]) - int(x["cl"][0])) if x["cl"] and x["cl"][0].isdigit() else 0,
                      "closed": False}
                pages.append((x["status"], ctype_class(x["ct"]), x["body"], fr))
            else:
                pages.append(None)
        pg, pg0 = pages
        if pg is not None:
            status, ctype, body, fr = pg
            hv = html_view(body, pg0[2] if pg0 is not None else b"")
            if not hv["html0"] and ctype != "html":
                hv = dict(NO_HTML)
            trace.append({"k": "page", "site": site, "proto": proto, "srck": srck, "status": status, "ctype": ctype,
                          **hv, "src": src, **fr, "prior": "none"})
        trace.append({"k": "end"})
        return _order(trace)
    # HTTP/1: everything written to the client, read as a sequence of responses
    items = h1_stream_items(chunks, closed)
    items0 = [it for it in h1_stream_items(chunks0, closed0) if not it["embedded"]]
    n_hist = sum((1 if e else 0) + (1 if o == "ok" or (o == "mid_body" and st) else 0) for e, st, o in history)
    seq = 0
    answered = False
    for it in items:
        idx = None if it["embedded"] else seq
        if not it["embedded"]:
            seq += 1
        # responses the history accounts for (interim 100s, relayed upstream responses) are not pages; what mitmproxy
        # wrote beyond them is: the answer to the failing request / exchange, or response-like bytes inside another one
        is_answer = idx is not None and idx >= n_hist and (site is not None and not answered
                                                            or _looks_html(it["ctype"], it["body"]))
        if is_answer or (it["embedded"] and _looks_html(it["ctype"], it["body"])):
            if is_answer:
                answered = True
            body0 = items0[idx]["body"] if idx is not None and idx < len(items0) else it["body"]
            hv = html_view(it["body"], body0)
            if not hv["html0"] and it["ctype"] != "html":
                # not an HTML page (the plain 502 of the eager CONNECT path): the HTML projection does not apply
                hv = dict(NO_HTML)
            trace.append({"k": "page", "site": site if site is not None else "upstream_closed", "proto": "h1",
                          "srck": srck, "status": it["status"], "ctype": it["ctype"], **hv,
                          "src": src if site is not None else [], **it["fr"], "prior": it["prior"]})
        else:
            trace.append({"k": "resp", "status": it["status"], "complete": bool(it["complete"])})
    trace.append({"k": "end"})
    return _order(trace)


def _order(trace):
    """Inputs are logged when the scenario is built, responses when the stream is read afterwards; the model emits the
    input of an exchange before that exchange's responses.  Interleave: history input i precedes the responses of
    exchange i.  (The reader cannot attribute responses to exchanges; the harness does it by counting: an exchange with
    Expect contributes an interim response, one with a relayed head a final response.)"""
    inputs = [e for e in trace if e["k"] == "input"]
    rest = [e for e in trace if e["k"] != "input"]
    if len(inputs) <= 1:
        return inputs + rest
    out = []
    for inp in inputs:
        out.append(inp)
        if inp.get("site") != "exchange":
            continue
        want = (1 if inp["expect"] else 0) + (1 if inp["outcome"] == "ok" or (inp["outcome"] == "mid_body" and inp["stream"]) else 0)
        while want and rest and rest[0]["k"] == "resp":
            out.append(rest.pop(0))
            want -= 1
    return out + rest


# ------------------------------------------------------------------------------------------------------
class Check(core.PropertyCheck):
    ID = "C12"
    SPEC_DIR = "ErrorPage"
    MODEL = "ErrorPage"
    MON = "Mon_ErrorPage"
    REQUIRED_WITNESSES = ("html_page_h1", "html_page_h2", "reflected", "not_reflected", "escaped_lt", "escaped_amp",
                          "escaped_quot", "escaped_apos", "h1_length_exact", "h1_closed", "plain_page", "multiline_escaped_lt",
                          "long16_h1_exact", "long64_h1_exact", "long16_h2_page", "fault_after_head_closed_only",
                          "fault_after_interim_and_head", "page_after_complete_exchange", "page_after_earlier_interim")
    REQUIRED_ACTIONS = ("Request", "H1ReadHeadersError", "StreamError", "H1SendError", "H2SendError",
                        "ConnectEagerFail", "Finish", "Exchange", "XRequestHeaders", "XUpstreamOk",
                        "XUpstreamPartial", "XFault")
    ASSUMPTIONS = (
        "html.parser.HTMLParser is the HTML tokeniser of record: 'unescaped' means it sees a tag/comment/declaration or a "
        "character reference that escaping cannot have produced between the payload markers, the page's token "
        "skeleton differs from the same page with a neutral payload, or the page has more raw '<' bytes than that one; "
        "raw '>' \" ' in character data are not demanded to be escaped (they are inert there)",
        "pages are produced by the real HttpLayer/Http1Server/Http2Server/Http1Client driven sans-io; upstream errors "
        "are injected as the OpenConnection reply or as bytes of a fake HTTP/1 upstream; HTTP/3 clients, upstream-proxy "
        "CONNECT refusals, HTTP/2 upstreams and pages made by addons (proxyauth) are not driven",
        "the list of generating call sites is checked against a scan of the tree (a new caller of format_error / "
        "make_error_response is a machinery error, not a pass)",
    )

    def mon_constants(self, tier):
        return {}

    def _sites(self):
        return {k: {"protos": frozenset(v[0]), "status": v[1], "srck": v[2], "reflects": v[3], "path": v[4],
                    "multiline": k in MULTILINE_SITES, "maxsize": max_size(k)} for k, v in SITES.items()}

    def _atoms(self, names):
        return {a: {"cls": tuple(ATOMS[a][1]), "markup": tuple(ATOMS[a][2]), "nl": a in NEWLINE_ATOMS} for a in names}

    def model_constants(self, tier):
        return {"Sites": self._sites(), "Atoms": self._atoms(ATOMS_QUICK if tier == "quick" else tuple(ATOMS)),
                "MaxAtoms": 2, "Escape": True, "CType": "html", "MaxEx": 1 if tier == "quick" else 2,
                "StickyInterim": False}

    def setup(self, ctx):
        import os

        root = Path(os.environ.get("VERIF_REPO", "/repo"))
        calls = 0
        for p in sorted((root / "mitmproxy").rglob("*.py")):
            txt = p.read_text(errors="replace")
            n = 0
            for m in re.finditer(r"(?<![\w.])(format_error|make_error_response)\(", txt):
                line_start = txt.rfind("\n", 0, m.start()) + 1
                if txt[line_start:m.start()].strip().startswith("def"):
                    continue
                n += 1
            if n:
                rel = str(p.relative_to(root))
                if rel not in KNOWN_CALLERS:
                    raise core.MachineryError(f"C12: site list stale: {rel} calls format_error/make_error_response")
                calls += n
        if calls > KNOWN_CALL_COUNT:
            raise core.MachineryError(f"C12: site list stale: {calls} call sites of format_error/make_error_response, "
                                      f"the check knows {KNOWN_CALL_COUNT}")

    def model_runs(self, ctx):
        runs = [ctx.model_check(self.MODEL, self.model_constants(ctx.tier), dump=True)]
        if not ctx.quick:
            # payloads of up to three atoms over the markup-active atoms (statistics only; TLC enumerates the Request
            # quantifier in every state, so the payload set must stay in the hundreds)
            big = ctx.model_check(self.MODEL, self.model_constants(ctx.tier) | {"MaxAtoms": 3,
                                  "Atoms": self._atoms(("tag", "cmt", "copy", "amp", "quot", "lf"))}, dump=False,
                                  tag="_big")
            runs.append(big)
            # design level: the monitor rejects a format_error without escaping and a text/plain declaration
            for tag, kw, clause in (("_noesc", {"Escape": False}, "C12.unescaped_reflection"),
                                    ("_plain", {"CType": "other"}, "C12.no_html_content_type"),
                                    ("_sticky", {"StickyInterim": True}, "C12.h1_bad_framing")):
                r = ctx.model_check(self.MODEL, self.model_constants("quick") | kw | {"MaxAtoms": 1}, dump=False, tag=tag)
                if not any(b and b[0] == clause for b in r.bad):
                    raise core.MachineryError(f"C12: design variant {tag} not rejected by the monitor")
                ctx.notes.setdefault("design_variants_rejected", []).append(tag)
        return runs

    def scenarios(self, ctx, models):
        g = models[0].graph
        n = 0
        closers = ("H1ReadHeadersError", "H1SendError", "H2SendError", "ConnectEagerFail", "XUpstreamOk", "XFault")
        seen = set()
        for b in g.edge_cover(ctx.rng, max_len=20, tail=10):
            # keep the longest prefix that ends where a unit (an exchange or the failing request) is finished
            last = max((i for i, st in enumerate(b) if st[0] in closers or st[0] == "Finish"), default=0)
            b = b[: last + 1]
            history, final = [], None
            for name, args, _st in b[1:]:
                if name == "Exchange":
                    history.append([bool(args[0]), bool(args[1]), str(args[2])])
                elif name == "Request":
                    final = args
            if not history and final is None:
                continue
            pred = core.predicted_events(b)
            if b[-1][0] != "Finish":
                pred = pred + [{"k": "end"}]  # the harness closes every trace with "end"
            sc = {"history": history, "site": None}
            if final is not None:
                site, proto, atoms, size = final
                pre, post = (("", ""), ("ab", ""), ("", "cd"), ("ab", "cd"))[n % 4] if not ctx.quick else ("", "")
                n += 1
                sc.update({"site": site, "proto": proto, "atoms": list(atoms), "pre": pre, "post": post, "size": int(size)})
            key = repr(sc)
            if key in seen:
                continue
            seen.add(key)
            yield core.Scenario(sc, predicted=pred, source="model")
        # beyond the model: longer payloads, all atoms, surrounding text, option variations
        rng = random.Random(ctx.seed + 12)
        names = list(ATOMS)
        fill = ["", "a", "Zq", "0", "x-y", "%3C", "\\", "€", "~"]
        for _ in range(400 if ctx.quick else 12000):
            site = rng.choice([k for k in SITES if SITES[k][4] != "exchange"])
            proto = rng.choice(SITES[site][0])
            atoms = [rng.choice(names) for _i in range(rng.randint(1, 7))]
            if site not in MULTILINE_SITES:
                atoms = [a for a in atoms if a not in NEWLINE_ATOMS] or ["tag"]
            elif rng.random() < 0.5:  # multi-line error text: a line break somewhere, markup before and after it
                atoms.insert(rng.randrange(len(atoms) + 1), rng.choice(NEWLINE_ATOMS))
            sc = {"site": site, "proto": proto, "atoms": atoms, "pre": rng.choice(fill), "post": rng.choice(fill)}
            if rng.random() < 0.15:  # long reflected text
                sc["size"] = rng.choice([z for z in (1, 2) if size_ok(site, proto, z)] or [0])
            if rng.random() < 0.2 and site not in ("req_bad_header_name", "resp_bad_header_name"):
                sc["opts"] = {"validate_inbound_headers": False}
            # histories beyond the model's bounds: several complete exchanges first, or an upstream fault as the end
            r = rng.random()
            if proto == "h1" and r < 0.45:
                sc["history"] = [[rng.random() < 0.5, rng.random() < 0.5, "ok"] for _i in range(rng.randint(1, 4))]
                if r < 0.2:
                    sc = {"history": sc["history"] + [[rng.random() < 0.5, rng.random() < 0.6,
                                                       rng.choice(("before_head", "mid_body"))]], "site": None}
            yield core.Scenario(sc, source="random")

    def execute(self, sc):
        return run_scenario(sc)
