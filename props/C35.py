"""C35 -- header collections behave as a case-insensitive ordered multimap.

Model: spec/Headers/Headers.tla   Monitor: Mon_Headers.tla
Real code: mitmproxy.http.Headers (coretypes.multidict) and http1.read_request_head / read_response_head.
"""
from __future__ import annotations

import random

from vf import core

# ---- concretisation tables ---------------------------------------------------------------------------------------
BASES = {"a": "x-alpha", "b": "content-b", "c": "cookie", "d": "dd", "e": "x-e-1f", "f": "f_fg"}


def _spell(base: str, s: int) -> str:
    if s == 0:
        return base.lower()
    if s == 1:
        return "-".join(p[:1].upper() + p[1:] for p in base.split("-"))
    if s == 2:
        return base.upper()
    return "".join(c.upper() if i % 2 else c.lower() for i, c in enumerate(base))  # 3: aLtErNaTiNg


NAME = {(l, s): _spell(b, s) for l, b in BASES.items() for s in range(4)}
assert len(set(NAME.values())) == len(NAME)
RNAME = {v: k for k, v in NAME.items()}
# value id -> (text, valid as an HTTP/1 field value that must survive serialise -> parse)
VALUES = {
    1: ("v1", True), 2: ("two words", True), 3: ("café 日本", True), 4: ("", True), 5: ("a;b=c:d", True),
    6: ("in\tner", True), 7: ("x" * 300, True),
    8: (" padded ", False), 9: ("fold\r\n cont", False), 10: ("bare\nlf", False),
}
RVALUE = {v[0]: k for k, v in VALUES.items()}
EXC_VAL = -999


class _Proj:
    """Observed strings -> abstract names / value ids (unknown ones get fresh ids in first-seen order)."""

    def __init__(self):
        self.names = {}
        self.vals = {}

    def name(self, x):
        if isinstance(x, bytes):
            x = x.decode("utf-8", "surrogateescape")
        if not isinstance(x, str):
            x = repr(x)
        if x in RNAME:
            return list(RNAME[x])
        return [self.names.setdefault(x, "?%d" % (len(self.names) + 1)), 0]

    def val(self, x):
        if isinstance(x, bytes):
            x = x.decode("utf-8", "surrogateescape")
        if not isinstance(x, str):
            x = repr(x)
        if x in RVALUE:
            return RVALUE[x]
        return self.vals.setdefault(x, 1000 + len(self.vals))

    def fields(self, fs):
        return [[self.name(k), self.val(v)] for k, v in fs]

    def folded(self, s):
        if not isinstance(s, str):
            return [self.val(s)]
        return [self.val(p) for p in s.split(", ")]


def _lookup(fn, on_exc):
    try:
        return fn(), ""
    except KeyError:
        return on_exc, "KeyError"
    except Exception as e:  # an observation
        return on_exc, type(e).__name__


def _parse_wire(data: bytes, i: int):
    """Serialised header block -> Headers via the real HTTP/1 head readers (line splitting by h11's ReceiveBuffer, as
    the proxy's Http1Server/Http1Client do)."""
    from h11._receivebuffer import ReceiveBuffer

    from mitmproxy.net.http import http1

    buf = ReceiveBuffer()
    first = b"GET /p HTTP/1.1\r\n" if i % 2 == 0 else b"HTTP/1.1 200 OK\r\n"
    buf += first + data + b"\r\n"
    lines = buf.maybe_extract_lines()
    if lines is None:
        raise ValueError("incomplete head")
    lines = [bytes(x) for x in lines]
    msg = http1.read_request_head(lines) if i % 2 == 0 else http1.read_response_head(lines)
    return msg.headers


def run(sc):
    from mitmproxy.http import Headers

    P = _Proj()
    as_bytes = bool(sc.get("bytes_keys"))

    def nm(key):
        s = NAME[(key[0], key[1])]
        return s.encode() if as_bytes else s

    def vl(v):
        s = VALUES[v][0]
        return s.encode("utf-8") if as_bytes else s

    given = [[list(k), v] for k, v in sc["init"]]
    raw = [(NAME[(k[0], k[1])].encode(), VALUES[v][0].encode("utf-8")) for k, v in given]
    ctor = sc.get("ctor", "fields")
    if ctor == "from_state":
        h = Headers.from_state(tuple(raw))
    elif ctor == "set_state":
        h = Headers()
        h.set_state(tuple(raw))
    else:
        h = Headers(raw)
    other = None
    trace = [{"k": "init", "given": given, "fields": P.fields(h.fields)}]
    keys = [list(k) for k in sc["keys"]]
    nprobe = [0]

    def probe():
        nprobe[0] += 1
        ga, gi, gix, get, gn, has = [], [], [], [], [], []
        for k in keys:
            n = nm(k)
            r, _e = _lookup(lambda: [P.val(x) for x in h.get_all(n)], [EXC_VAL])
            ga.append(r)
            r, e = _lookup(lambda: P.folded(h[n]), [])
            gi.append(r)
            gix.append(e)
            r, e = _lookup(lambda: h.get(n), EXC_VAL)
            gn.append(r is None)
            get.append([] if r is None else ([EXC_VAL] if r == EXC_VAL else P.folded(r)))
            r, e = _lookup(lambda: n in h, False)
            has.append(bool(r))
        ln, _e = _lookup(lambda: len(h), -1)
        it, _e = _lookup(lambda: [P.name(x) for x in h], [["!exc", 0]])
        itemsm, _e = _lookup(lambda: P.fields(list(h.items(multi=True))), [[["!exc", 0], EXC_VAL]])
        items, _e = _lookup(lambda: [[P.name(k), P.folded(v)] for k, v in h.items()], [[["!exc", 0], [EXC_VAL]]])
        keysm, _e = _lookup(lambda: [P.name(x) for x in h.keys(multi=True)], [["!exc", 0]])
        cur = list(h.fields)
        others = [cur, cur + [(NAME[("a", 0)].encode(), VALUES[1][0].encode())]]
        if cur:
            k0 = P.name(cur[0][0])
            if tuple(k0) in NAME:
                t = NAME[(k0[0], 1 if k0[1] == 0 else 0)].encode()
                others.append([(t, cur[0][1])] + cur[1:])
        eqs = []
        for o in others:
            r, _e = _lookup(lambda: h == Headers(o), False)
            eqs.append({"o": P.fields(o), "r": bool(r)})
        valid = all(VALUES.get(P.val(v), ("", False))[1] and tuple(P.name(k)) in NAME for k, v in cur)
        wire = {"valid": valid, "ok": True, "back": []}
        try:
            wire["back"] = P.fields(_parse_wire(bytes(h), nprobe[0]).fields)
        except Exception:
            wire["ok"] = False
        trace.append({"k": "probe", "keys": keys, "ga": ga, "gi": gi, "gix": gix, "get": get, "gn": gn, "has": has,
                      "len": ln, "iter": it, "itemsm": itemsm, "items": items, "keysm": keysm, "eqs": eqs, "wire": wire,
                      "hasother": other is not None, "other": P.fields(other.fields) if other is not None else [],
                      "after": P.fields(h.fields)})

    probe()
    MISSING = object()
    for op in sc["ops"]:
        kind = op["op"]
        if kind == "copy":
            via = op.get("via", "copy")
            if via == "from_state":
                c = Headers.from_state(h.get_state())
            elif via == "ctor":
                c = Headers(list(h.fields))
            else:
                c = h.copy()
            trace.append({"k": "copy", "via": via, "res": P.fields(c.fields)})
            if op.get("cont") == "copy":
                other, h = h, c
            else:
                other = c
            probe()
            continue
        key = list(op.get("key") or ["", 0])
        vals = list(op.get("vals") or [])
        idx = int(op.get("idx", 0))
        ev = {"k": "mut", "op": kind, "key": key, "vals": vals, "idx": idx, "exc": "", "res": [], "dflt": False,
              "rkey": ["", 0]}
        try:
            if kind == "setitem":
                h[nm(key)] = vl(vals[0])
            elif kind == "set_all":
                h.set_all(nm(key), [vl(v) for v in vals])
            elif kind == "add":
                h.add(nm(key), vl(vals[0]))
            elif kind == "insert":
                h.insert(idx, nm(key), vl(vals[0]))
            elif kind == "delitem":
                del h[nm(key)]
            elif kind == "pop":
                ev["res"] = P.folded(h.pop(nm(key)))
            elif kind == "pop_default":
                r = h.pop(nm(key), MISSING)
                if r is MISSING:
                    ev["dflt"] = True
                else:
                    ev["res"] = P.folded(r)
            elif kind == "setdefault":
                ev["res"] = P.folded(h.setdefault(nm(key), vl(vals[0])))
            elif kind == "clear":
                h.clear()
            elif kind == "popitem":
                k, v = h.popitem()
                ev["rkey"] = P.name(k)
                ev["res"] = P.folded(v)
            else:
                break  # unknown operation: the model diverged; judge what was observed so far
        except Exception as e:  # KeyError is expected for missing keys; anything else is an observation, too
            ev["exc"] = type(e).__name__
        ev["after"] = P.fields(h.fields)
        trace.append(ev)
        probe()
    return trace


ACTIONS = {"SetItem": "setitem", "SetAll": "set_all", "Add": "add", "Insert": "insert", "DelItem": "delitem",
           "Pop": "pop", "PopDefault": "pop_default", "SetDefault": "setdefault", "Clear": "clear", "PopItem": "popitem"}

A0, A1, A2, B0, B1, C0 = ("a", 0), ("a", 1), ("a", 2), ("b", 0), ("b", 1), ("c", 0)
PROBE_KEYS = (A0, B1, C0)
RICH = ((B1, 1), (A0, 2), (A1, 1), (B0, 2))          # interleaved names, mixed spellings
INITS = ((), ((A0, 1),), ((A1, 1), (B0, 2), (A0, 2)), RICH, ((A0, 1), (A1, 2)), ((C0, 1), (A2, 2), (B0, 1), (A0, 1), (C0, 2)))


def _inits(depths):
    return frozenset((INITS[i], d) for i, d in enumerate(depths) if d > 0)


class Check(core.PropertyCheck):
    ID = "C35"
    SPEC_DIR = "Headers"
    MODEL = "Headers"
    MON = "Mon_Headers"
    REQUIRED_WITNESSES = ("init", "lookup_multi", "lookup_other_case", "lookup_missing", "repeated_name", "mixed_spelling",
                          "eq_same", "eq_different", "wire", "copy_independent", "copy_copy", "copy_from_state",
                          "op_setitem", "op_set_all", "op_add", "op_insert", "op_delitem", "op_pop", "op_pop_default",
                          "op_setdefault", "op_clear", "op_popitem", "replace_fewer", "replace_more",
                          "mutate_other_case", "interleaved", "missing_key", "insert_inside")
    REQUIRED_ACTIONS = ("Construct", "SetItem", "SetAll", "Add", "Insert", "DelItem", "Pop", "PopDefault", "SetDefault",
                        "Clear", "PopItem", "Copy")
    ASSUMPTIONS = (
        "names/values are concretised from fixed tables (6 base names x 4 spellings, 10 values, none containing ', '); "
        "folded results of __getitem__/get/pop are projected back to value lists by splitting on ', '",
        "the field list adopted by the monitor after each mutation is read from Headers.fields; items(multi=True) is "
        "checked against it at every probe",
        "HTTP/1 round trip: bytes(headers) is split into lines by h11's ReceiveBuffer (as the proxy does) and parsed by "
        "http1.read_request_head / read_response_head; only field lists whose values are valid field values are judged",
    )

    def mon_constants(self, tier):
        return {}

    def model_constants(self, tier):
        base = {"KeyNames": frozenset({A0, A1, B0}), "Values": frozenset({1, 2}),
                "ValLists": frozenset({(), (2, 1), (1, 2, 1)}), "InsIdx": frozenset({0, 5}),
                "Inits": _inits((1, 1, 1, 2, 0, 0)), "ProbeKeys": PROBE_KEYS}
        if tier != "quick":
            base["Inits"] = _inits((1, 1, 2, 2, 1, 2))
        return base

    def model_runs(self, ctx):
        if ctx.quick:
            return [ctx.model_check(self.MODEL, self.model_constants("quick"), dump=True)]
        thorough = dict(self.model_constants("thorough"), ValLists=frozenset({(), (2,), (2, 1), (1, 2, 1)}),
                        InsIdx=frozenset({0, 1, 5}))
        small = ctx.model_check(self.MODEL, thorough, dump=True)
        # exhaustive statistics for all histories of three operations from the rich list (no dump, not replayed)
        big = ctx.model_check(self.MODEL, dict(self.model_constants("quick"), Inits=_inits((0, 0, 0, 3, 0, 0))),
                              dump=False, tag="_big", timeout=3000)
        return [small, big]

    @staticmethod
    def _scenario(beh):
        st0 = beh[0][2]
        ops = []
        for name, args, _st in beh[1:]:
            if name == "Construct":
                continue
            if name == "Copy":
                ops.append({"op": "copy", "via": str(args[0]), "cont": "orig"})
                continue
            op = {"op": ACTIONS[name]}
            if name in ("SetItem", "Add", "SetDefault"):
                op["key"], op["vals"] = list(args[0]), [args[1]]
            elif name == "SetAll":
                op["key"], op["vals"] = list(args[0]), list(args[1])
            elif name == "Insert":
                op["idx"], op["key"], op["vals"] = args[0], list(args[1]), [args[2]]
            elif name in ("DelItem", "Pop", "PopDefault"):
                op["key"] = list(args[0])
            ops.append(op)
        return {"init": [[list(k), v] for k, v in st0["given"]], "ctor": "fields", "keys": [list(k) for k in PROBE_KEYS],
                "ops": ops}

    def scenarios(self, ctx, models):
        g = models[0].graph
        behs = g.edge_cover(ctx.rng, max_len=6, tail=2)
        behs += g.random_walks(ctx.rng, 300 if ctx.quick else 2000, 4)
        seen = set()
        for b in behs:
            if len(b) < 2:
                continue
            data = self._scenario(b)
            key = repr(data)
            if key in seen:
                continue
            seen.add(key)
            # vary who continues after a copy (both objects hold the same fields in the model)
            for op in data["ops"]:
                if op["op"] == "copy" and ctx.rng.random() < 0.5:
                    op["cont"] = "copy"
            yield core.Scenario(data, predicted=core.predicted_events(b), source="model")
        if not ctx.quick:
            consts = dict(self.model_constants("quick"), KeyNames=frozenset({A0, A1, A2, B0, B1, C0}),
                          Values=frozenset({1, 2, 3}), Inits=_inits((6, 6, 6, 6, 6, 6)))
            sims, _r = ctx.simulate(self.MODEL, consts, num=2000, depth=8)
            for b in sims:
                if len(b) >= 3:
                    yield core.Scenario(self._scenario(b), predicted=core.predicted_events(b), source="model")
        rng = random.Random(ctx.seed + 35)
        letters = "abcde"
        for i in range(500 if ctx.quick else 4000):
            nl = rng.choice((1, 2, 2, 3, 5))
            ls = letters[:nl]
            spell = (0, 1, 2, 3) if rng.random() < 0.7 else (0,)
            valid_only = rng.random() < 0.8
            vids = [v for v in VALUES if VALUES[v][1] or not valid_only]

            def rn():
                return [rng.choice(ls), rng.choice(spell)]

            init = [[rn(), rng.choice(vids)] for _ in range(rng.choice((0, 1, 2, 3, 4, 6)))]
            keys = [[l, s] for l in ls for s in (0, 2)][:6] + [["f", 1]]
            ops = []
            for _ in range(rng.randint(1, 12)):
                k = rng.choice(("setitem", "set_all", "set_all", "add", "insert", "delitem", "pop", "pop_default",
                                "setdefault", "clear", "popitem", "copy"))
                if k == "clear" and rng.random() < 0.7:
                    k = "set_all"
                if k == "copy":
                    ops.append({"op": "copy", "via": rng.choice(("copy", "from_state", "ctor")),
                                "cont": rng.choice(("copy", "orig"))})
                    continue
                op = {"op": k, "key": rn()}
                if k in ("setitem", "add", "insert", "setdefault"):
                    op["vals"] = [rng.choice(vids)]
                if k == "set_all":
                    op["vals"] = [rng.choice(vids) for _ in range(rng.choice((0, 1, 1, 2, 3, 4)))]
                if k == "insert":
                    op["idx"] = rng.randint(0, 8)
                ops.append(op)
            yield core.Scenario({"init": init, "ctor": rng.choice(("fields", "fields", "from_state", "set_state")),
                                 "keys": keys, "ops": ops, "bytes_keys": rng.random() < 0.3}, source="random")

    def execute(self, sc):
        return run(sc)
