"""C29 -- raw TCP and UDP relaying is exact and each flow ends once.

Model: spec/RawRelay/RawRelay.tla   Monitor: Mon_RawRelay.tla
Real code: mitmproxy.proxy.layers.tcp.TCPLayer / udp.UDPLayer, driven sans-io.  The harness plays
ConnectionHandler (server.py): it sets the connection state bits where handle_connection / close_connection set
them, completes hooks and connects when the scenario says so, and (as an addon would) edits messages[-1] inside
the message hook.  Contents are built from tokens b"<n>"; every payload the layer writes is decoded by the
harness's own tokenizer (independent of the layer), so coalesced or split writes project to the same stream.
"""
from __future__ import annotations

import random
import re

from vf import core

EDIT_OFFSET = 50
_TOK = re.compile(rb"<(\d{1,6})>")


def enc(ids) -> bytes:
    return b"".join(b"<%d>" % i for i in ids)


def dec(data: bytes) -> list[int]:
    """Independent tokenizer: b"<7><8>" -> [7, 8]; any run of other bytes -> 0."""
    out, pos = [], 0
    data = bytes(data)
    for m in _TOK.finditer(data):
        if m.start() > pos:
            out.append(0)
        out.append(int(m.group(1)))
        pos = m.end()
    if pos < len(data):
        out.append(0)
    return out


class Run:
    """One flow on the real layer.  Every environment action first checks that it is enabled from the
    environment's point of view; `ok` turns False when the scenario asks for something that is not."""

    def __init__(self, proto: str, pre: bool):
        from mitmproxy import connection
        from mitmproxy.connection import ConnectionState
        from mitmproxy.proxy.layers import tcp, udp
        from vf import sansio

        self.CS = ConnectionState
        self.proto = proto
        self.ctx = sansio.make_context(transport=proto)
        self.client = self.ctx.client
        self.server = connection.Server(address=("srv.example", 4321), transport_protocol=proto)
        if pre:
            self.server.state = ConnectionState.OPEN
            self.server.timestamp_start = 1605699330
            self.server.peername = ("srv.example", 4321)
        self.ctx.server = self.server
        self.layer = (tcp.TCPLayer if proto == "tcp" else udp.UDPLayer)(self.ctx)
        self.flow = self.layer.flow
        self.trace: list[dict] = [{"k": "start", "proto": proto, "pre": bool(pre)}]
        self.pending: list = []
        self.transports = {id(self.client)} | ({id(self.server)} if pre else set())
        self.conn_up = {"c": True, "s": bool(pre)}
        self.fin = {"c": False, "s": False}
        self.fullc = {"c": False, "s": False}
        self.echoed = {"c": False, "s": False}
        self.started = False
        self.dead = False

    # --- naming / projection --------------------------------------------------------------------------
    def peer(self, conn) -> str:
        return "c" if conn is self.client else ("s" if conn is self.server else "?")

    def conn(self, p: str):
        return self.client if p == "c" else self.server

    def newest(self):
        msgs = list(self.flow.messages)
        if not msgs:
            return "-", []
        return ("c" if msgs[-1].from_client else "s"), dec(msgs[-1].content)

    def recorded(self):
        out = {"c": [], "s": []}
        for m in self.flow.messages:
            out["c" if m.from_client else "s"].append(dec(m.content))
        return out

    # --- ConnectionHandler.server_event ---------------------------------------------------------------
    def feed(self, event):
        try:
            for cmd in self.layer.handle_event(event):
                self.apply(cmd)
        except Exception as e:  # server_event logs "mitmproxy has crashed!"; for the property it is an observation
            self.trace.append({"k": "raised", "exc": type(e).__name__})
            self.dead = True

    def apply(self, cmd):
        from mitmproxy.proxy import commands

        CS = self.CS
        if isinstance(cmd, commands.Log):
            return
        if isinstance(cmd, commands.OpenConnection):
            self.pending.append(cmd)
            self.trace.append({"k": "open_req"})
        elif isinstance(cmd, commands.StartHook):
            name = cmd.name.split("_", 1)[-1]
            frm, ids = self.newest() if name == "message" else ("-", [])
            self.trace.append({"k": "hook", "name": name, "from": frm, "ids": ids})
            if cmd.blocking:
                self.pending.append(cmd)
        elif isinstance(cmd, commands.SendData):
            self.trace.append({"k": "send", "to": self.peer(cmd.connection), "ids": dec(cmd.data)})
        elif isinstance(cmd, (commands.CloseTcpConnection, commands.CloseConnection)):
            half = bool(getattr(cmd, "half_close", False))
            c = cmd.connection
            self.trace.append({"k": "close", "to": self.peer(c), "half": half})
            if id(c) in self.transports:  # close_connection
                if half:
                    if c.state & CS.CAN_WRITE:
                        c.state &= ~CS.CAN_WRITE
                else:
                    c.state = CS.CLOSED
                    self.fullc[self.peer(c)] = True
                if c.state is CS.CLOSED:
                    self.transports.discard(id(c))
        else:
            self.trace.append({"k": "other", "what": type(cmd).__name__})

    # --- environment ----------------------------------------------------------------------------------
    def can_talk(self, p):
        return self.started and self.conn_up[p] and not self.fin[p] and not self.fullc[p]

    def do(self, op) -> bool:
        """Perform one scenario op; False = not enabled on the real object (the caller ends the trace)."""
        from mitmproxy import tcp as mtcp, udp as mudp
        from mitmproxy.proxy import commands, events
        from mitmproxy.proxy.layers import tcp, udp

        CS = self.CS
        kind = op[0]
        if self.dead:
            return False
        if kind == "start":
            if self.started:
                return False
            self.started = True
            self.feed(events.Start())
        elif kind == "data":
            p, ids = op[1], op[2]
            if not self.can_talk(p):
                return False
            self.trace.append({"k": "in", "from": p, "ids": list(ids)})
            self.feed(events.DataReceived(self.conn(p), enc(ids)))
        elif kind == "inject":
            p, ids = op[1], op[2]
            if not self.started:
                return False
            self.trace.append({"k": "inject", "from": p, "ids": list(ids)})
            if self.proto == "tcp":
                ev = tcp.TcpMessageInjected(self.flow, mtcp.TCPMessage(p == "c", enc(ids)))
            else:
                ev = udp.UdpMessageInjected(self.flow, mudp.UDPMessage(p == "c", enc(ids)))
            self.feed(ev)
        elif kind == "fin":
            p = op[1]
            if not self.can_talk(p):
                return False
            c = self.conn(p)
            self.fin[p] = True
            if self.proto == "tcp":  # handle_connection after EOF
                c.state &= ~CS.CAN_READ
            else:
                c.state = CS.CLOSED
            self.trace.append({"k": "fin", "from": p})
            self.feed(events.ConnectionClosed(c))
            if c.state is not CS.CAN_WRITE:
                c.state = CS.CLOSED
                self.transports.discard(id(c))
        elif kind == "echo":
            p = op[1]
            if not (self.started and self.fullc[p] and not self.fin[p] and not self.echoed[p] and self.conn_up[p]):
                return False
            self.echoed[p] = True
            self.trace.append({"k": "echo", "from": p})
            self.feed(events.ConnectionClosed(self.conn(p)))
        elif kind == "hook_done":
            name = op[1]
            cand = [c for c in self.pending if isinstance(c, commands.StartHook) and c.name.split("_", 1)[-1] == name]
            if not cand:
                return False
            cmd = cand[0]
            self.pending.remove(cmd)
            frm, ids = "-", []
            if name == "message":
                frm, cur = self.newest()
                want = list(op[2]) if len(op) > 2 and op[2] is not None else cur
                if want != cur and self.flow.messages:
                    self.flow.messages[-1].content = enc(want)  # what an addon does in tcp_message / udp_message
                frm, ids = self.newest()
            self.trace.append({"k": "hook_done", "name": name, "from": frm, "ids": ids})
            self.feed(events.HookCompleted(cmd))
        elif kind == "open_done":
            cand = [c for c in self.pending if isinstance(c, commands.OpenConnection)]
            if not cand:
                return False
            cmd = cand[0]
            self.pending.remove(cmd)
            ok = bool(op[1])
            self.trace.append({"k": "open_done", "ok": ok})
            if ok:  # open_connection
                cmd.connection.state = CS.OPEN
                cmd.connection.timestamp_start = 1605699330
                cmd.connection.peername = cmd.connection.address
                self.transports.add(id(cmd.connection))
                if cmd.connection is self.server:
                    self.conn_up["s"] = True
                self.feed(events.OpenConnectionCompleted(cmd, None))
            else:
                cmd.connection.error = "connect failed"
                self.feed(events.OpenConnectionCompleted(cmd, "connect failed"))
        else:
            return False
        return True

    def enabled(self, rng: random.Random, budget: dict):
        """Environment actions enabled now, judged from what the environment itself knows."""
        from mitmproxy.proxy import commands

        acts = []
        if not self.started:
            return [["start"]]
        for c in self.pending:
            if isinstance(c, commands.OpenConnection):
                acts += [["open_done", True]] * 3 + [["open_done", False]]
            else:
                acts += [["hook_done", c.name.split("_", 1)[-1]]] * 3
        for p in "cs":
            if self.can_talk(p):
                if budget["data"] > 0:
                    acts += [["data", p]] * 2
                acts.append(["fin", p])
            if self.fullc[p] and not self.fin[p] and not self.echoed[p] and self.conn_up[p]:
                acts.append(["echo", p])
            if budget["inject"] > 0:
                acts.append(["inject", p])
        return acts

    def finish(self):
        self.trace.append({"k": "end", "msgs": self.recorded()})
        return self.trace


def run_ops(sc):
    r = Run(sc["proto"], sc["pre"])
    for op in sc["ops"]:
        if not r.do(op):
            break  # diverged from the scenario: judge what was observed
    return r.finish()


def run_random(sc):
    rng = random.Random(sc["seed"])
    r = Run(sc["proto"], sc["pre"])
    budget = {"data": sc["n"], "inject": sc["inj"]}
    tok = [0]

    def fresh():
        k = rng.choice([1, 1, 1, 2, 3])
        out = []
        for _ in range(k):
            tok[0] += 1
            out.append(tok[0])
        return out

    ops = []
    for _ in range(sc["n"] * 6 + 12):
        acts = r.enabled(rng, budget)
        if not acts:
            break
        a = list(rng.choice(acts))
        if a[0] in ("data", "inject"):
            budget[a[0]] -= 1
            a.append(fresh())
        elif a[0] == "hook_done" and a[1] == "message":
            _f, cur = r.newest()
            how = rng.choice(["keep", "keep", "edit", "empty", "grow", "swap"])
            if how == "edit":
                a.append([t + 1000 for t in cur] or [1999])
            elif how == "empty":
                a.append([])
            elif how == "grow":
                a.append(cur + [t + 2000 for t in cur])
            elif how == "swap":
                a.append(list(reversed(cur)))
            else:
                a.append(None)
        ops.append(a)
        if not r.do(a):
            break
    sc["ops_generated"] = ops
    return r.finish()


class Check(core.PropertyCheck):
    ID = "C29"
    SPEC_DIR = "RawRelay"
    MODEL = "RawRelay"
    MON = "Mon_RawRelay"
    REQUIRED_WITNESSES = ("relayed", "modified", "emptied", "inject", "half_close_propagated", "data_after_half_close",
                          "late_data_recorded", "relayed_towards_half_closed_peer", "arrival_while_blocked",
                          "close_while_blocked", "second_close", "udp_close", "ended_by_end", "ended_by_error",
                          "connect_failed", "echo", "inject_after_end", "inject_towards_closed")
    REQUIRED_ACTIONS = ("Start", "DataIn", "Inject", "Fin", "Echo", "StartDone", "OpenDone", "ErrorDone", "MsgDone",
                        "EndDone")
    ASSUMPTIONS = (
        "the harness plays ConnectionHandler: connection state bits are set as server.py sets them (EOF clears "
        "CAN_READ for TCP and closes UDP; close_connection clears CAN_WRITE or everything) and a peer towards which the "
        "proxy has sent a half or full close can receive nothing more (asyncio refuses write() after write_eof())",
        "payloads are projected to token sequences by the harness's own tokenizer; message contents are built from "
        "tokens, addon edits are assignments to flow.messages[-1].content inside the message hook",
        "recorded contents are read from flow.messages (at hook completion and at the end of the behaviour)",
    )

    def mon_constants(self, tier):
        return {}

    def model_constants(self, tier):
        base = {"Protos": frozenset({"tcp", "udp"}), "PreOpen": frozenset({True, False}), "MaxInject": 1,
                "EditOffset": EDIT_OFFSET, "InjectGuard": True}
        if tier == "quick":
            return base | {"MaxMsgs": 2, "Edits": frozenset({"keep", "edit"})}
        if tier == "dumped":
            return base | {"MaxMsgs": 2, "Edits": frozenset({"keep", "edit", "empty"})}
        return base | {"MaxMsgs": 3, "Edits": frozenset({"keep", "edit", "empty"})}

    def model_runs(self, ctx):
        small = ctx.model_check(self.MODEL, self.model_constants("quick" if ctx.quick else "dumped"), dump=True)
        if ctx.quick:
            return [small]
        big = ctx.model_check(self.MODEL, self.model_constants("thorough"), dump=False, tag="_big")
        return [small, big]

    @staticmethod
    def _scenario(beh):
        st0 = beh[0][2]
        ops = []
        for name, args, st in beh[1:]:
            obs = core.tlaval.to_py(st.get("obs", ()))
            if name == "Start":
                ops.append(["start"])
            elif name == "DataIn":
                ops.append(["data", args[0], list(obs[0]["ids"])])
            elif name == "Inject":
                ops.append(["inject", args[0], list(obs[0]["ids"])])
            elif name == "Fin":
                ops.append(["fin", args[0]])
            elif name == "Echo":
                ops.append(["echo", args[0]])
            elif name == "StartDone":
                ops.append(["hook_done", "start"])
            elif name == "ErrorDone":
                ops.append(["hook_done", "error"])
            elif name == "EndDone":
                ops.append(["hook_done", "end"])
            elif name == "MsgDone":
                ops.append(["hook_done", "message", list(obs[0]["ids"])])
            elif name == "OpenDone":
                ops.append(["open_done", bool(args[0])])
        pred = core.predicted_events(beh)
        last = beh[-1][2]
        rec = {"c": [], "s": []}
        for m in core.tlaval.to_py(last.get("msgs", ())):
            rec[m["from"]].append(list(m["ids"]))
        if not pred or pred[0].get("k") != "start":
            # behaviour without Start: the harness still emits its start record
            pred = [{"k": "start", "proto": str(st0["proto"]), "pre": bool(st0["pre"])}] + pred
        pred = pred + [{"k": "end", "msgs": rec}]
        return core.Scenario({"proto": str(st0["proto"]), "pre": bool(st0["pre"]), "ops": ops}, predicted=pred,
                             source="model")

    def scenarios(self, ctx, models):
        g = models[0].graph
        behs = g.edge_cover(ctx.rng, max_len=24, tail=14)
        ctx.notes["edge_cover_paths"] = len(behs)
        if ctx.quick and len(behs) > 2500:  # quick: a seeded sample of the edge cover; thorough replays all of it
            behs = ctx.rng.sample(behs, 2500)
        behs += g.random_walks(ctx.rng, 300 if ctx.quick else 6000, 20)
        for b in behs:
            yield self._scenario(b)
        if not ctx.quick:
            behs2, _r = ctx.simulate(self.MODEL, self.model_constants("thorough") | {"MaxMsgs": 5, "MaxInject": 2},
                                     num=6000, depth=30)
            for b in behs2:
                s = self._scenario(b)
                s.source = "simulate"
                yield s
        rng = random.Random(ctx.seed + 29)
        for _ in range(800 if ctx.quick else 20000):
            yield core.Scenario({"proto": rng.choice(["tcp", "udp"]), "pre": rng.random() < 0.5, "ops": None,
                                 "seed": rng.randrange(1 << 30), "n": rng.randint(2, 8), "inj": rng.randint(0, 3)},
                                source="random")

    def execute(self, sc):
        if sc.get("ops") is None:
            return run_random(sc)
        return run_ops(sc)
