"""C01 -- HTTP/1 forwarding is framing-consistent: no request or response desync.

Model: spec/Http1Conn/Http1Conn.tla   Monitor: Mon_Http1Conn.tla
Real code: HttpLayer(regular) -> Http1Server -> HttpStream -> Http1Client (mitmproxy/proxy/layers/http), with
net/http/http1/read.py, assemble.py and net/http/validate.py underneath, driven sans-io (lib/vf/h1drv.py).
Oracle: lib/vf/h1ref.py (independent RFC 9112 parser) reads (a) what the client / origin server sent, to say which
messages a strict recipient must reject, and (b) what mitmproxy wrote to both peers.
"""
from __future__ import annotations

import itertools
import random

from vf import core
from vf.h1gen import lat, unlat

HOOKS = ("requestheaders", "request", "responseheaders", "response", "error")


# ----------------------------------------------------------------------------------------------------------------
# execution + projection
# ----------------------------------------------------------------------------------------------------------------
def run_scenario(sc: dict) -> list:
    """sc = {"steps": [["c", bytes_lat1] | ["s", bytes_lat1, close_bool] | ["cclose"]], "edits": {"f:hook": edit}}"""
    from vf import h1drv, h1ref

    edits = {}
    for k, v in (sc.get("edits") or {}).items():
        f, hook = k.split(":")
        edits[(int(f), hook)] = v
    trace: list = []
    T, F, B = h1drv.Intern(), h1drv.Intern(), h1drv.Intern()
    req_methods: dict = {}  # flow -> recorded method at the request hook

    def on_event(ev):
        if ev[0] == "hook":
            _, name, f, snap = ev
            if name not in HOOKS:
                return
            rec = {"k": "hook", "name": name, "f": f}
            if name == "requestheaders":
                rec["expect"] = bool(snap.get("expect"))
            elif name == "request":
                r = snap["request"]
                rec.update(method=lat(r["method"]), target=T(r["target"]), fields=F(r["fields"]), body=B(r["body"]))
            elif name == "response":
                r = snap["response"]
                rec.update(status=r["status"], fields=F(r["fields"]), body=B(r["body"]),
                           method=lat(snap["request"]["method"]))
            trace.append(rec)
        elif ev[0] == "raised":
            trace.append({"k": "raised", "exc": ev[1]})

    # option settings are part of the scenario; the edit name "limit" stands for stream_large_bodies=6 on this connection
    # (bodies are 9 bytes: Content-Length messages are streamed from the start, chunked / close-delimited ones are
    # buffered first and switched to streaming when the buffer exceeds the limit -- HttpStream.check_body_size)
    options = {"store_streamed_bodies": True}
    if any(v == "limit" for v in edits.values()):
        options["stream_large_bodies"] = "6"
    options.update(sc.get("options") or {})
    run = h1drv.H1Run(edits=edits, options=options, on_event=on_event)
    cstream = bytearray()  # everything the client sent
    cclosed = False
    n_in_req = 0
    in_req_done = False
    sstreams: dict = {}  # conn -> bytes the origin server sent
    n_in_resp: dict = {}
    in_resp_done: set = set()
    answered: dict = {}  # conn -> number of requests answered

    def classify(res, n_before):
        """`in` records for the messages a reference recipient reads beyond the first n_before."""
        out = []
        for m in res.msgs[n_before:]:
            out.append(("ok", "-"))
        if res.tail == "invalid":
            out.append(("amb", res.why))
        return out

    def outstanding():
        """(conn, index) of the oldest forwarded request the origin server has not answered yet."""
        for c in run.server_conns():
            if c in run.peer_closed or run.closed_by_proxy.get(c) == "full":
                continue
            res = h1ref.parse_stream(bytes(run.sent[c]), "request")
            if len(res.msgs) > answered.get(c, 0):
                return c, res
        return None, None

    for step in sc["steps"]:
        if run.dead:
            break
        if step[0] == "c":
            if run.closed_by_proxy.get("client") == "full" or cclosed:
                break  # not enabled on the real connection any more
            data = unlat(step[1])
            cstream.extend(data)
            if not in_req_done:
                res = h1ref.parse_stream(bytes(cstream), "request", lenient=True)
                for ref, why in classify(res, n_in_req):
                    trace.append({"k": "in", "side": "req", "ref": ref, "why": why})
                    if ref == "amb":
                        in_req_done = True
                n_in_req = len(res.msgs)
            run.client_data(data)
        elif step[0] == "s":
            c, res = outstanding()
            if c is None:
                break  # no request is waiting for an answer: the origin server has nothing to respond to
            answered[c] = answered.get(c, 0) + 1
            data = unlat(step[1])
            sstreams.setdefault(c, bytearray()).extend(data)
            close = bool(step[2])
            if c not in in_resp_done:
                methods = [m.method for m in res.msgs]
                rres = h1ref.parse_stream(bytes(sstreams[c]), "response", methods=methods, closed=close, lenient=True)
                for ref, why in classify(rres, n_in_resp.get(c, 0)):
                    trace.append({"k": "in", "side": "resp", "ref": ref, "why": why})
                    if ref == "amb":
                        in_resp_done.add(c)
                n_in_resp[c] = len(rres.msgs)
            run.server_data(c, data)
            if close:
                run.peer_close(c)
        elif step[0] == "cclose":
            if cclosed or run.closed_by_proxy.get("client") == "full":
                break
            cclosed = True
            run.peer_close("client")
        else:
            raise ValueError(step)

    # what both peers were sent, as an independent recipient reads it
    for c in run.server_conns():
        closed = c in run.closed_by_proxy
        res = h1ref.parse_stream(bytes(run.sent[c]), "request", closed=closed)
        for m in res.msgs:
            trace.append({"k": "out", "side": "req", "c": int(c[6:]), "method": lat(m.method), "target": T(m.target),
                          "fields": F(h1ref.norm_fields(m.fields)), "body": B(m.body), "framing": m.framing})
        trace.append({"k": "out_end", "side": "req", "c": int(c[6:]), "tail": res.tail,
                      "why": res.why if res.tail == "invalid" else "-"})
    creq = h1ref.parse_stream(bytes(cstream), "request", lenient=True)
    methods = [m.method for m in creq.msgs]
    closed = "client" in run.closed_by_proxy
    res = h1ref.parse_stream(bytes(run.sent.get("client", b"")), "response", methods=methods, closed=closed)
    for m in res.msgs:
        trace.append({"k": "out", "side": "resp", "c": 0, "status": m.status,
                      "fields": F(h1ref.norm_fields(m.fields)), "body": B(m.body), "framing": m.framing,
                      "method": lat(m.for_method)})
    trace.append({"k": "out_end", "side": "resp", "c": 0, "tail": res.tail,
                  "why": res.why if res.tail == "invalid" else "-"})
    trace.append({"k": "end"})
    return trace


# ----------------------------------------------------------------------------------------------------------------
# abstract plans (constants of the model)
# ----------------------------------------------------------------------------------------------------------------
def RC(m="POST", v="1.1", te="none", cl="none", nm="ok", body="plain", exp=False):
    return core.tlaval.FrozenDict(m=m, v=v, te=te, cl=cl, nm=nm, body=body, exp=exp)


def SC(st=200, v="1.1", te="none", cl="n", nm="ok", body="plain", close=False, pre103=False):
    return core.tlaval.FrozenDict(st=st, v=v, te=te, cl=cl, nm=nm, body=body, close=close, pre103=pre103)


NOED = ("none", "none")
REQ_EDITS = (("hdr", "none"), ("stream", "none"), ("none", "body"), ("none", "empty"), ("none", "line"), ("hdr", "body"))
RESP_EDITS = (("hdr", "none"), ("stream", "none"), ("none", "body"), ("none", "empty"), ("none", "status"))

CANON_REQ = ((RC(cl="n"), NOED), (RC(m="GET"), NOED), (RC(m="HEAD"), NOED), (RC(v="1.0", cl="n"), NOED))
CANON_RESP = ((SC(), NOED), (SC(te="chunked", cl="none"), NOED))


def req_plans(tier: str) -> list:
    from vf import h1gen as g

    out = []
    for te in g.TE_REQ:
        for cl in g.CL_ALL:
            out.append((RC(te=te, cl=cl), NOED))
    for nm in g.NM_ALL:
        for te, cl in (("none", "none"), ("none", "n"), ("chunked", "none")):
            out.append((RC(te=te, cl=cl, nm=nm), NOED))
    for te in g.TE_REQ:
        for cl in ("none", "n"):
            out.append((RC(v="1.0", te=te, cl=cl), NOED))
    for shape in g.SHAPES:
        out.append((RC(te="chunked", body=shape), NOED))
    out.append((RC(te="gzip_chunked", body="badhex"), NOED))
    out.append((RC(te="gzip_chunked", body="ext"), NOED))
    for m in ("GET", "HEAD", "POST"):
        for te, cl in (("none", "none"), ("none", "n"), ("chunked", "none")):
            for exp in (False, True):
                out.append((RC(m=m, te=te, cl=cl, exp=exp), NOED))
    out += [(RC(te="chunked", cl="n", exp=True), NOED), (RC(cl="plus", exp=True), NOED),
            (RC(te="chunked", body="badhex", exp=True), NOED), (RC(nm="nocolon", exp=True), NOED)]
    for rc in (RC(cl="n"), RC(te="chunked"), RC(m="GET"), RC(m="HEAD"), RC(cl="zero"), RC(te="chunked", body="zero")):
        for ed in REQ_EDITS:
            if ed[0] == "stream" and ed[1] != "none":
                continue
            out.append((rc, ed))
    for rc in (RC(te="chunked"), RC(te="gzip_chunked", body="ext"), RC(te="chunked", body="upper"), RC(cl="n"),
               RC(te="chunked", body="zero"), RC(te="chunked", exp=True)):
        out.append((rc, ("limit", "none")))
    out += list(CANON_REQ)
    return _dedup(out)


def resp_plans(tier: str) -> list:
    from vf import h1gen as g

    out = []
    cls = ("none", "n", "zero", "plus", "two_same", "two_diff", "empty") if tier == "quick" else g.CL_ALL
    for te in g.TE_REQ:
        for cl in cls:
            out.append((SC(te=te, cl=cl), NOED))
            if cl == "none" and te in ("none", "gzip", "identity"):
                out.append((SC(te=te, cl=cl, close=True), NOED))
    for nm in g.NM_ALL:
        for te, cl in (("none", "n"), ("chunked", "none")):
            out.append((SC(te=te, cl=cl, nm=nm), NOED))
    for te in ("none", "chunked", "gzip"):
        for cl in ("none", "n"):
            out.append((SC(v="1.0", te=te, cl=cl, close=(cl == "none")), NOED))
    for st in (204, 304):
        for te, cl in (("none", "none"), ("none", "n"), ("chunked", "none")):
            out.append((SC(st=st, te=te, cl=cl), NOED))
    for shape in g.SHAPES:
        out.append((SC(te="chunked", cl="none", body=shape), NOED))
    out.append((SC(pre103=True), NOED))
    out.append((SC(cl="n", close=True), NOED))
    for sc in (SC(), SC(te="chunked", cl="none"), SC(cl="none", close=True), SC(st=204, cl="none"), SC(st=304, cl="n"),
               SC(cl="zero")):
        for ed in RESP_EDITS:
            out.append((sc, ed))
    for sc in (SC(te="chunked", cl="none"), SC(te="chunked", cl="none", body="upper"), SC(cl="none", close=True), SC(),
               SC(te="gzip", cl="none", close=True), SC(te="gzip_chunked", cl="none", body="ext")):
        out.append((sc, ("limit", "none")))
    out += list(CANON_RESP)
    return _dedup(out)


def _dedup(xs):
    seen, out = set(), []
    for x in xs:
        if x not in seen:
            seen.add(x)
            out.append(x)
    return out


# reduced alphabets for runs with two exchanges (pipelining, connection reuse, context of the second response)
REQ2 = ((RC(m="GET"), NOED), (RC(m="HEAD"), NOED), (RC(te="chunked"), NOED), (RC(te="chunked", cl="n"), NOED),
        (RC(cl="n", exp=True), NOED), (RC(v="1.0", cl="n"), NOED), (RC(nm="sp_colon_cl"), NOED),
        (RC(cl="n"), ("none", "body")))
RESP2 = ((SC(), NOED), (SC(te="chunked", cl="none"), NOED), (SC(cl="none", close=True), NOED),
         (SC(st=304, cl="n"), NOED), (SC(te="chunked", cl="n"), NOED), (SC(pre103=True), NOED),
         (SC(cl="n", close=True), NOED))
REQ3 = REQ2 + ((RC(cl="two_diff"), NOED), (RC(cl="n"), NOED), (RC(te="chunked"), ("limit", "none")))
RESP3 = RESP2 + ((SC(), ("none", "body")), (SC(v="1.0", cl="n"), NOED), (SC(te="chunked", cl="none"), ("limit", "none")))


def extra_findings(prop: str):
    """Self-test aid: VERIF_EXTRA_FINDINGS=<json file with {"findings": [...]}> is merged into the known findings of this
    run, so that mutants can be told apart from findings that are proposed but not yet in known_findings.json."""
    import json
    import os

    path = os.environ.get("VERIF_EXTRA_FINDINGS")
    if not path or getattr(core, "_extra_findings_installed", False):
        return
    extra = [f for f in json.load(open(path)).get("findings", []) if not f.get("fixed")]
    orig = core.load_findings

    def load(p):
        return orig(p) + [f for f in extra if f.get("property") == p]

    core.load_findings = load
    core._extra_findings_installed = True


def _to_plain(x):
    if isinstance(x, dict):
        return {k: _to_plain(v) for k, v in x.items()}
    if isinstance(x, (tuple, list)):
        return [_to_plain(v) for v in x]
    return x


class Check(core.PropertyCheck):
    ID = "C01"
    SPEC_DIR = "Http1Conn"
    MODEL = "Http1Conn"
    MON = "Mon_Http1Conn"
    REQUIRED_WITNESSES = ("req_matched", "resp_matched", "second_request_matched", "second_response_matched",
                          "amb_req_rejected", "amb_resp_rejected", "own_100_continue", "own_error_page",
                          "req_chunked", "req_cl", "resp_chunked", "resp_eof", "resp_to_head", "resp_204_304",
                          "amb_req_cl_te", "amb_req_cl_invalid", "amb_req_cl_differ", "amb_req_te_malformed",
                          "amb_req_te_not_chunked_final", "amb_req_te_http10", "amb_req_bad_field_name",
                          "amb_req_bad_chunk", "amb_resp_cl_te", "amb_resp_cl_invalid", "amb_resp_bad_field_name")
    REQUIRED_ACTIONS = ("ClientSend", "ServerSend", "Finish")
    ASSUMPTIONS = (
        "lib/vf/h1ref.py is the independent RFC 9112 recipient: it decides which sent messages a strict recipient must "
        "reject and reads what mitmproxy wrote to both peers; field values are compared after unfolding obs-fold and "
        "trimming OWS",
        "recorded flows are read at the request / response hook after the scripted addon ran (edits through the message "
        "API only); hooks and connection attempts complete synchronously; regular proxy mode, one client connection, "
        "no CONNECT / upgrade / trailers",
        "ids of targets, field lists and bodies are interned in first-seen order (equality is all the monitor uses)",
    )
    PROCS = 1

    def mon_constants(self, tier):
        return {}

    def setup(self, ctx):
        extra_findings(self.ID)

    # ---- model ------------------------------------------------------------------------------------------------
    def _consts(self, which, tier):
        if which == "single":
            return {"ReqPlans": frozenset(req_plans(tier)), "RespPlans": frozenset(resp_plans(tier)),
                    "CanonReq": frozenset(CANON_REQ), "CanonResp": frozenset(CANON_RESP), "MaxEx": 1, "Pipeline": False,
                    "LimChoices": frozenset({False, True})}
        if which == "pairs":
            return {"ReqPlans": frozenset(REQ2), "RespPlans": frozenset(RESP2), "CanonReq": frozenset(REQ2),
                    "CanonResp": frozenset(RESP2), "MaxEx": 2, "Pipeline": True, "LimChoices": frozenset({False})}
        return {"ReqPlans": frozenset(REQ3), "RespPlans": frozenset(RESP3), "CanonReq": frozenset(REQ3),
                "CanonResp": frozenset(RESP3), "MaxEx": 2 if which == "pairs_big" else 3, "Pipeline": True,
                "LimChoices": frozenset({False, True})}

    def model_constants(self, tier):
        return self._consts("single", tier)

    def model_runs(self, ctx):
        a = ctx.model_check(self.MODEL, self._consts("single", ctx.tier), dump=True, tag="_single")
        if ctx.quick:
            b = ctx.model_check(self.MODEL, self._consts("pairs", "quick"), dump=True, tag="_pairs")
            return [a, b]
        b = ctx.model_check(self.MODEL, self._consts("pairs_big", "thorough"), dump=True, tag="_pairs")
        c = ctx.model_check(self.MODEL, self._consts("triples", "thorough"), dump=False, tag="_triples")
        return [a, b, c]

    # ---- scenarios --------------------------------------------------------------------------------------------
    @staticmethod
    def concretise(beh, rng) -> dict:
        """Behaviour of the model -> concrete steps (bytes) + edits."""
        from vf import h1gen

        steps, edits = [], {}
        prev = beh[0][2]
        for name, args, st in beh[1:]:
            if name == "ClientSend":
                rc, ed = _to_plain(args[0][0]), args[0][1]
                tag = int(st["nsent"])
                steps.append(["c", lat(h1gen.request_bytes(rc, tag, rng))])
                if ed[0] != "none":
                    edits["%d:requestheaders" % tag] = ed[0]
                if ed[1] != "none":
                    edits["%d:request" % tag] = ed[1]
            elif name == "ServerSend":
                sc, ed = _to_plain(args[0][0]), args[0][1]
                cur = prev["cur"]
                tag = int(cur["tag"])
                head = str(cur["m"]) == "HEAD"
                data = b""
                if sc["pre103"]:
                    data += b"HTTP/" + sc["v"].encode() + b" 103 Early Hints\r\nX-Pre: %d\r\nLink: </s.css>; rel=preload\r\n\r\n" % tag
                nobody = head or 100 <= sc["st"] <= 199 or sc["st"] in (204, 304)
                data += h1gen.response_bytes(dict(sc, nobody=nobody), tag, rng)
                steps.append(["s", lat(data), bool(sc["close"])])
                if ed[0] != "none":
                    edits["%d:responseheaders" % tag] = ed[0]
                if ed[1] != "none":
                    edits["%d:response" % tag] = ed[1]
            prev = st
        out = {"steps": steps, "edits": edits}
        if beh[0][2].get("lim") is True:
            out["options"] = {"stream_large_bodies": "6"}
        return out

    def scenarios(self, ctx, models):
        rng = random.Random(ctx.seed + 1)
        for mi, m in enumerate(models):
            if m.graph is None:
                continue
            g = m.graph
            behs = g.edge_cover(ctx.rng, max_len=12, tail=6)
            if not ctx.quick:
                behs += g.random_walks(ctx.rng, 1500, 10)
            for b in behs:
                if b[-1][0] != "Finish":
                    continue  # the trace of the real run always ends with the peers' streams
                reps = 1 if ctx.quick else 2  # several spellings per class
                for _ in range(reps):
                    yield core.Scenario(self.concretise(b, rng), predicted=core.predicted_events(b), source="model")
        rr = random.Random(ctx.seed + 101)
        for _ in range(300 if ctx.quick else 3000):
            yield core.Scenario(random_scenario(rr), source="random")

    def execute(self, sc):
        return run_scenario(sc)


# ----------------------------------------------------------------------------------------------------------------
# seeded random driver: longer pipelines, the whole class product, pipelined delivery in one segment
# ----------------------------------------------------------------------------------------------------------------
def random_scenario(rng: random.Random) -> dict:
    from vf import h1gen as g

    n = rng.randint(1, 5)
    good_req = [RC(cl="n"), RC(m="GET"), RC(m="HEAD"), RC(te="chunked"), RC(te="gzip_chunked", body="ext"),
                RC(cl="zero"), RC(cl="n", exp=True), RC(nm="fold", cl="n"), RC(v="1.0", cl="n"), RC(m="GET", cl="ws")]
    good_resp = [SC(), SC(te="chunked", cl="none"), SC(st=204, cl="none"), SC(st=304, cl="n"), SC(cl="zero"),
                 SC(te="gzip_chunked", cl="none", body="upper"), SC(nm="fold"), SC(cl="none", close=True),
                 SC(cl="n", close=True), SC(te="chunked", cl="none", body="zero")]
    reqs, resps, edits = [], [], {}
    # body size limits as part of the scenario: messages above the limit are streamed (early when the length is known,
    # late -- after some pieces were buffered -- when it is not); the stored body must still equal the forwarded one
    limit = rng.choice([None, None, None, "1", "4", "6", "8", "20"])
    for i in range(1, n + 1):
        if rng.random() < 0.75:
            rc = dict(rng.choice(good_req))
        else:
            rc = dict(RC(m=rng.choice(["GET", "HEAD", "POST"]), v=rng.choice(["1.1", "1.1", "1.0"]),
                         te=rng.choice(g.TE_REQ), cl=rng.choice(g.CL_ALL), nm=rng.choice(g.NM_ALL),
                         body=rng.choice(g.SHAPES), exp=rng.random() < 0.2))
        if rng.random() < 0.8:
            sc = dict(rng.choice(good_resp))
        else:
            sc = dict(SC(st=rng.choice([200, 200, 204, 304, 404]), v=rng.choice(["1.1", "1.1", "1.0"]),
                         te=rng.choice(g.TE_REQ), cl=rng.choice(g.CL_ALL), nm=rng.choice(g.NM_ALL),
                         body=rng.choice(g.SHAPES), close=rng.random() < 0.3))
        nobody = rc["m"] == "HEAD" or sc["st"] in (204, 304)
        reqs.append(g.request_bytes(rc, i, rng))
        resps.append((g.response_bytes(dict(sc, nobody=nobody), i, rng), bool(sc["close"])))
        if rng.random() < 0.3:
            hook = rng.choice(["requestheaders", "request", "responseheaders", "response"])
            pool = {"requestheaders": ["hdr", "stream"], "request": ["body", "empty", "line"],
                    "responseheaders": ["hdr", "stream"], "response": ["empty", "status"] + ([] if nobody else ["body"])}
            if limit is not None:  # hooks after the head was streamed cannot edit what is already on the wire
                pool = {"requestheaders": ["hdr"], "request": ["none"], "responseheaders": ["hdr"], "response": ["none"]}
            ed = rng.choice(pool[hook])
            if not (ed == "stream" and ("%d:request" % i in edits or "%d:response" % i in edits)):
                edits["%d:%s" % (i, hook)] = ed
    mode = rng.choice(["serial", "serial", "pipelined", "burst"])
    steps = []
    if mode == "serial":
        for i in range(n):
            steps += [["c", lat(reqs[i])], ["s", lat(resps[i][0]), resps[i][1]]]
    elif mode == "pipelined":
        steps.append(["c", lat(reqs[0])])
        for i in range(n):
            if i + 1 < n:
                steps.append(["c", lat(reqs[i + 1])])
            steps.append(["s", lat(resps[i][0]), resps[i][1]])
    else:
        steps.append(["c", lat(b"".join(reqs))])
        for i in range(n):
            steps.append(["s", lat(resps[i][0]), resps[i][1]])
    out = {"steps": steps, "edits": edits}
    if limit is not None:
        out["options"] = {"stream_large_bodies": limit}
    return out
