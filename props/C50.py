"""C50 -- content views always render safely; the DNS view re-encodes faithfully.

Model: spec/TermSafe/ViewSafe.tla   Monitor: Mon_ViewSafe.tla
Real code: mitmproxy.contentviews.prettify_message / reencode_message, the registry and every registered view.

Scenarios
  * stub : a fresh ContentviewRegistry holding the real `raw` view plus scripted stub views (fault injection): every
           branch of prettify_message (missing content, undecodable body, explicit / unknown / automatic selection,
           render_priority that raises, ties, view failure -> raw fallback or error text, final escaping) with exact
           predictions from the model.
  * real : the shipped registry; every registered view with structured inputs of its own format (built here, with a
           payload of a chosen character class in the string positions) that make it succeed or fail, explicit and
           automatic.
  * fuzz : seeded random: any view x any corpus input, mutated (truncation, bit flips, splices), odd content types.
  * dns  : DNS messages built byte by byte (lib/vf/dnsref.Builder), rendered by the DNS view through prettify_message and
           fed back unedited into reencode_message; original and result are decoded by the independent reference decoder.
"""
from __future__ import annotations

import io
import json
import random
import struct
import zipfile
import zlib

from vf import core

CLASS_ORDER = ("esc", "c0", "del", "c1", "sp", "print", "uni", "bin")
FORBIDDEN = ("esc", "c0", "del", "c1")
ECC_KEEPS_C1 = False  # strutils.escape_control_characters translates C1 as well since /repo a273e7200 (model constant)


def char_class(ch: str) -> str:
    o = ord(ch)
    if o == 0x1B:
        return "esc"
    if o in (9, 10, 13):
        return "sp"
    if o < 0x20:
        return "c0"
    if o == 0x7F:
        return "del"
    if o < 0x7F:
        return "print"
    if o <= 0x9F:
        return "c1"
    if 0xD800 <= o <= 0xDFFF:
        return "bin"
    return "uni"


def classes_of(text: str) -> list:
    present = {char_class(ch) for ch in text}
    return [c for c in CLASS_ORDER if c in present]


VARIANTS = {
    "esc": ["\x1b[2J", "\x1b]0;pwn\x1b\\", "\x1b[4m", "\x1bc", "\x1b"],
    "c0": ["\x07", "\x08\x08", "\x00", "\x0e", "\x01", "\x1f"],
    "del": ["\x7f", "\x7f\x7f"],
    "c1": ["\x9b2J", "\x90", "\x9d0;x\x9c", "\x80", "\x9f"],
    "sp": ["\t", "\n", "\r\n", "\r"],
    "print": ["abc~", "-", "[0m", "\\x1b"],
    "uni": ["\xe9", "\xa0", "漢字", "\U0001f600"],
    "bin": ["\udcff", "\udc9b", "\udcc3\udcc3"],
}
EXTRA = {"c1": ["\x85"], "c0": ["\x0b", "\x0c", "\x1c", "\x1d", "\x1e"], "uni": ["\u2028", "\u202e", "\ufeff"]}
PAD = b"the quick brown fox jumps over the lazy dog: "
MARK = "zqpx"


def enc(s: str) -> bytes:
    return s.encode("utf-8", "surrogateescape")


def variant(c: str, v: int) -> str:
    return VARIANTS[c][v % len(VARIANTS[c])]


# ---- options / context -------------------------------------------------------------------------------------------
_TCTX = None


def tctx():
    global _TCTX
    if _TCTX is None:
        from mitmproxy.test import taddons

        _TCTX = taddons.context()
        _TCTX.__enter__()
    return _TCTX


# ---- stub views (fault injection) -----------------------------------------------------------------------------------
PRIO = {-1: -1.0, 0: 0.0, 2: 0.7, 3: 0.9}  # raw's own render_priority is 0.1 (rank 1)


def make_stub(desc: dict, v: int):
    from mitmproxy import contentviews

    nm = "Stub" + desc["id"] + (variant(desc["nm"], v) if desc["nm"] != "print" else "")
    payload = variant(desc["oc"], v) if desc["oc"] != "in" else ""

    class Stub(contentviews.Contentview):
        @property
        def name(self):
            return nm

        def prettify(self, data, metadata):
            if desc["out"] == "ok":
                return MARK + payload + "e"
            raise ValueError(MARK + payload + "e")

        def render_priority(self, data, metadata):
            if desc["praise"]:
                raise RuntimeError("render_priority failed " + payload)
            return PRIO[desc["prio"]]

    return Stub()


RAW = {"id": "raw", "prio": 1, "praise": False, "out": "ok", "oc": "in", "nm": "print", "real": True}


def S(id, prio, out, oc, *, praise=False, nm="print"):
    return {"id": id, "prio": prio, "praise": praise, "out": out, "oc": oc, "nm": nm, "real": False}


def stub_registries(tier):
    ocs = ("esc", "c1") if tier == "quick" else CLASS_ORDER
    regs = []
    for oc in ocs:
        regs.append((RAW, S("s1", 2, "ok", oc)))                    # auto picks the stub
        regs.append((RAW, S("s1", 2, "raises", oc)))                # auto: fallback to raw; explicit: error text
        regs.append((S("s1", 2, "ok", oc, praise=True), RAW, S("s2", 0, "ok", oc)))   # praise skipped; raw wins over 0
        regs.append((S("s1", 2, "ok", oc), S("s2", 2, "raises", oc), RAW))            # tie: the first registered wins
        regs.append((S("s1", 2, "raises", oc), S("s2", 2, "ok", oc), RAW))
        regs.append((RAW, S("s1", -1, "ok", oc)))                   # negative priority never beats raw
    for nm in (("esc", "c1") if tier == "quick" else FORBIDDEN):
        regs.append((RAW, S("s1", 2, "raises", "print", nm=nm)))    # the view's *name* goes into the error text
        regs.append((RAW, S("s1", 2, "ok", "print", nm=nm)))
    return regs


# ---- messages --------------------------------------------------------------------------------------------------------
def make_message(kind: str, data: bytes | None, *, content="present", ct=None, path=None, extra=None):
    """-> (message, flow).  kind: http (response) | http_req | tcp | udp | ws | wsbin"""
    from mitmproxy import tcp, udp
    from mitmproxy.test import tflow

    extra = extra or {}
    if kind in ("http", "http_req"):
        f = tflow.tflow(resp=True)
        if path is not None:
            f.request.path = path
        msg = f.response if kind == "http" else f.request
        if content == "missing":
            msg.content = None
        elif content == "undecodable":
            msg.headers["content-encoding"] = "gzip"
            msg.raw_content = data  # not gzip: message.content raises ValueError, get_data falls back to raw_content
        else:
            msg.content = data
        if ct is not None:
            msg.headers.fields = tuple(x for x in msg.headers.fields if x[0].lower() != b"content-type") + \
                ((b"content-type", ct if isinstance(ct, bytes) else ct.encode("utf-8", "surrogateescape")),)
        return msg, f
    if kind == "tcp":
        f = tflow.ttcpflow()
        if extra.get("h3"):
            f.client_conn.alpn = b"h3"
            f.metadata["quic_is_unidirectional"] = bool(extra.get("uni"))
            f.messages = []
        if extra.get("port"):
            f.server_conn.address = ("dns.example", extra["port"])
        msg = tcp.TCPMessage(True, data)
        f.messages.append(msg)
        return msg, f
    if kind == "udp":
        f = tflow.tudpflow()
        if extra.get("port"):
            f.server_conn.address = ("dns.example", extra["port"])
        msg = udp.UDPMessage(True, data)
        f.messages.append(msg)
        return msg, f
    if kind in ("ws", "wsbin"):
        from mitmproxy.websocket import WebSocketMessage
        from wsproto.frame_protocol import Opcode

        f = tflow.twebsocketflow()
        if path is not None:
            f.request.path = path
        msg = WebSocketMessage(Opcode.TEXT if kind == "ws" else Opcode.BINARY, True, data)
        f.websocket.messages.append(msg)
        return msg, f
    raise ValueError(kind)


# ---- corpus: structured inputs per format, payload P in the string positions ----------------------------------------
def _png(p: bytes) -> bytes:
    def chunk(t, d):
        return struct.pack("!I", len(d)) + t + d + struct.pack("!I", zlib.crc32(t + d) & 0xFFFFFFFF)

    ihdr = struct.pack("!IIBBBBB", 1, 1, 8, 2, 0, 0, 0)
    idat = zlib.compress(b"\x00\xff\x00\x00")
    return (b"\x89PNG\r\n\x1a\n" + chunk(b"IHDR", ihdr) + chunk(b"tEXt", b"Comment\x00" + p) +
            chunk(b"iTXt", b"Title\x00\x00\x00\x00\x00" + p) + chunk(b"IDAT", idat) + chunk(b"IEND", b""))


def _gif(p: bytes) -> bytes:
    p = p[:255]
    return (b"GIF89a\x01\x00\x01\x00\x00\x00\x00" + b"\x21\xfe" + bytes([len(p)]) + p + b"\x00" +
            b"\x2c\x00\x00\x00\x00\x01\x00\x01\x00\x00\x02\x02\x44\x01\x00\x3b")


def _jpeg(p: bytes) -> bytes:
    app0 = b"JFIF\x00\x01\x01\x00\x00\x01\x00\x01\x00\x00"
    return (b"\xff\xd8" + b"\xff\xe0" + struct.pack("!H", len(app0) + 2) + app0 +
            b"\xff\xfe" + struct.pack("!H", len(p) + 2) + p + b"\xff\xd9")


def _zip(p: str) -> bytes:
    out = io.BytesIO()
    with zipfile.ZipFile(out, "w") as z:
        try:
            z.writestr(zipfile.ZipInfo("dir/" + p.replace("\x00", "") + ".txt"), b"x")
        except Exception:
            z.writestr("plain.txt", b"x")
    return out.getvalue()


def _mstr(b: bytes) -> bytes:  # msgpack str
    b = b[:250]
    return (bytes([0xA0 | len(b)]) if len(b) < 32 else b"\xd9" + bytes([len(b)])) + b


def _pb(field: int, b: bytes) -> bytes:  # protobuf length-delimited
    b = b[:120]
    return bytes([(field << 3) | 2, len(b)]) + b


def _mq(b: bytes) -> bytes:
    return struct.pack("!H", len(b)) + b


def _h3var(n: int) -> bytes:
    return bytes([n]) if n < 64 else struct.pack("!H", 0x4000 | n)


def corpus(P: str):
    """List of (entry id, kind, content-type, data, path, extra) with payload P placed in string positions."""
    from vf import dnsref as R

    p = enc(P)
    pj = json.dumps(P)  # \uXXXX escapes (lone surrogates included)
    E = []

    def add(id, kind, ct, data, path=None, extra=None):
        E.append({"id": id, "kind": kind, "ct": ct, "data": data, "path": path, "extra": extra or {}})

    add("json", "http", "application/json", ('{"k": %s, "l": [1, %s, {"m": %s}], %s: null}' % (pj, pj, pj, pj)).encode())
    add("json_rawstr", "http", "application/json", b'{"k": "' + p + b'"}')
    add("json_vnd", "http", "application/vnd.api+json", b"[" + pj.encode() + b"]")
    add("graphql", "http_req", "application/json",
        json.dumps({"query": "query Q {\n  a(x: \"" + P + "\")\n}", "variables": {"v": P}, "operationName": P}).encode())
    add("graphql_batch", "http_req", "application/json",
        json.dumps([{"query": "{ a }\n# " + P}, {"query": P, "variables": None}]).encode())
    add("html", "http", "text/html", b"<!DOCTYPE html><html><head><title>" + p + b"</title></head><body a=\"" + p +
        b"\">" + p + b"<!-- " + p + b" --><br><p>x</p></body></html>")
    add("xml", "http", "application/xml", b"<?xml version=\"1.0\"?><r><![CDATA[" + p + b"]]><a b=\"" + p + b"\"/><" + p + b"/></r>")
    add("xml_sniff", "http", None, b"  <r>" + p + b"</r>")
    add("css", "http", "text/css", b"a{b:'" + p + b"';c:d}/* " + p + b" */ e{f:\"" + p + b"\"}")
    add("js", "http", "application/javascript", b"function f(){var a='" + p + b"';/* " + p + b" */ return `" + p + b"`;}// " + p)
    add("form", "http_req", "application/x-www-form-urlencoded", b"a=" + p + b"&" + p + b"=1&c=%1b%9b%7f%00&d=" + p.hex("%").encode())
    add("multipart", "http_req", "multipart/form-data; boundary=XyZ",
        b"--XyZ\r\nContent-Disposition: form-data; name=\"" + p + b"\"\r\n\r\n" + p + b"\r\n--XyZ\r\n"
        b"Content-Disposition: form-data; name=\"f\"; filename=\"" + p + b"\"\r\n\r\nv\r\n--XyZ--\r\n")
    add("query", "http_req", None, b"", path="/s?a=" + P + "&" + P + "=b&a=c")
    add("png", "http", "image/png", _png(p))
    add("gif", "http", "image/gif", _gif(p))
    add("jpeg", "http", "image/jpeg", _jpeg(p))
    add("ico", "http", "image/x-icon", b"\x00\x00\x01\x00\x01\x00\x10\x10\x00\x00\x01\x00\x20\x00\x10\x00\x00\x00\x16\x00\x00\x00" + p)
    add("image_unknown", "http", "image/webp", b"RIFF" + p)
    add("zip", "http", "application/zip", _zip(P))
    dnsw = R.Builder(id=7, flags=R.flags(qr=1, rd=1)).question((b"q" + p[:40], b"example"), 16, 1) \
        .rr(1, (b"q" + p[:40], b"example"), 16, 1, 60, bytes([min(len(p), 200)]) + p[:200]).bytes()
    add("dns_udp", "udp", None, dnsw, extra={"port": 53})
    add("dns_tcp", "tcp", None, struct.pack("!H", len(dnsw)) + dnsw, extra={"port": 53})
    add("dns_doh", "http", "application/dns-message", dnsw)
    add("mqtt_connect", "tcp", None, (lambda vh: b"\x10" + bytes([len(vh)]) + vh)(
        _mq(b"MQTT") + b"\x04\xc6\x00\x3c" + _mq(b"id" + p[:20]) + _mq(b"will/" + p[:20]) + _mq(p[:20]) + _mq(b"u" + p[:10]) + _mq(p[:10]))[:129])
    add("mqtt_publish", "tcp", None, (lambda vh: b"\x30" + bytes([len(vh)]) + vh)(_mq(b"t/" + p[:30]) + p[:60]))
    add("mqtt_subscribe", "tcp", None, (lambda vh: b"\x82" + bytes([len(vh)]) + vh)(b"\x00\x01" + _mq(b"f/" + p[:40]) + b"\x00"))
    add("socketio", "ws", None, b'42["ev",' + pj.encode() + b"," + b'"' + p + b'"]', path="/socket.io/?EIO=4&transport=websocket")
    add("socketio_ping", "ws", None, b"2", path="/socket.io/?EIO=4")
    add("wbxml", "http", "application/vnd.ms-sync.wbxml", b"\x03\x01\x6a\x00\x45\x5c\x4f\x50\x03" + p.replace(b"\x00", b"") + b"\x00\x01\x01\x01\x01")
    add("wbxml_unterminated", "http", "application/vnd.wap.wbxml", b"\x03\x01\x6a\x00\x45\x03" + p.replace(b"\x00", b""))
    add("msgpack", "http", "application/msgpack", b"\x83" + _mstr(b"k") + _mstr(p) + _mstr(p) + b"\x92\x01" + _mstr(p) + _mstr(b"b") + b"\xc4\x02" + p[:2].ljust(2, b"\x00"))
    pbm = _pb(1, p) + b"\x10\x96\x01" + _pb(3, _pb(1, p) + b"\x08\x01")
    add("protobuf", "http", "application/x-protobuf", pbm)
    add("grpc", "http", "application/grpc", b"\x00" + struct.pack("!I", len(pbm)) + pbm)
    frames = _h3var(0) + _h3var(len(p[:60])) + p[:60] + _h3var(4) + _h3var(2) + b"\x01\x40" + _h3var(1) + _h3var(len(p[:30])) + p[:30] + _h3var(0x21) + _h3var(1) + b"x"
    add("h3", "tcp", None, frames, extra={"h3": True})
    add("h3_uni", "tcp", None, _h3var(0) + frames, extra={"h3": True, "uni": True})
    add("text", "http", "text/plain", PAD + p)
    add("binary", "http", "application/octet-stream", bytes(range(256)) + p)
    add("empty", "http", None, b"")
    return E


# ---- DNS messages ----------------------------------------------------------------------------------------------------
def dns_wire_abstract(m: dict) -> bytes:
    from vf import dnsref as R

    b = R.Builder(id=7, flags=R.flags(qr=1, rd=1, z=m["z"]))
    q = {"plain": (b"example", b"com"), "dot": (b"a.b", b"com"), "ctl": (b"a\x1b[2J", b"com"),
         "upper": (b"ExAmple", b"COM")}.get(m["q"])
    if q:
        b.question(q, 1, 1)
    rr = m["rr"]
    name = (b"rr", b"example", b"com")
    if rr == "a":
        b.rr(1, name, 1, 1, 300, b"\x01\x02\x03\x04")
    elif rr == "txt":
        b.rr(1, name, 16, 1, 300, b"\x05hello")
    elif rr == "txt_bad":
        b.rr(1, name, 16, 1, 300, b"\x02\xff\xfe")
    elif rr == "cname":
        b.rr(1, name, 5, 1, 300, R.wire_name([b"t", b"example"]))
    elif rr == "cname_bad":
        b.rr(1, name, 5, 1, 300, b"\x05ab")
    elif rr == "generic":
        b.rr(1, name, 99, 1, 300, b"\x01\x02")
    elif rr == "dname":
        b.rr(1, name, 39, 1, 300, R.wire_name([b"new", b"example", b"net"]))
    elif rr == "mx":
        b.rr(1, name, 15, 1, 300, b"\x00\x0a" + R.wire_name([b"mx", b"example"]))
    elif rr == "soa":
        b.rr(2, name, 6, 1, 300, R.wire_name([b"ns", b"example"]) + R.wire_name([b"root", b"example"]) + struct.pack("!IIIII", 1, 2, 3, 4, 5))
    elif rr == "https":
        b.rr(1, name, 65, 1, 300, b"\x00\x01\x00\x00\x01\x00\x03\x02h2")
    elif rr == "https_hi":
        b.rr(1, name, 65, 1, 300, b"\x80\x00\x00\x00\x01\x00\x03\x02h2")  # SvcPriority 0x8000
    elif rr == "opt":
        b.rr(3, (), 41, 1232, 0, b"")
    return b.bytes()


BOUNDS16 = (0, 1, 0x7FFF, 0x8000, 0xFFFF)
BOUNDS32 = (0, 1, 2 ** 31 - 1, 2 ** 31, 2 ** 32 - 1)


def dns_sweep_cases():
    """Every record TYPE (1..260, the meta/private range ends, everything mitmproxy has a name for) with well-formed RDATA
    of its own layout (lib/vf/dnsref.LAYOUTS for the name-bearing types, with an ordinary, a hex-looking and the root
    name), in rotating sections; every CLASS, OPCODE and RCODE value that has or has not a name in mitmproxy's tables."""
    from vf import dnsref as R

    types = set(range(0, 261)) | {32768, 32769, 65280, 65534, 65535}
    try:  # concretisation only: make sure every type the code knows by name is in the sweep
        from mitmproxy.net.dns import types as mtypes

        types |= {v for k, v in vars(mtypes).items() if k.isupper() and isinstance(v, int)}
    except Exception:
        pass
    targets = ([b"new", b"example", b"net"], [b"cafe"], [])
    out = []

    def msg(sec, rtype, rdata, qclass=1, rclass=1, opcode=0, rcode=0):
        return R.Builder(id=11, flags=R.flags(qr=1, opcode=opcode, rd=1, ra=1, rcode=rcode)) \
            .question((b"example", b"com"), 1, qclass).rr(sec, (b"owner", b"example", b"com"), rtype, rclass, 300, rdata).bytes()

    def layout_rdata(layout, target):
        rd = b""
        for kind in layout:
            if kind == "name":
                rd += R.wire_name(target)
            elif kind == "str":
                rd += b"\x03abc"
            elif kind == "rest":
                rd += b"\x01\x02"
            else:
                rd += {"u8": b"\x01", "u16": b"\x00\x0a", "u32": b"\x00\x00\x00\x07"}[kind]
        return rd

    for n, t in enumerate(sorted(types)):
        sec = 1 + n % 3
        if t in R.LAYOUTS:
            for target in targets:
                out.append(("type%d_%s" % (t, b".".join(target).decode() or "root"), msg(sec, t, layout_rdata(R.LAYOUTS[t], target))))
        elif t == 1:
            out.append(("type1", msg(sec, t, b"\x01\x02\x03\x04")))
        elif t == 28:
            out.append(("type28", msg(sec, t, bytes(range(16)))))
        elif t == 16:
            out.append(("type16", msg(sec, t, b"\x05hello\x02hi")))
        elif t in (64, 65):
            out.append(("type%d" % t, msg(sec, t, b"\x00\x01" + R.wire_name([b"svc", b"example"]) + b"\x00\x01\x00\x03\x02h2")))
        elif t == 41:
            out.append(("type41", msg(3, t, b"\x00\x0a\x00\x02\x01\x02", rclass=1232)))
        else:
            out.append(("type%d" % t, msg(sec, t, b"\x01\x02\x03")))
            if t in (39, 249, 250):  # named types without a dnsref layout get a name-shaped RDATA too
                out.append(("type%d_name" % t, msg(sec, t, R.wire_name([b"new", b"example"]))))
    for c in (0, 1, 2, 3, 4, 5, 253, 254, 255, 256, 1232, 65535):
        out.append(("class%d" % c, msg(1, 1, b"\x01\x02\x03\x04", qclass=c, rclass=c)))
    for v in range(16):
        out.append(("opcode%d" % v, msg(1, 1, b"\x01\x02\x03\x04", opcode=v)))
        out.append(("rcode%d" % v, msg(1, 1, b"\x01\x02\x03\x04", rcode=v)))
    return out


def dns_boundary_cases():
    """Deterministic messages with boundary values in every integer field the DNS view shows: ttl, HTTPS/SVCB
    SvcPriority (with / without parameters, port parameter), MX preference, SRV priority/weight/port, SOA counters."""
    from vf import dnsref as R

    tgt = R.wire_name([b"svc", b"example"])
    out = []

    def msg(rtype, rdata, ttl=300):
        return R.Builder(id=9, flags=R.flags(qr=1, rd=1, ra=1)).question((b"example", b"com"), rtype if rtype < 65280 else 255, 1) \
            .rr(1, (b"example", b"com"), rtype, 1, ttl, rdata).bytes()

    for v in BOUNDS16:
        pv = struct.pack("!H", v)
        out.append(("https_prio_%d" % v, msg(65, pv + tgt)))
        out.append(("https_prio_params_%d" % v, msg(65, pv + tgt + struct.pack("!HH", 1, 3) + b"\x02h2" + struct.pack("!HH", 3, 2) + pv)))
        out.append(("https_prio_root_%d" % v, msg(65, pv + b"\x00")))
        out.append(("svcb_prio_%d" % v, msg(64, pv + tgt)))
        out.append(("mx_pref_%d" % v, msg(15, pv + tgt)))
        out.append(("srv_%d" % v, msg(33, pv + pv + pv + tgt)))
    for v in BOUNDS32:
        out.append(("ttl_%d" % v, msg(1, b"\x01\x02\x03\x04", ttl=v)))
        out.append(("ttl_txt_%d" % v, msg(16, b"\x02hi", ttl=v)))
        out.append(("soa_%d" % v, msg(6, tgt + tgt + struct.pack("!IIIII", v, v, v, v, v))))
    return out


YAML_TRICKY = [b"yes", b"no", b"true", b"null", b"~", b"123", b"1e3", b"0x1F", b"0o7", b".inf", b"-", b"a: b", b"a #b",
               b"[x]", b"{x}", b"'q'", b'"q"', b"|", b">", b"%x", b"@x", b"`x", b"!x", b"&x", b"*x", b"? x", b"- x",
               b" lead", b"trail ", b"a\\b", b"\xc2\x85", b"\xe2\x80\xa8", b"\xef\xbb\xbf", b"\xc3\xa9", b"a\nb",
               b"a\r\nb", b"a\n\n", b"\n", b"\ta", b"a\x1bb", b"a\x7fb", b"\xc2\x9b", b"a\x00b", b"", b"2001-01-01",
               b"1:30", b"=", b"<<", b"a,b", b"#", b"a\x0bb", b"xn--mnchen-3ya"]


def random_dns(rng: random.Random) -> bytes:
    from vf import dnsref as R

    b = R.Builder(id=rng.randrange(65536),
                  flags=R.flags(qr=rng.randrange(2), opcode=rng.choice([0, 0, 0, 1, 2, 4, 5, 7, 15]), aa=rng.randrange(2),
                                tc=rng.randrange(2), rd=rng.randrange(2), ra=rng.randrange(2),
                                z=rng.choice([0] * 17 + [2, 1, 4]), rcode=rng.choice([0, 0, 0, 2, 3, 5, 9, 11, 15])))
    label_pool = [b"example", b"com", b"www", b"a", b"ExAmple", b"xn--mnchen-3ya", b"_dmarc", b"a-b", b"x" * 63]
    if rng.random() < 0.25:
        label_pool += [(rng.choice(YAML_TRICKY)[:63] or b"e").replace(b".", b"-"), b"a b"]
    if rng.random() < 0.06:
        label_pool += [b"a.b", b".inf"]  # a dot inside a label: not expressible in the dotted text form

    def name():
        n = rng.randint(0, 4)
        return tuple(rng.choice(label_pool) for _ in range(n))

    tags = []

    def put_name(bb):
        if tags and rng.random() < 0.3:
            bb.name(tuple(rng.choice(label_pool) for _ in range(rng.randint(0, 2))), ptr=rng.choice(tags))
        else:
            t = "n%d" % len(tags)
            nm = name()
            if nm:
                tags.append(t)
                bb.name(nm, tag=t)
            else:
                bb.name(())

    nq = rng.choice([1, 1, 1, 1, 0, 2])
    for _ in range(nq):
        put_name(b)
        b.raw(struct.pack("!HH", rng.choice([1, 28, 16, 5, 255, 65, 65280, 0]), rng.choice([1, 1, 1, 3, 255, 4242])))
        b.counts[0] += 1
    for _ in range(rng.choice([0, 1, 1, 2, 3, 4])):
        sec = rng.choice([1, 1, 1, 2, 3])
        t = rng.choice([1, 28, 2, 5, 12, 15, 6, 16, 16, 16, 33, 65, 65, 64, 41, 99, 0, 65535])
        if t == 1:
            rd = bytes(rng.randrange(256) for _ in range(rng.choice([4, 4, 4, 3, 5, 0])))
        elif t == 28:
            rd = bytes(rng.randrange(256) for _ in range(rng.choice([16, 16, 15, 4])))
        elif t in (2, 5, 12):
            rd = R.wire_name(name()) if rng.random() < 0.8 else rng.choice([b"\x05ab", b"", b"\x00\x00", b"\x01a"])
        elif t == 15:
            rd = struct.pack("!H", rng.choice(BOUNDS16 + (10, 100))) + R.wire_name(name())
        elif t == 6:
            rd = R.wire_name(name()) + R.wire_name(name()) + struct.pack("!IIIII", *[rng.choice(BOUNDS32 + (5,)) for _ in range(5)])
        elif t == 16:
            k = rng.random()
            if k < 0.5:
                s = rng.choice(YAML_TRICKY)
                rd = bytes([len(s)]) + s
            elif k < 0.7:
                rd = bytes(rng.randrange(256) for _ in range(rng.randint(0, 12)))
            else:
                s = rng.choice(YAML_TRICKY) + rng.choice(YAML_TRICKY)
                rd = s
        elif t == 33:
            rd = struct.pack("!HHH", rng.choice(BOUNDS16), rng.choice(BOUNDS16), rng.choice(BOUNDS16 + (443,))) + R.wire_name(name())
        elif t in (64, 65):
            rd = struct.pack("!H", rng.choice(BOUNDS16 + (40000,))) + R.wire_name(name()[:2]) + \
                (struct.pack("!HH", 1, 3) + b"\x02h2" if rng.random() < 0.6 else b"") + \
                (struct.pack("!HH", rng.choice([3, 5, 7, 9999]), 2) + bytes(rng.randrange(256) for _ in range(2)) if rng.random() < 0.5 else b"") + \
                (b"\x00" if rng.random() < 0.1 else b"")
        elif t == 41:
            rd = b"" if rng.random() < 0.5 else struct.pack("!HH", 10, 8) + bytes(8)
        else:
            rd = bytes(rng.randrange(256) for _ in range(rng.randint(0, 6)))
        put_name(b)
        b.raw(struct.pack("!HHI", t, rng.choice([1, 1, 1, 3, 254, 1232]), rng.choice([0, 1, 60, 300, 2 ** 31 - 1, 2 ** 31, 2 ** 32 - 1])))
        b.raw(struct.pack("!H", len(rd)) + rd)
        b.counts[sec] += 1
    return b.bytes()


def dns_roundtrip(wire: bytes, transport: str, how: str = "explicit", inctl: bool = False):
    """Render `wire` with the DNS view through prettify_message, feed the text back into reencode_message.
    -> [render record, dns_rt record]"""
    from mitmproxy import contentviews, dns
    from vf import dnsref as R

    tctx()
    ev = {"k": "dns_rt", "transport": transport, "valid": False, "rendered": False, "dotted": False, "reenc": "skipped",
          "exc": "", "hdr_o": [], "hdr_r": [], "q_o": [], "q_r": [], "rr_o": [], "rr_r": []}
    vn = "dns" if how == "explicit" else "auto"
    if transport == "udp":
        msg, f = make_message("udp", wire, extra={"port": 53})
    elif transport == "tcp":
        msg, f = make_message("tcp", struct.pack("!H", len(wire)) + wire, extra={"port": 53})
    else:  # the DNSMessage of a DNS-mode flow, as mitmproxy's own decoder produces it from the wire
        from mitmproxy.test import tflow

        try:
            msg = dns.DNSMessage.unpack(wire)
        except Exception:
            return [ev]  # mitmproxy does not accept it as a message: no flow, nothing to render
        f = tflow.tdnsflow(resp=True)
        f.server_conn.address = ("dns.example", 53)
        try:
            wire = msg.content  # the body that is rendered is what mitmproxy packs
        except Exception:
            pass
    rev, res = render(msg, f, vn, None, mode=how, req=vn, kind=transport, content="present", inctl=inctl)
    orig = R.try_decode(wire)
    ev["valid"] = orig is not None
    ev["dotted"] = orig is not None and _has_dotted_label(orig, wire)
    if res is None:
        return [rev, ev]
    ok = (res.view_name or "").lower() == "dns" and rev["via"] == "view"
    ev["rendered"] = bool(ok)
    if not ok:
        return [rev, ev]
    try:
        with watchdog():
            out = contentviews.reencode_message(res.text, msg, f, "dns")
    except BaseException as e:
        if isinstance(e, (KeyboardInterrupt, SystemExit)):
            raise
        ev["reenc"], ev["exc"] = "raised", "NoReturn" if isinstance(e, _NoReturn) else type(e).__name__
        return [rev, ev]
    if transport == "tcp":
        if len(out) < 2 or struct.unpack("!H", out[:2])[0] != len(out) - 2:
            ev["reenc"] = "unparsable"
            return [rev, ev]
        out = out[2:]
    new = R.try_decode(out)
    if new is None:
        ev["reenc"] = "unparsable"
        return [rev, ev]
    ev["reenc"] = "ok"
    if orig is None:
        return [rev, ev]
    names, ttls, datas = {}, {}, {}

    def it(tab, key):
        return tab.setdefault(key, len(tab) + 1)

    def proj(m):
        hdr = [int(x) for x in m.header()]
        q = [[it(names, R.lower(n)), t, c] for n, t, c in m.questions]
        rr = []
        for sec, lst in ((1, m.answers), (2, m.authorities), (3, m.additionals)):
            for r in lst:
                rr.append([sec, it(names, R.lower(r.name)), r.type, r.cls, it(ttls, r.ttl),
                           it(datas, r.canon if r.canon is not None else r.rdata)])
        return hdr, q, rr

    ev["hdr_o"], ev["q_o"], ev["rr_o"] = proj(orig)
    ev["hdr_r"], ev["q_r"], ev["rr_r"] = proj(new)
    return [rev, ev]


def _has_dotted_label(m, wire: bytes) -> bool:
    """Input feature (signature only): some label of the message -- owner and question names, names inside the RDATA of
    name-bearing types, the TargetName of SVCB/HTTPS -- contains a '.' (cannot be written in the dotted text form)."""
    from vf import dnsref as R

    names = [n for n, _t, _c in m.questions] + [r.name for r in m.records()]
    if any(b"." in bytes(l) for n in names for l in n):
        return True
    for r in m.records():
        if r.type in (64, 65) and len(r.rdata) > 2:
            try:
                labels, _ = R.read_name(r.rdata, 2)
            except Exception:
                continue
            if any(b"." in bytes(l) for l in labels):
                return True
        elif r.canon is not None and R.has_names(r.type):
            c, pos = r.canon, 0  # canonical form: per layout field a tag byte, then N<wire name> | I<n bytes> | S<str> | R<rest>
            for kind in R.LAYOUTS[r.type]:
                pos += 1
                if kind == "name":
                    while c[pos]:
                        if b"." in c[pos + 1: pos + 1 + c[pos]]:
                            return True
                        pos += 1 + c[pos]
                    pos += 1
                elif kind == "str":
                    pos += 1 + c[pos]
                elif kind == "rest":
                    break
                else:
                    pos += {"u8": 1, "u16": 2, "u32": 4}[kind]
    return False


def abstract_dns(ev: dict) -> dict:
    """drift view of a dns_rt record: interned ids are not comparable between model and run, equalities are"""
    return {"k": "dns_rt", "transport": ev["transport"], "valid": ev["valid"], "rendered": ev["rendered"],
            "dotted": ev["dotted"], "reenc": ev["reenc"], "hdr_same": ev["hdr_o"] == ev["hdr_r"], "q_same": ev["q_o"] == ev["q_r"],
            "rr_same": ev["rr_o"] == ev["rr_r"]}


# ---- watchdog: a call that does not come back within NO_RETURN_S seconds is reported as raised = "NoReturn" -------------
NO_RETURN_S = 30.0


class _NoReturn(BaseException):
    pass


class watchdog:
    """Interrupts the main thread after NO_RETURN_S seconds (SIGALRM); blocking lock waits are interruptible."""

    def __enter__(self):
        import signal

        def fire(signum, frame):
            raise _NoReturn()

        self.old = signal.signal(signal.SIGALRM, fire)
        signal.setitimer(signal.ITIMER_REAL, NO_RETURN_S)
        return self

    def __exit__(self, *exc):
        import signal

        signal.setitimer(signal.ITIMER_REAL, 0)
        signal.signal(signal.SIGALRM, self.old)
        return False


def _where_blocked(e) -> str:
    """'NoReturn@<module>': the innermost mitmproxy module the call was in when the watchdog fired (signature only)"""
    import traceback

    mod = "?"
    for fs in traceback.extract_tb(e.__traceback__):
        fn = fs.filename.replace("\\", "/")
        if "/mitmproxy/" in fn:
            mod = fn.rsplit("/mitmproxy/", 1)[1].rsplit(".", 1)[0]
    return "NoReturn@" + mod


# ---- one render call ---------------------------------------------------------------------------------------------
def render(msg, flow, view_name, registry, *, mode, req, kind, content, inctl, idmap=None):
    from mitmproxy import contentviews

    ev = {"k": "render", "mode": mode, "req": req, "msg": kind, "content": content, "inctl": bool(inctl),
          "raised": "", "view": "", "via": "raised", "cls": []}
    try:
        with watchdog():
            if registry is None:
                res = contentviews.prettify_message(msg, flow, view_name)
            else:
                res = contentviews.prettify_message(msg, flow, view_name, registry)
    except BaseException as e:
        if isinstance(e, (KeyboardInterrupt, SystemExit)):
            raise
        ev["raised"] = _where_blocked(e) if isinstance(e, _NoReturn) else type(e).__name__
        return ev, None
    text = res.text
    if not isinstance(text, str):
        ev["raised"] = "NotText:" + type(text).__name__
        return ev, res
    vn = res.view_name or ""
    ev["view"] = (idmap or {}).get(vn, vn.lower())
    if res.view_name is None:
        ev["via"] = "missing"
    elif res.syntax_highlight == "error" and text.startswith("Couldn't parse as"):
        ev["via"] = "error"
    elif "[failed to parse as" in (res.description or ""):
        ev["via"] = "fallback"
    else:
        ev["via"] = "view"
    ev["cls"] = classes_of(text)
    return ev, res


class Check(core.PropertyCheck):
    ID = "C50"
    SPEC_DIR = "TermSafe"
    MODEL = "ViewSafe"
    MON = "Mon_ViewSafe"
    REQUIRED_WITNESSES = ("auto", "explicit", "unknown", "via_view", "via_fallback", "via_error", "via_missing",
                          "control_input_rendered", "dns_roundtrip_compared", "udp", "tcp")
    REQUIRED_ACTIONS = ("StartStub", "StartReal", "GetDataMissing", "GetData", "SelectExplicit", "SelectUnknown",
                        "SelectAuto", "PrettifyOk", "PrettifyRaises", "FallbackRaw", "ErrorText", "Escape",
                        "DnsPrettify", "DnsReencode")
    PROCS = 4
    ASSUMPTIONS = (
        "messages are mitmproxy message objects built with mitmproxy.test.tflow; bodies are assembled here per format "
        "(no mitmproxy encoder is used to build inputs, except DNSMessage.unpack for the DNS-flow transport)",
        "character classes of result.text are computed by this harness (ord ranges); C1 = U+0080..U+009F counts as "
        "control characters (Unicode category Cc)",
        "DNS: original and re-encoded bytes are decoded by lib/vf/dnsref.py (RFC 1035/3597 reference decoder); names "
        "compare case-insensitively, RDATA of name-bearing types in uncompressed canonical form; 'unedited' = the text "
        "returned by prettify_message is passed to reencode_message as is",
        "per-view parsers are sampled (corpus x payload classes x seeded mutations), not exhausted",
    )

    def __init__(self):
        self.real_cases = None
        self.table = {}

    # ---- corpus classification (concretisation only: which input makes which view succeed / fail) -------------
    def setup(self, ctx):
        from mitmproxy import contentviews

        tctx()
        reg = contentviews.registry
        names = [n for n in reg]
        table: dict = {}
        from mitmproxy.contentviews import _utils as cvutils

        def outcome(view, data, md):
            try:
                with watchdog():
                    t = view.prettify(data, md)
                return "ok" if isinstance(t, str) else None
            except BaseException as ex:
                if isinstance(ex, Exception):
                    return "raises"
                return None  # a view that panics is left to the fuzz scenarios

        # the views are called directly here (not through prettify_message): this only sorts corpus inputs into
        # "this view accepts it" / "this view fails on it" / "automatic selection picks this view"
        for c in ("print", "esc", "c1", "bin"):
            for ei, e in enumerate(corpus(MARK + variant(c, 0) + "e")):
                try:
                    msg, f = make_message(e["kind"], e["data"], ct=e["ct"], path=e["path"], extra=e["extra"])
                    data, _enc = cvutils.get_data(msg)
                    md = cvutils.make_metadata(msg, f)
                except Exception:
                    continue
                if data is None:
                    continue
                for n in names:
                    if e["extra"].get("h3"):  # the HTTP/3 view keeps per-flow state: fresh flow per call
                        msg, f = make_message(e["kind"], e["data"], ct=e["ct"], path=e["path"], extra=e["extra"])
                        md = cvutils.make_metadata(msg, f)
                    out = outcome(reg[n], data, md)
                    if out:
                        table.setdefault((n, "explicit", out), []).append((ei, c))
                msg, f = make_message(e["kind"], e["data"], ct=e["ct"], path=e["path"], extra=e["extra"])
                md = cvutils.make_metadata(msg, f)
                try:
                    best = reg.get_view(data, md, "auto")
                except Exception:
                    continue
                out = outcome(best, data, md)
                if out:
                    table.setdefault((best.name.lower(), "auto", out), []).append((ei, c))
        self.table = table
        self.real_cases = sorted({(n, mode, out) for (n, mode, out) in table})
        ctx.notes["registered_views"] = names
        ctx.notes["real_cases"] = ["%s/%s/%s" % rc for rc in self.real_cases]
        missing = [n for n in names if (n, "explicit", "ok") not in table]
        ctx.notes["views_without_successful_corpus_input"] = missing

    def mon_constants(self, tier):
        return {}

    def model_constants(self, tier):
        regs = stub_registries(tier)
        quick = tier == "quick"
        dns = [{"z": z, "q": q, "rr": rr} for z in (0, 2) for q in (("plain", "dot") if quick else ("plain", "dot", "ctl", "upper", "none"))
               for rr in (("none", "a", "txt", "txt_bad", "cname", "cname_bad", "https", "https_hi", "dname", "mx") if quick else
                          ("none", "a", "txt", "txt_bad", "cname", "cname_bad", "generic", "https", "https_hi", "opt",
                           "dname", "mx", "soa"))]
        real = [{"id": n, "mode": m, "out": o} for (n, m, o) in (self.real_cases or [])]
        return {"StubRegs": frozenset(tuple(_FD(d) for d in r) for r in regs),
                "RealCases": frozenset(_FD(r) for r in real),
                "InClasses": frozenset(("print", "esc") if quick else ("print", "esc", "c1", "bin", "sp")),
                "MsgKinds": frozenset(("http", "tcp") if quick else ("http", "tcp", "ws")),
                "DnsMsgs": frozenset(_FD(d) for d in dns), "MaxCalls": 1, "EccKeepsC1": ECC_KEEPS_C1}

    def model_runs(self, ctx):
        # generous timeout: the model is small, but TLC shares the machine with other checks
        return [ctx.model_check(self.MODEL, self.model_constants(ctx.tier), dump=True, timeout=900 if ctx.quick else 3000)]

    # ---- scenarios -------------------------------------------------------------------------------------------
    def _scenario_of(self, beh, rng):
        from vf import tlaval

        name, args, _st = beh[1]
        v = rng.randrange(1000)
        if name == "StartStub":
            reg, msg, content, mode, target, c = args
            return {"kind": "stub", "reg": tlaval.to_py(reg), "msg": msg, "content": content, "mode": mode,
                    "target": int(target), "c": c, "v": v}
        if name == "StartReal":
            rc = tlaval.to_py(args[0])
            cands = self.table[(rc["id"], rc["mode"], rc["out"])]
            ei, c = cands[rng.randrange(len(cands))]
            return {"kind": "real", "view": rc["id"], "mode": rc["mode"], "out": rc["out"], "entry": ei, "c": c, "v": 0}
        if name == "DnsPrettify":
            return {"kind": "dns", "m": tlaval.to_py(args[0]), "transport": args[1]}
        return None

    def scenarios(self, ctx, models):
        g = models[0].graph
        seen = set()
        for b in g.all_paths(12):
            sc = self._scenario_of(b, ctx.rng)
            if sc is None:
                continue
            pred = [abstract_dns(e) if e.get("k") == "dns_rt" else e for e in core.predicted_events(b)]
            key = json.dumps(sc, sort_keys=True, default=str)
            if key in seen:
                continue
            seen.add(key)
            yield core.Scenario(sc, predicted=pred, source="model")
        rng = random.Random(ctx.seed + 50)
        n_real = 1500 if ctx.quick else 20000
        for (n, mode, out), cands in sorted(self.table.items()):
            for _ in range(2 if ctx.quick else 12):   # every view x outcome x every payload class, beyond the model's pick
                ei, _c = cands[rng.randrange(len(cands))]
                yield core.Scenario({"kind": "real", "view": n, "mode": mode, "out": None, "entry": ei,
                                     "c": rng.choice(CLASS_ORDER), "v": rng.randrange(100), "extra_variants": True},
                                    source="suite")
        n_entries = len(corpus("x"))
        for ei in range(n_entries):   # every corpus input as it is, automatic view selection (and raw explicitly)
            for c in (("print", "esc") if ctx.quick else CLASS_ORDER):
                yield core.Scenario({"kind": "entry", "entry": ei, "c": c, "v": rng.randrange(100), "view": "auto"}, source="suite")
        for _ in range(n_real):
            yield core.Scenario({"kind": "fuzz", "seed": rng.randrange(1 << 30)}, source="random")
        for i, (_name, _w) in enumerate(dns_sweep_cases()):   # every record type / class / opcode / rcode, rotating transports
            yield core.Scenario({"kind": "dnss", "case": i, "transport": ("udp", "tcp", "dnsmsg")[i % 3]}, source="suite")
        for i, (_name, _w) in enumerate(dns_boundary_cases()):   # boundary values of every integer field, all transports
            for tr in ("udp", "tcp", "dnsmsg"):
                yield core.Scenario({"kind": "dnsb", "case": i, "transport": tr}, source="suite")
        for _ in range(1500 if ctx.quick else 20000):
            yield core.Scenario({"kind": "dnsfuzz", "seed": rng.randrange(1 << 30)}, source="random")

    def drift_view(self, trace):
        out = []
        for e in trace:
            if e.get("k") == "dns_rt":
                e = abstract_dns(e)
            elif e.get("k") == "render" and e.get("msg") == "any":
                e = dict(e, cls=[])  # text of a real view is not predicted by the model (judged by the monitor only)
            out.append(e)
        return out

    # ---- execution -------------------------------------------------------------------------------------------
    def execute(self, sc):
        tctx()
        k = sc["kind"]
        if k == "stub":
            return self._stub(sc)
        if k == "real":
            return self._real(sc)
        if k == "entry":
            return self._real({"kind": "real", "view": sc["view"], "mode": "auto" if sc["view"] == "auto" else "explicit",
                               "out": None, "entry": sc["entry"], "c": sc["c"], "v": sc["v"], "extra_variants": True})
        if k == "dns":
            return dns_roundtrip(dns_wire_abstract(sc["m"]), sc["transport"], inctl=sc["m"]["q"] == "ctl")
        if k == "dnss":
            return dns_roundtrip(dns_sweep_cases()[sc["case"]][1], sc["transport"])
        if k == "dnsb":
            return dns_roundtrip(dns_boundary_cases()[sc["case"]][1], sc["transport"])
        if k == "dnsfuzz":
            return self._dnsfuzz(sc["seed"])
        return self._fuzz(sc["seed"])

    def _stub(self, sc):
        from mitmproxy import contentviews

        reg = contentviews.ContentviewRegistry()
        idmap = {}
        views = []
        for d in sc["reg"]:
            if d["id"] == "raw":
                view = contentviews.raw
            else:
                view = make_stub(d, sc["v"])
            reg.register(view)
            idmap[view.name] = d["id"]
            views.append(view)
        data = PAD + enc(MARK + variant(sc["c"], sc["v"]) + "e")
        kind = sc["msg"]
        if sc["content"] != "present" and kind != "http":
            return [{"k": "skipped"}]  # the model only asks for this with HTTP messages
        msg, f = make_message(kind, data, content=sc["content"])
        if sc["mode"] == "auto":
            vn = req = "auto"
        elif sc["mode"] == "unknown":
            vn = req = "nosuchview"
        else:
            d = sc["reg"][sc["target"] - 1]
            vn, req = views[sc["target"] - 1].name, d["id"]
        ev, _ = render(msg, f, vn, reg, mode=sc["mode"], req=req, kind=kind, content=sc["content"],
                       inctl=sc["c"] in FORBIDDEN, idmap=idmap)
        return [ev]

    def _real(self, sc):
        pool = VARIANTS[sc["c"]] + (EXTRA.get(sc["c"], []) if sc.get("extra_variants") else [])
        P = MARK + pool[sc["v"] % len(pool)] + "e"
        e = corpus(P)[sc["entry"]]
        msg, f = make_message(e["kind"], e["data"], ct=e["ct"], path=e["path"], extra=e["extra"])
        vn = "auto" if sc["mode"] == "auto" else sc["view"]
        ev, _ = render(msg, f, vn, None, mode=sc["mode"], req=vn, kind="any" if sc.get("out") else e["kind"],
                       content="present", inctl=sc["c"] in FORBIDDEN)
        if sc.get("out"):
            ev["inctl"] = False  # the model's real cases do not track the payload class (prediction field only)
        return [ev]

    def _fuzz(self, seed):
        from mitmproxy import contentviews

        rng = random.Random(seed)
        c = rng.choice(CLASS_ORDER)
        parts = []
        for _ in range(rng.randint(1, 3)):
            cc = rng.choice(CLASS_ORDER)
            parts.append(rng.choice(VARIANTS[cc] + EXTRA.get(cc, [])))
        P = MARK + "".join(parts) + "e"
        E = corpus(P)
        e = dict(rng.choice(E))
        data = e["data"]
        r = rng.random()
        if r < 0.25 and data:
            data = data[: rng.randrange(len(data))]
        elif r < 0.45 and data:
            ba = bytearray(data)
            for _ in range(rng.randint(1, 4)):
                ba[rng.randrange(len(ba))] = rng.randrange(256)
            data = bytes(ba)
        elif r < 0.55:
            o = rng.choice(E)["data"]
            data = data[: rng.randrange(len(data) + 1)] + o[rng.randrange(len(o) + 1):]
        elif r < 0.6:
            data = bytes(rng.randrange(256) for _ in range(rng.randint(0, 64)))
        elif r < 0.65:
            data = data * rng.randint(2, 30)
        elif r < 0.7:
            depth = rng.choice([50, 500, 3000])
            data = rng.choice([b"[" * depth + b"]" * depth, b"{\"a\":" * depth + b"1" + b"}" * depth,
                               b"<a>" * depth + b"</a>" * depth, b"\x91" * min(depth, 400) + b"\x01",
                               (b"\x0a\x7f" * 60)[: 2 * min(depth, 60)]])
        ct = e["ct"]
        r = rng.random()
        if r < 0.2:
            ct = rng.choice([x["ct"] for x in E if x["ct"]])
        elif r < 0.3:
            ct = rng.choice([b"", b";", b"text/html; charset=\x1b[2J", b"application/", b"/json", b"\xff\xfe/\xff",
                             b"application/json; " + enc(P), enc(P), b"multipart/form-data", b"multipart/form-data; boundary=",
                             b"image/svg+xml", b"application/x-protobuf; proto=\x9b", b"text/css;;;=", b"a/b/c", b"*/*"])
        kind = e["kind"] if rng.random() < 0.8 else rng.choice(["http", "http_req", "tcp", "udp", "ws", "wsbin"])
        content = "present"
        if kind in ("http", "http_req") and rng.random() < 0.08:
            content = rng.choice(["missing", "undecodable"])
        try:
            msg, f = make_message(kind, data, content=content, ct=ct, path=e["path"] if rng.random() < 0.9 else "/" + P,
                                  extra=e["extra"] if kind == e["kind"] else {})
        except Exception:
            msg, f = make_message("http", data)
            kind, content = "http", "present"
        names = contentviews.registry.available_views()
        r = rng.random()
        if r < 0.3:
            vn, mode = "auto", "auto"
        elif r < 0.95:
            vn, mode = rng.choice(names[1:]), "explicit"
            if rng.random() < 0.2:
                vn = vn.upper()
        else:
            vn, mode = "no such view " + P, "unknown"
        ev, _ = render(msg, f, vn, None, mode=mode, req=vn.lower() if mode != "unknown" else "nosuchview", kind=kind,
                       content=content, inctl=any(char_class(ch) in FORBIDDEN for ch in P))
        return [ev]

    def _dnsfuzz(self, seed):
        rng = random.Random(seed)
        wire = random_dns(rng)
        transport = rng.choice(["udp", "udp", "tcp", "dnsmsg"])
        how = "explicit" if rng.random() < 0.7 or transport == "dnsmsg" else "auto"
        return dns_roundtrip(wire, transport, how)


class _FD(dict):
    """hashable dict (records inside set constants)"""

    def __hash__(self):
        return hash(tuple(sorted((k, str(v)) for k, v in self.items())))
