"""C15 -- upstream certificates are verified unless verification is disabled.

Model: spec/CertVerify/CertVerify.tla   Monitor: Mon_CertVerify.tla
Real code: TlsConfig.tls_start_server (verify mode, SNI resolution, hostflags, set1_host / set1_ip),
net.tls.create_proxy_server_context (trust store), ServerTLSLayer (handshake, error path, hooks) -- driven sans-io
against an in-memory Python-ssl server that presents certificates minted per row with `cryptography`.
"""
from __future__ import annotations

import ipaddress
import os
import random

from vf import core

# ------------------------------------------------------------------------------------------------------------------
# the decision table's dimensions

IDENT = {  # idform -> (identity as mitmproxy gets it, identity as it appears in certificates, a decoy of same form)
    "dns": ("srv.example.test", "srv.example.test", "other.example.test"),
    "idn": ("bücher.example.test", "xn--bcher-kva.example.test", "xn--mnchen-3ya.example.test"),
    "ip4": ("192.0.2.7", "192.0.2.7", "192.0.2.8"),
    "ip6": ("2001:db8::7", "2001:db8::7", "2001:db8::8"),
}
NAMINGS_DNS = {  # naming -> (named?, builder of (cn, sans) from the certificate-form identity)
    "san_exact": True, "san_case": True, "san_among_others": True, "wild_ok": True,
    "san_other": False, "wild_partial_prefix": False, "wild_partial_suffix": False, "wild_two_labels": False,
    "wild_not_leftmost": False, "cn_only": False, "cn_match_san_other": False, "no_names": False,
}
NAMINGS_IP = {
    "ip_exact": True, "ip_among_others": True,
    "ip_other": False, "ip_in_dns_san": False, "cn_only": False, "cn_match_san_other": False,
}
CHAINS = {  # chain -> (anchor or None, every chain certificate currently valid?)
    "direct": ("R", True), "inter": ("R", True), "wrong_ca": ("W", True),
    "public_ca": ("P", True),  # a CA of the public bundle (certifi; the harness points certifi.where at a stand-in)
    "inter_missing": (None, True), "self_signed": (None, True), "inter_not_ca": (None, True),
    "inter_expired": ("R", False),
}
VALIDITY = {"valid": True, "expired": False, "not_yet": False}
# nothing configured = certifi's bundle is the configured trust; anything configured replaces it
TRUSTS = {"ca_file": {"R"}, "ca_dir": {"R"}, "file_other": {"W"}, "file_and_dir": {"R", "W"}, "default": {"P"}}
IDSRCS = ("server_sni", "client_sni", "address", "sni_empty")
PEERS = ("tls", "garbage", "closes")
PAYLOAD = b"GET /secret HTTP/1.1\r\nHost: x\r\nAuthorization: token\r\n\r\n"


def namings_for(idform):
    return NAMINGS_IP if idform in ("ip4", "ip6") else NAMINGS_DNS


def truth(row):
    """Ground truth of a row by construction (what the harness minted / configured)."""
    anchor, chain_valid = CHAINS[row["chain"]]
    trusted = anchor is not None and anchor in TRUSTS[row["trust"]]
    valid = chain_valid and VALIDITY[row["validity"]]
    named = namings_for(row["idform"])[row["naming"]] and row["idsrc"] != "sni_empty"
    return trusted, valid, named


def mkrow(peer="tls", chain="direct", validity="valid", naming=None, idform="dns", idsrc="server_sni",
          trust="ca_file", insecure=False, path="lazy"):
    if naming is None:
        naming = "ip_exact" if idform in ("ip4", "ip6") else "san_exact"
    return {"peer": peer, "chain": chain, "validity": validity, "naming": naming, "idform": idform, "idsrc": idsrc,
            "trust": trust, "insecure": insecure, "path": path}


def rows_for(tier):
    rows = []
    add = rows.append
    # 1. every naming x identity form (trusted, valid chain), every identity source for the core namings
    for idform in IDENT:
        for naming in namings_for(idform):
            for ins in (False, True):
                add(mkrow(naming=naming, idform=idform, insecure=ins))
            for idsrc in ("client_sni", "address"):
                if tier != "quick" or naming in ("san_exact", "san_other", "cn_only", "ip_exact", "ip_other", "wild_ok",
                                                 "wild_partial_prefix", "ip_in_dns_san"):
                    add(mkrow(naming=naming, idform=idform, idsrc=idsrc))
            add(mkrow(naming=naming, idform=idform, path="eager"))
    # 2. every chain x validity x trust (exact name)
    for chain in CHAINS:
        for validity in VALIDITY:
            for trust in TRUSTS:
                for ins in (False, True):
                    if ins and tier == "quick" and (validity != "valid" and chain != "direct"):
                        continue
                    add(mkrow(chain=chain, validity=validity, trust=trust, insecure=ins))
                if tier != "quick":
                    add(mkrow(chain=chain, validity=validity, trust=trust, idform="ip4"))
                    add(mkrow(chain=chain, validity=validity, trust=trust, path="eager"))
    # 2b. a server whose CA is in the public bundle only, under every trust configuration
    for trust in TRUSTS:
        for ins in (False, True):
            add(mkrow(chain="public_ca", trust=trust, insecure=ins))
        add(mkrow(chain="public_ca", trust=trust, path="eager"))
        if tier != "quick":
            for validity in ("expired", "not_yet"):
                add(mkrow(chain="public_ca", trust=trust, validity=validity))
            add(mkrow(chain="public_ca", trust=trust, idform="ip4"))
            add(mkrow(chain="public_ca", trust=trust, naming="san_other"))
    # 3. no identity to verify, and peers that do not complete TLS
    for ins in (False, True):
        for idform in ("dns", "ip4"):
            add(mkrow(idsrc="sni_empty", idform=idform, insecure=ins))
        for peer in ("garbage", "closes"):
            for path in ("lazy", "eager"):
                add(mkrow(peer=peer, insecure=ins, path=path))
    # 4. combinations of two defects and bad chains with each bad naming (thorough)
    if tier != "quick":
        for idform in IDENT:
            for naming in namings_for(idform):
                for chain in ("inter", "wrong_ca", "self_signed"):
                    for validity in ("valid", "expired"):
                        for trust in ("ca_dir", "file_and_dir", "default"):
                            for ins in (False, True):
                                add(mkrow(chain=chain, validity=validity, naming=naming, idform=idform, trust=trust,
                                          insecure=ins))
    seen, out = set(), []
    for r in rows:
        k = tuple(sorted(r.items()))
        if k not in seen:
            seen.add(k)
            out.append(r)
    return out


SEQ_ROWS = [mkrow(), mkrow(naming="san_other"), mkrow(insecure=True, naming="san_other"), mkrow(trust="default"),
            mkrow(idform="ip4", naming="ip_other"), mkrow(chain="wrong_ca", trust="file_other"),
            mkrow(chain="wrong_ca"), mkrow(peer="closes"), mkrow(chain="public_ca", trust="ca_dir"),
            mkrow(chain="public_ca", trust="default")]

# ------------------------------------------------------------------------------------------------------------------
# the lab: certificates and trust stores (cryptography only)

_LAB = None


class CertLab:
    def __init__(self, scratch: str):
        from vf import tlslab

        self.dir = os.path.join(scratch, "c15lab")
        os.makedirs(self.dir, exist_ok=True)
        self.m = tlslab.Mint()
        m = self.m
        self.R = m.ca("root-R")
        self.W = m.ca("root-W")
        self.P = m.ca("root-P")  # stands in for a public CA: the only certificate of "certifi's" bundle
        self.I = m.ca("inter-I", issuer=self.R)
        self.IE = m.ca("inter-IE", issuer=self.R, days_before=400, days_after=-30)
        self.L = m.ca("notca-L", issuer=self.R, is_ca=False, key_cert_sign=False)
        self.files: dict = {}
        self.trust = {}
        f_r = self._write("trust_R.pem", tlslab.pem_cert(self.R[0]))
        f_w = self._write("trust_W.pem", tlslab.pem_cert(self.W[0]))
        d_r = self._hashdir("dir_R", [self.R[0]])
        d_empty = self._hashdir("dir_empty", [])
        self.trust = {"ca_file": (f_r, None), "ca_dir": (None, d_r), "file_other": (f_w, None),
                      "file_and_dir": (f_w, d_r), "default": (None, None)}
        self.roots = {"R": self.R[0], "W": self.W[0], "P": self.P[0]}
        import certifi

        bundle = self._write("public_bundle.pem", tlslab.pem_cert(self.P[0]))
        certifi.where = lambda: bundle  # net.tls calls certifi.where() when no CA file/dir is configured

    def _write(self, name, data: bytes) -> str:
        p = os.path.join(self.dir, name)
        with open(p, "wb") as f:
            f.write(data)
        return p

    def _hashdir(self, name, certs) -> str:
        from OpenSSL import crypto

        from vf import tlslab

        d = os.path.join(self.dir, name)
        os.makedirs(d, exist_ok=True)
        for c in certs:
            h = crypto.X509.from_cryptography(c).subject_name_hash()  # the file name OpenSSL's by-dir lookup wants
            with open(os.path.join(d, f"{h:08x}.0"), "wb") as f:
                f.write(tlslab.pem_cert(c))
        return d

    def names(self, naming: str, idform: str):
        """(cn, [GeneralName]) for a naming class relative to the identity of `idform`."""
        from cryptography import x509

        ident, other = IDENT[idform][1], IDENT[idform][2]
        D, IP = x509.DNSName, lambda s: x509.IPAddress(ipaddress.ip_address(s))
        if idform in ("ip4", "ip6"):
            return {
                "ip_exact": (None, [IP(ident)]),
                "ip_among_others": ("device", [D("device.example.test"), IP(other), IP(ident)]),
                "ip_other": (None, [IP(other)]),
                "ip_in_dns_san": (None, [D(ident)] if idform == "ip4" else [D(ident.replace(":", "-"))]),
                "cn_only": (ident, []),
                "cn_match_san_other": (ident, [IP(other), D("device.example.test")]),
            }[naming]
        first, _, parent = ident.partition(".")
        tld = parent.partition(".")[2]
        return {
            "san_exact": (None, [D(ident)]),
            "san_case": (None, [D(ident.upper())]),
            "san_among_others": ("unrelated", [D(other), IP("192.0.2.99"), D(ident)]),
            "wild_ok": (None, [D("*." + parent)]),
            "san_other": (None, [D(other)]),
            "wild_partial_prefix": (None, [D(first[0] + "*." + parent)]),
            "wild_partial_suffix": (None, [D("*" + first[-1] + "." + parent)]),
            "wild_two_labels": (None, [D("*." + tld)]),
            "wild_not_leftmost": (None, [D(first + ".*." + tld)]),
            "cn_only": (ident, []),
            "cn_match_san_other": (ident, [D(other)]),
            "no_names": (None, []),
        }[naming]

    def server_files(self, chain: str, validity: str, naming: str, idform: str):
        """(certfile with the chain the server sends, keyfile, [leaf, intermediates...] as cryptography objects)."""
        from vf import tlslab

        key = (chain, validity, naming, idform)
        if key in self.files:
            return self.files[key]
        cn, sans = self.names(naming, idform)
        db, da = {"valid": (1, 30), "expired": (60, -2), "not_yet": (-2, 30)}[validity]
        issuer = {"direct": self.R, "inter": self.I, "inter_missing": self.I, "wrong_ca": self.W, "public_ca": self.P,
                  "inter_not_ca": self.L, "inter_expired": self.IE, "self_signed": None}[chain]
        kl = "srv-" + "-".join(key)
        if issuer is None:
            # self-signed leaf: issuer = itself
            k = self.m.key(kl)
            tmp = self.m.leaf((self._selfname(cn), k), cn=cn, sans=sans, days_before=db, days_after=da, key_label=kl)
            leaf, lkey = tmp
        else:
            leaf, lkey = self.m.leaf(issuer, cn=cn, sans=sans, days_before=db, days_after=da, key_label=kl)
        extra = {"inter": [self.I[0]], "inter_not_ca": [self.L[0]], "inter_expired": [self.IE[0]]}.get(chain, [])
        name = "-".join(key)
        cf = self._write(name + ".crt", b"".join(tlslab.pem_cert(c) for c in [leaf] + extra))
        kf = self._write(name + ".key", tlslab.pem_key(lkey))
        self.files[key] = (cf, kf, [leaf] + extra)
        return self.files[key]

    class _Subj:
        def __init__(self, subject):
            self.subject = subject
            from cryptography import x509

            self.extensions = x509.Extensions([])

    def _selfname(self, cn):
        from cryptography import x509
        from cryptography.x509.oid import NameOID

        subj = x509.Name([x509.NameAttribute(NameOID.COMMON_NAME, cn)] if cn is not None else [])
        return CertLab._Subj(subj)


def certlab(scratch=None) -> CertLab:
    global _LAB
    if _LAB is None:
        _LAB = CertLab(scratch or "/verif/.scratch/C15-replay")
    return _LAB


# ------------------------------------------------------------------------------------------------------------------
# one upstream connection attempt on the real layer


def run_conn(row: dict, trace: list):
    from mitmproxy import connection
    from mitmproxy.proxy import commands, events, layer
    from mitmproxy.proxy.layers import tls as ptls
    from vf import sansio, tlslab

    lb = tlslab.lab()
    cl = certlab()
    trusted, valid, named = truth(row)
    ca_file, ca_dir = cl.trust[row["trust"]]
    lb.set(ssl_insecure=bool(row["insecure"]), ssl_verify_upstream_trusted_ca=ca_file,
           ssl_verify_upstream_trusted_confdir=ca_dir)
    ident, cert_ident, decoy = IDENT[row["idform"]]
    ctx = sansio.make_context(lb.options)
    server = ctx.server
    if row["idsrc"] == "server_sni":
        server.address, server.sni, ctx.client.sni = (decoy, 443), ident, "client-decoy.example.test"
    elif row["idsrc"] == "client_sni":
        server.address, ctx.client.sni = (decoy, 443), ident
    elif row["idsrc"] == "address":
        server.address = (ident, 443)
    else:  # the user opted out of SNI explicitly
        server.address, server.sni = (ident, 443), ""
    if row.get("alpn"):
        ctx.client.alpn_offers = [b"h2", b"http/1.1"]
    eager = row["path"] == "eager"

    class App(layer.Layer):
        """A well-behaved upper layer: opens the server connection when told to, sends only on an open connection."""

        def _handle_event(self, event):
            if isinstance(event, events.DataReceived) and event.connection is self.context.client:
                if eager:
                    if self.context.server.connected:
                        yield commands.SendData(self.context.server, PAYLOAD)
                else:
                    err = yield commands.OpenConnection(self.context.server)
                    trace.append({"k": "reply", "err": bool(err)})
                    if not err:
                        yield commands.SendData(self.context.server, PAYLOAD)
            else:
                yield from ()

    top = ptls.ServerTLSLayer(ctx)
    top.child_layer = App(ctx)
    raised = []

    def on_hook(d, cmd):
        name = cmd.name
        if name == "tls_start_server":
            trace.append({"k": "hook", "name": name, "err": bool(server.error)})
            try:
                lb.ta.tls_start_server(cmd.data)
            except Exception as e:  # AddonManager logs an exception in a hook and carries on
                raised.append(type(e).__name__)
                trace.append({"k": "raised", "exc": type(e).__name__})
        elif name in ("tls_established_server", "tls_failed_server"):
            trace.append({"k": "hook", "name": name, "err": bool(server.error)})

    oracle = False
    if row["peer"] == "tls":
        cf, kf, chain_objs = cl.server_files(row["chain"], row["validity"], row["naming"], row["idform"])
        peer = tlslab.SslPeer(server_side=True, certfile=cf, keyfile=kf, alpn=["h2", "http/1.1"] if row.get("alpn") else None)
        roots = [cl.roots[a] for a in sorted(TRUSTS[row["trust"]])]
        if roots and row["idsrc"] != "sni_empty":
            oracle = tlslab.strict_verify(chain_objs[0], chain_objs[1:], roots, cert_ident) == "ok"
    else:
        peer = None
    trace.append({"k": "start", "insecure": bool(row["insecure"]), "peer": row["peer"], "trusted": trusted,
                  "valid": valid, "named": named, "chain": row["chain"], "validity": row["validity"],
                  "naming": row["naming"], "idform": row["idform"], "idsrc": row["idsrc"], "trust": row["trust"],
                  "path": row["path"]})
    if eager:
        server.state = connection.ConnectionState.OPEN
        server.peername = server.address
    d = sansio.Driver(ctx, top, on_hook=on_hook, auto_hooks=True)
    sent_mark = [0]
    closed_notified = [False]
    crashed = [None]
    plain = [0]

    def safe(fn, *a):
        if crashed[0]:
            return
        try:
            fn(*a)
        except Exception as e:  # the layer itself crashed ("mitmproxy has crashed!"): the connection dies
            crashed[0] = f"{type(e).__name__}: {e}"

    def exchange():
        """Move bytes between mitmproxy's server connection and the peer until nothing moves."""
        for _ in range(40):
            moved = False
            for op in list(d.opens_pending()):
                safe(d.complete, op)
                moved = True
            out = bytes(d.sent.get("server1", b""))
            new = out[sent_mark[0]:]
            sent_mark[0] = len(out)
            if new:
                moved = True
                if PAYLOAD in new:
                    plain[0] += len(PAYLOAD)
                if peer is not None:
                    peer.give(new)
                    peer.handshake_step()
                    back = peer.take()
                    if back:
                        safe(d.data, server, back)
                elif row["peer"] == "garbage":
                    safe(d.data, server, b"HTTP/1.1 400 Bad Request\r\nContent-Length: 0\r\n\r\n")
                elif row["peer"] == "closes":
                    if server.state is not connection.ConnectionState.CLOSED:
                        safe(d.peer_close, server)
                        closed_notified[0] = True
            # server.py: a connection closed by a CloseConnection command still gets its ConnectionClosed event
            if server.state is connection.ConnectionState.CLOSED and "server1" in d.conn_names.values() \
                    and not closed_notified[0] and any(e["t"] == "close" and e["c"] == "server1" for e in d.log):
                closed_notified[0] = True
                safe(d.feed, events.ConnectionClosed(server))
                moved = True
            if not moved:
                break

    d.name(server)  # "server1"
    if eager:
        d.transports.add(server)  # the connection handler already owns an open server connection
    safe(d.start)
    exchange()
    safe(d.data, ctx.client, b"go")
    exchange()
    if peer is not None:
        peer.handshake_step()
        back = peer.take()
        if back:
            safe(d.data, server, back)
        exchange()
    app = len(peer.read_app()) if peer is not None and peer.done else 0
    # the environment ends the attempt: the server side goes away (EOF / idle timeout closes the connection)
    if server.state is not connection.ConnectionState.CLOSED and not crashed[0]:
        closed_notified[0] = True
        safe(d.peer_close, server)
    trace.append({"k": "end", "established": bool(server.tls_established), "error": bool(server.error), "app": app,
                  "plain": plain[0], "oracle": bool(oracle)})
    if crashed[0]:
        trace.append({"k": "crashed", "what": crashed[0][:100]})


class _ServerSide:
    """Upstream peer for the full-stack path: a Python-ssl server, a plaintext server, or one that hangs up."""

    def __init__(self, row, cl):
        from vf import tlslab

        self.kind = row["peer"]
        self.closes = self.kind == "closes"
        self.app = bytearray()
        self.plain = 0
        self.n = 0
        self.peer = None
        if self.kind == "tls":
            cf, kf, _ = cl.server_files(row["chain"], row["validity"], row["naming"], row["idform"])
            import ssl

            self.peer = tlslab.SslPeer(server_side=True, certfile=cf, keyfile=kf,
                                       max_version=ssl.TLSVersion.TLSv1_2 if row.get("tls12") else None)

    def give(self, data):
        self.n += 1
        if b"GET /secret" in data:
            self.plain += len(data)
        if self.peer is not None:
            self.peer.give(data)
            self.peer.handshake_step()
            if self.peer.done:
                self.app += self.peer.read_app()

    def take(self):
        if self.peer is not None:
            return self.peer.take()
        return b"HTTP/1.1 400 Bad Request\r\nContent-Length: 0\r\n\r\n" if self.kind == "garbage" and self.n == 1 else b""


def run_full(row: dict, trace: list):
    """The whole real stack of a transparent-mode connection (eager strategy): ClientHello -> upstream TLS first ->
    client TLS -> HTTP request -> (re)connect upstream.  Several upstream attempts may belong to one row."""
    from vf import tlslab

    lb = tlslab.lab()
    cl = certlab()
    trusted, valid, named = truth(row)
    ca_file, ca_dir = cl.trust[row["trust"]]
    lb.set(ssl_insecure=bool(row["insecure"]), ssl_verify_upstream_trusted_ca=ca_file,
           ssl_verify_upstream_trusted_confdir=ca_dir, connection_strategy="eager")
    ident, cert_ident, decoy = IDENT[row["idform"]]
    by_sni = row["idsrc"] == "client_sni" and row["idform"] in ("dns", "idn")
    idsrc = "client_sni" if by_sni else "address"
    trace.append({"k": "start", "insecure": bool(row["insecure"]), "peer": row["peer"], "trusted": trusted,
                  "valid": valid, "named": namings_for(row["idform"])[row["naming"]], "chain": row["chain"],
                  "validity": row["validity"], "naming": row["naming"], "idform": row["idform"], "idsrc": idsrc,
                  "trust": row["trust"], "path": "full"})
    servers = []

    def after(name, data, nth):
        if name in ("tls_start_server", "tls_established_server", "tls_failed_server"):
            if data.conn not in servers:
                servers.append(data.conn)
            trace.append({"k": "hook", "name": name, "err": bool(data.conn.error)})

    try:
        fs = tlslab.FullStack(lb, "transparent", server_address=(decoy if by_sni else ident, 443), after=after)
        sides = []

        def factory(conn):
            sides.append(_ServerSide(row, cl))
            return sides[-1]

        fs.server_peer_factory = factory
        try:
            fs.settle()
        except Exception as e:
            fs.crashed = f"{type(e).__name__}: {e}"
        client = tlslab.SslPeer(sni=cert_ident if by_sni else None, alpn=["http/1.1"])
        ok = tlslab.pump_client_handshake(fs, client)
        if ok:
            client.write_app(b"GET /secret HTTP/1.1\r\nHost: " + cert_ident.encode() + b"\r\nAuthorization: token\r\n\r\n")
            back = fs.feed_client(client.take())
            client.give(back)
            client.read_app()
        trace.append({"k": "end", "established": any(c.tls_established for c in servers),
                      "error": bool(servers) and all(bool(c.error) for c in servers if not c.tls_established)
                      and not all(c.tls_established for c in servers),
                      "app": sum(len(x.app) for x in sides), "plain": sum(x.plain for x in sides), "oracle": False})
        if fs.crashed:
            trace.append({"k": "crashed", "what": fs.crashed[:100]})
    finally:
        lb.set(connection_strategy="lazy")


class Check(core.PropertyCheck):
    ID = "C15"
    SPEC_DIR = "CertVerify"
    MODEL = "CertVerify"
    MON = "Mon_CertVerify"
    REQUIRED_WITNESSES = ("need_fail", "verified_ok", "insecure_bad_cert", "app_data", "refuse_untrusted",
                          "refuse_not_valid", "refuse_name_mismatch", "refuse_garbage", "refuse_closes", "path_lazy",
                          "path_eager", "trust_ca_file", "trust_ca_dir", "trust_default", "trust_file_other", "ok_public_ca",
                          "id_dns", "id_idn", "id_ip4", "id_ip6", "src_server_sni", "src_client_sni", "src_address",
                          "src_sni_empty", "ok_wild_ok", "ok_inter", "ok_san_case", "path_full")
    REQUIRED_ACTIONS = ("StartServer", "Flight", "Finish")
    ASSUMPTIONS = (
        "ground truth (trusted / valid / named) is by construction of the certificates the harness mints with "
        "`cryptography` and of the trust files it writes; cryptography's strict verifier is run as a cross-check "
        "(field `oracle`, drift only)",
        "the identity to verify is server.sni, else client.sni, else the server address (what the statement calls the "
        "server's SNI or IP address)",
        "the server peer is Python's ssl module on memory BIOs (a different libssl than pyOpenSSL's); application bytes "
        "are what that peer decrypts; the upper layer is a scripted well-behaved layer (sends only on an open connection)",
        "TlsConfig's hooks are invoked the way AddonManager does (an exception in a hook is logged, not propagated); "
        "a connection closed by command gets its ConnectionClosed event as in server.py",
    )

    def setup(self, ctx):
        from vf import tlslab

        tlslab.lab(ctx.scratch / "confdir")
        certlab(str(ctx.scratch))

    def mon_constants(self, tier):
        return {}

    def model_constants(self, tier):
        fd = core.tlaval.FrozenDict
        return {"Rows": frozenset(fd(r) for r in rows_for(tier)), "SeqRows": frozenset(fd(r) for r in SEQ_ROWS),
                "MaxConns": 2 if tier == "quick" else 3}

    def scenarios(self, ctx, models):
        g = models[0].graph
        rng = random.Random(ctx.seed + 15)
        behs = g.edge_cover(rng, max_len=12, tail=9)
        behs += g.random_walks(rng, 100 if ctx.quick else 1500, 9)
        seen = set()
        for b in behs:
            rows = [dict(args[0]) for name, args, _st in b[1:] if name == "StartServer"]
            n_fin = sum(1 for name, _a, _s in b[1:] if name == "Finish")
            rows = rows[:n_fin]
            if not rows:
                continue
            key = tuple(tuple(sorted(r.items())) for r in rows)
            if key in seen:
                continue
            seen.add(key)
            pred = []
            for name, _a, st in b[1:]:
                pred += core.tlaval.to_py(st.get("obs", ()))
            # cut the prediction after the last complete connection
            ends = [i for i, e in enumerate(pred) if e.get("k") == "end"]
            pred = pred[: ends[n_fin - 1] + 1]
            yield core.Scenario({"rows": rows}, predicted=pred, source="model")
        # beyond the model: longer histories over random rows (shared SSL.Context cache, option flips), ALPN on
        rng = random.Random(ctx.seed + 1515)
        allrows = rows_for("thorough")
        for _ in range(60 if ctx.quick else 1200):
            rows = []
            for _ in range(rng.randint(2, 6)):
                r = dict(rng.choice(allrows))
                r["insecure"] = rng.random() < 0.3
                r["path"] = rng.choice(["lazy", "eager"])
                r["alpn"] = rng.random() < 0.5
                rows.append(r)
            yield core.Scenario({"rows": rows}, source="random")
        # the complete real stack (transparent mode, eager strategy): upstream TLS is started by the client's hello,
        # the HTTP layer reconnects after a failure -- several upstream attempts per row
        full = [r for r in allrows if r["idsrc"] in ("client_sni", "address", "server_sni") and r["path"] == "lazy"]
        rng.shuffle(full)
        for r in full[: 150 if ctx.quick else 2500]:
            r = dict(r)
            r["path"] = "full"
            r["idsrc"] = "client_sni" if r["idform"] in ("dns", "idn") and rng.random() < 0.7 else "address"
            r["tls12"] = rng.random() < 0.3
            yield core.Scenario({"rows": [r]}, source="fullstack")

    def execute(self, sc):
        trace: list = []
        for r in sc["rows"]:
            if r.get("path") == "full":
                run_full(r, trace)
            else:
                run_conn(r, trace)
        return trace

    def drift_view(self, trace):
        return [e for e in trace if e.get("k") != "crashed"]
