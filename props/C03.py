"""C03 -- every HTTP flow has an ordered hook lifecycle and exactly one outcome.

Model: spec/HttpFlow/HttpFlow.tla   Monitor: Mon_HttpFlow.tla
Real code: mitmproxy.proxy.layers.http.HttpLayer(regular) with Http1Server / HttpStream / Http1Client, driven
sans-io through vf.httpdrv.HttpEnv (which also plays ConnectionHandler's part: state bits, close echo, teardown).
"""
from __future__ import annotations

import random
from collections import deque

from vf import core

POL_QUICK = {"rh": frozenset({"pass", "kill", "resp", "stream"}), "rq": frozenset({"pass", "kill", "resp"}),
             "rqs": frozenset({"pass", "kill"}), "rsh": frozenset({"pass", "kill", "stream"}),
             "rs": frozenset({"pass", "kill"}), "err": frozenset({"pass", "kill"})}

BODY = b"0123456789abcdefghijklmnopqrstuvwxyz"


class Peer:
    """Concretises abstract client/server actions to bytes and keeps what the peers have sent so far."""

    def __init__(self, rng: random.Random | None = None):
        self.rng = rng
        self.req_kind = ""
        self.req_left = 0
        self.resp_kind = ""
        self.resp_left = 0
        self.nflow = 0

    def _pick(self, *alts):
        return alts[0] if self.rng is None else self.rng.choice(alts)

    def req_head(self, kind: str) -> bytes:
        self.nflow += 1
        self.req_kind = kind
        path = b"/p%d" % self.nflow
        host = b"example.com"
        if kind == "garbage":
            return self._pick(b"GARBAGE\r\n\r\n", b"GET\r\n\r\n", b"\x00\x01 / HTTP/1.1\r\n\r\n")
        if kind == "get":
            m = self._pick(b"GET", b"GET", b"DELETE", b"HEAD")
            return m + b" http://" + host + path + b" HTTP/1.1\r\nHost: " + host + b"\r\n\r\n"
        start = b"POST http://" + host + path + b" HTTP/1.1\r\nHost: " + host + b"\r\n"
        if kind == "post":
            self.req_left = 8
            return start + b"Content-Length: 8\r\n\r\n"
        if kind == "chunked":
            return start + b"Transfer-Encoding: chunked\r\n\r\n"
        if kind == "badval":  # parses, framing decidable, rejected by validate_headers
            return start + self._pick(b"Content-Length: 8\r\nTransfer-Encoding: chunked\r\n\r\n",
                                      b"Transfer-Encoding: chunked\r\nBad Name: x\r\n\r\n")
        if kind == "badframe":  # parses, framing undecidable
            return start + self._pick(b"Content-Length: abc\r\n\r\n", b"Content-Length: -1\r\n\r\n",
                                      b"Transfer-Encoding: chunked, nope\r\n\r\n")
        raise ValueError(kind)

    def req_body(self, last: bool) -> bytes | None:
        if self.req_kind == "post":
            if last:
                n, self.req_left = self.req_left, 0
                return BODY[:n] if n else None
            if self.req_left <= 1:
                return None
            self.req_left -= 1
            return b"x"
        if self.req_kind in ("chunked", "badval"):
            return b"1\r\ny\r\n0\r\n\r\n" if last else b"2\r\nxy\r\n"
        return None

    def resp_head(self, kind: str) -> bytes:
        self.resp_kind = kind
        if kind == "garbage":
            return self._pick(b"GARBAGE\r\n\r\n", b"HTTP/1.1 abc OK\r\n\r\n")
        if kind == "cl":
            self.resp_left = 8
            return b"HTTP/1.1 200 OK\r\nContent-Length: 8\r\n\r\n"
        if kind == "chunked":
            return b"HTTP/1.1 200 OK\r\nTransfer-Encoding: chunked\r\n\r\n"
        if kind == "nobody":
            return self._pick(b"HTTP/1.1 200 OK\r\nContent-Length: 0\r\n\r\n", b"HTTP/1.1 204 No Content\r\n\r\n",
                              b"HTTP/1.1 304 Not Modified\r\nContent-Length: 5\r\n\r\n")
        if kind == "eof":
            return b"HTTP/1.1 200 OK\r\nServer: x\r\n\r\n"
        if kind == "badval":  # parses, framing decidable, rejected by validate_headers
            return self._pick(b"HTTP/1.1 200 OK\r\nContent-Length: 8\r\nTransfer-Encoding: chunked\r\n\r\n",
                              b"HTTP/1.1 200 OK\r\nTransfer-Encoding: chunked\r\nBad Name: x\r\n\r\n")
        if kind == "badframe":  # head parses, framing undecidable
            return self._pick(b"HTTP/1.1 200 OK\r\nTransfer-Encoding: chunked\r\nTransfer-Encoding: chunked\r\n\r\n",
                              b"HTTP/1.1 200 OK\r\nContent-Length: abc\r\n\r\n",
                              b"HTTP/1.1 200 OK\r\nTransfer-Encoding: nope\r\n\r\n")
        raise ValueError(kind)

    def resp_body(self, last: bool) -> bytes | None:
        if self.resp_kind == "cl":
            if last:
                n, self.resp_left = self.resp_left, 0
                return BODY[:n] if n else None
            if self.resp_left <= 1:
                return None
            self.resp_left -= 1
            return b"x"
        if self.resp_kind in ("chunked", "badval"):
            return b"1\r\ny\r\n0\r\n\r\n" if last else b"2\r\nxy\r\n"
        if self.resp_kind == "eof":
            return None if last else b"zz"
        return None


class Run:
    """One execution of the real layer stack; every step appends the observed records to self.trace."""

    def __init__(self, rng=None):
        from vf import httpdrv

        self.httpdrv = httpdrv
        self.env = httpdrv.HttpEnv()
        self.peer = Peer(rng)
        self.trace: list[dict] = []
        self.env.on_hook = self._hook
        self.env.on_raise = lambda exc: self.trace.append({"k": "raised", "exc": exc})
        self.done = False

    def _hook(self, name, n, fl):
        self.trace.append({"k": "hook", "name": name, "f": n, "rs": bool(fl.request.stream)})

    def step(self, a: str, x: str = "") -> bool:
        """Perform environment action a(x).  False: not enabled on the real objects (nothing recorded)."""
        env, peer = self.env, self.peer
        mark = len(self.trace)
        self.trace.append({"k": "env", "a": a, "x": x})
        ok = False
        if a == "ClientHead":
            ok = env.readable(env.client) and env.send(env.client, peer.req_head(x))
        elif a in ("ClientBody", "ClientEnd"):
            if env.readable(env.client):
                b = peer.req_body(a == "ClientEnd")
                ok = b is not None and env.send(env.client, b)
        elif a == "ClientFin":
            ok = env.fin(env.client)
        elif a == "ClientEcho":
            ok = env.echo(env.client)
        elif a == "OpenDone":
            ok = env.open_done(x == "ok")
        elif a == "ServerHead":
            ok = env.readable(env.server) and env.send(env.server, peer.resp_head(x))
        elif a in ("ServerBody", "ServerEnd"):
            if env.readable(env.server):
                b = peer.resp_body(a == "ServerEnd")
                ok = b is not None and env.send(env.server, b)
        elif a == "ServerRaw":  # random driver only: arbitrary bytes from the server
            ok = env.send(env.server, x.encode("latin-1"))
        elif a == "ClientRaw":
            ok = env.send(env.client, x.encode("latin-1"))
        elif a == "ServerFin":
            ok = env.fin(env.server)
        elif a == "ServerEcho":
            ok = env.echo(env.server)
        elif a == "HookDone":
            ok = env.hook_done(self.httpdrv.apply_policy(x))
        elif a == "Quiesce":
            if env.quiescent():
                self.trace.append({"k": "quiescent", "flows": [self._flow_rec(f) for f in env.flows]})
                self.done = True
                return True
        if not ok:
            del self.trace[mark:]
        return bool(ok)

    @staticmethod
    def _flow_rec(fl):
        kind = "plain"
        if fl.request.method.upper() == "CONNECT":
            kind = "connect"
        elif fl.websocket is not None or (fl.response is not None and fl.response.status_code == 101):
            kind = "upgrade"
        return {"live": bool(fl.live), "kind": kind}

    def finish(self):
        if not self.done:
            self.trace.append({"k": "end"})
            self.done = True
        return self.trace


def wind_down(r: "Run", do=None, early: bool = True):
    """An environment that eventually answers every hook, closes every connection and delivers every close, so that
    the end-of-behaviour obligation is judged even when a behaviour stopped early or the code diverged from the
    model's behaviour.  early: judge at the first moment everything is closed (before the ConnectionClosed echoes of
    closes by command are delivered); otherwise deliver the echoes first."""
    env = r.env
    do = do or r.step
    for _ in range(80):
        if r.done:
            break
        if env.pending_hook() is not None:
            do("HookDone", "pass")
        elif env.drv.opens_pending():
            do("OpenDone", "fail")
        elif early and env.quiescent():
            do("Quiesce")
        elif env.readable(env.client):
            do("ClientFin")
        elif env.echo_pending(env.client):
            do("ClientEcho")
        elif any(env.echo_pending(c) or env.readable(c) for c in env.servers):
            c = next(c for c in env.servers if env.echo_pending(c) or env.readable(c))
            if c is env.server:
                do("ServerEcho") or do("ServerFin")
            elif not env.echo(c):  # an older server connection: same events, addressed directly
                env.fin(c)
        elif env.quiescent():
            do("Quiesce")
        else:
            break


def run_ops(ops):
    r = Run()
    for a, x in ops:
        if r.done:
            break
        if not r.step(a, x):
            # the action is not enabled on the real objects (the code diverged from the model): keep going as a
            # well-behaved environment would, so that the end-of-behaviour obligation is still judged
            wind_down(r)
            break
    return r.finish()


def run_random(seed: int, n: int, nflows: int):
    """Random driver: chooses among the actions that are physically possible (connection readable, something
    outstanding), following the peers' own protocol bookkeeping; not bounded by the model's constants, and with
    request/response classes, pipelined bytes and stray server bytes the model does not have."""
    rng = random.Random(seed)
    r = Run(rng)
    env, peer = r.env, r.peer
    st = {"req": "idle", "resp": "idle", "heads": 0}  # peers' view of their own message progress
    ops = []

    def do(a, x=""):
        if r.step(a, x):
            ops.append([a, x])
            return True
        return False

    for _ in range(n):
        if r.done:
            break
        ch = []
        if env.pending_hook() is not None:
            h = env.pending_hook().name
            pol = ["pass"] * 4 + ["kill"]
            if h == "requestheaders":
                pol += ["stream", "stream", "resp"]
            elif h == "request":
                pol += ["resp"]
            elif h == "responseheaders":
                pol += ["stream", "stream"]
            fl = env.pending_hook().args()[0]
            if fl.request.stream and "resp" in pol:
                pol = [p for p in pol if p != "resp"]  # documented as unsupported (NotImplementedError)
            ch += [("HookDone", rng.choice(pol))] * 4
        if env.drv.opens_pending():
            ch += [("OpenDone", "ok")] * 3 + [("OpenDone", "fail")]
        if env.readable(env.client):
            if st["req"] == "idle" and st["heads"] < nflows:
                ch += [("ClientHead", rng.choice(["get", "get", "post", "post", "chunked", "badval", "badframe",
                                                  "garbage"]))] * 3
            elif st["req"] == "body":
                ch += [("ClientBody", ""), ("ClientEnd", ""), ("ClientEnd", "")]
            ch += [("ClientFin", "")]
            if rng.random() < 0.03:
                ch += [("ClientRaw", "GET http://example.com/pipelined HTTP/1.1\r\nHost: example.com\r\n\r\n")]
        if env.echo_pending(env.client):
            ch += [("ClientEcho", "")] * 2
        s = env.server
        if s is not None:
            if env.readable(s):
                if st["resp"] == "idle":
                    ch += [("ServerHead", rng.choice(["cl", "cl", "chunked", "nobody", "eof", "badval", "badframe", "garbage"]))] * 3
                elif st["resp"] == "body":
                    ch += [("ServerBody", ""), ("ServerEnd", ""), ("ServerEnd", "")]
                ch += [("ServerFin", "")]
                if rng.random() < 0.05:
                    ch += [("ServerRaw", rng.choice(["zz", "HTTP/1.1 200 OK\r\nContent-Length: 0\r\n\r\n", "\r\n"]))]
            if env.echo_pending(s) or (env.readable(s) and env.fully_closed(env.client)):
                ch += [("ServerEcho", "")] * 2
        if env.quiescent():
            ch += [("Quiesce", "")] * 2
        if not ch:
            break
        a, x = rng.choice(ch)
        nsrv = len(env.servers)
        if not do(a, x):
            continue
        if len(env.servers) != nsrv:
            st["resp"] = "idle"
        if a == "ClientHead":
            st["heads"] += 1
            st["req"] = "body" if x in ("post", "chunked", "badval") else "idle"
        elif a == "ClientEnd":
            st["req"] = "idle"
        elif a == "ServerHead":
            st["resp"] = "body" if x in ("cl", "chunked", "eof", "badval") else "idle"
        elif a == "ServerEnd":
            st["resp"] = "idle"
    wind_down(r, do, early=rng.random() < 0.5)
    return r.finish(), ops


class Check(core.PropertyCheck):
    ID = "C03"
    SPEC_DIR = "HttpFlow"
    MODEL = "HttpFlow"
    MON = "Mon_HttpFlow"
    REQUIRED_WITNESSES = ("quiescent", "outcome_response", "outcome_error", "responseheaders_while_request_streams",
                          "responseheaders_after_request", "error_after_responseheaders", "error_before_request",
                          "request_after_responseheaders")
    REQUIRED_ACTIONS = ("ClientHead", "ClientBody", "ClientEnd", "ClientFin", "ClientEcho", "OpenDone", "ServerHead",
                        "ServerBody", "ServerEnd", "ServerFin", "ServerEcho", "HookDone", "Quiesce")
    ASSUMPTIONS = (
        "hooks are observed as StartHook commands at the sans-io boundary; flows are numbered by first appearance",
        "vf.httpdrv.HttpEnv plays ConnectionHandler: connection state bits as in server.py, ConnectionClosed is "
        "delivered once per connection (peer EOF, or echo after a close by command, or teardown after the client left)",
        "quiescent = client and all server connections closed by state (closed by command counts before its "
        "ConnectionClosed echo is delivered; a server that sent EOF and is kept writable counts), no hook or connect "
        "outstanding; flow.live is read from the flow objects passed to the hooks",
        "regular mode, HTTP/1 on both sides, plain http; CONNECT, upgrades, HTTP/2/3 are not exercised",
    )
    PROCS = 1
    # Named deviation of HttpFlow.tla.  TRUE = the code after commit 3a57873aa (handle_protocol_error also sets
    # server_state = errored when it forwards a client error upstream); FALSE = the code as first found
    # (findings_proposed/C03.md), kept so that the pre-repair model can show the clause is reachable.
    fix_upstream = True
    # Second named deviation.  FALSE = the code since /repo commit 6b67c94f8 (Http1Client.read_headers drops a response
    # head whose framing is undecidable); TRUE = the code as found (the head stays in self.response and the unguarded
    # expected_http_body_size in send(RequestEndOfMessage) raises ValueError, findings_proposed/C03.md F3).
    bad_frame_kept = False

    def mon_constants(self, tier):
        return {}

    def model_constants(self, tier):
        if tier == "quick":
            return {"ReqKinds": frozenset({"get", "post", "badval", "badframe", "garbage"}),
                    "RespKinds": frozenset({"cl", "nobody", "eof", "badval", "badframe", "garbage"}),
                    "BadFrameKept": self.bad_frame_kept, "Policies": POL_QUICK, "MaxFlows": 1, "MaxReqChunks": 0, "MaxRespChunks": 0,
                    "FixUpstream": self.fix_upstream}
        return {"ReqKinds": frozenset({"get", "post", "chunked", "badval", "badframe", "garbage"}),
                "RespKinds": frozenset({"cl", "nobody", "eof", "badval", "badframe", "garbage"}),
                "BadFrameKept": self.bad_frame_kept, "Policies": POL_QUICK, "MaxFlows": 2, "MaxReqChunks": 1, "MaxRespChunks": 1,
                "FixUpstream": self.fix_upstream}

    def model_runs(self, ctx):
        if ctx.quick:
            # body chunks are (for hooks) no-ops of the model: the quick tier leaves them to the random driver
            self.REQUIRED_ACTIONS = tuple(a for a in type(self).REQUIRED_ACTIONS if a not in ("ClientBody", "ServerBody"))
            return [ctx.model_check(self.MODEL, self.model_constants("quick"), dump=True)] + self._prefix_run(ctx)
        big = ctx.model_check(self.MODEL, self.model_constants("thorough"), dump=False, tag="_big", timeout=1500)
        small = ctx.model_check(self.MODEL, self.model_constants("quick") | {"MaxReqChunks": 1, "MaxRespChunks": 1},
                                dump=True)
        return [small, big] + self._prefix_run(ctx)

    def _prefix_run(self, ctx):
        """Design run: the model of the code as found (FixUpstream = FALSE, BadFrameKept = TRUE) must still reach the
        clauses, i.e. the monitor rejects the two defects that were repaired (it is not vacuous with respect to them)."""
        chunks = {} if ctx.quick else {"MaxReqChunks": 1, "MaxRespChunks": 1}
        pre = ctx.model_check(self.MODEL, self.model_constants("quick") | chunks
                              | {"FixUpstream": False, "BadFrameKept": True}, dump=False, tag="_prefix")
        for need in (["C03.response_and_error", "response_after_error"], ["C03.no_outcome", "after_request", "ValueError"]):
            if need not in pre.bad:
                raise core.MachineryError(f"clause {need} unreachable in the pre-repair model")
        ctx.notes["prefix_model_reaches"] = pre.bad
        pre.bad = []
        return [pre]

    # --- behaviours -> scenarios -----------------------------------------------------------------------
    @staticmethod
    def _ops(beh):
        return [[name, (args[0] if args else "")] if name != "OpenDone" else [name, "ok" if args[0] else "fail"]
                for name, args, _st in beh[1:]]

    @staticmethod
    def _to_quiescence(g, rng):
        """For every node the next edge on a shortest path to a terminal (Quiesce) state."""
        pred: dict[int, list] = {}
        terminal = []
        for n, succ in g.succ.items():
            for idx, (name, _a, nxt) in enumerate(succ):
                pred.setdefault(nxt, []).append((n, idx))
                if name == "Quiesce":
                    terminal.append(nxt)
        nxt_edge: dict[int, int] = {}
        dq = deque(terminal)
        seen = set(terminal)
        while dq:
            n = dq.popleft()
            for p, idx in pred.get(n, []):
                if p not in seen:
                    seen.add(p)
                    nxt_edge[p] = idx
                    dq.append(p)
        return nxt_edge, seen

    def _extend(self, g, beh_nodes, nxt_edge):
        """beh_nodes: list of (name,args,node); follow nxt_edge to a terminal state."""
        path = list(beh_nodes)
        cur = path[-1][2]
        guard = 0
        while cur in nxt_edge and guard < 200:
            name, args, nx = g.succ[cur][nxt_edge[cur]]
            path.append((name, args, nx))
            cur = nx
            guard += 1
        return path

    def scenarios(self, ctx, models):
        g = models[0].graph
        nxt_edge, _ = self._to_quiescence(g, ctx.rng)
        # graph.edge_cover/random_walks return parsed states; we need node ids to extend, so redo them on node level
        behs = self._node_paths(g, ctx)
        seen = set()
        for path in behs:
            full = self._extend(g, path, nxt_edge)
            beh = [(n, a, g.state(nid)) for n, a, nid in full]
            ops = self._ops(beh)
            key = repr(ops)
            if key in seen:
                continue
            seen.add(key)
            pred = core.predicted_events(beh)
            if not ops or ops[-1][0] != "Quiesce":
                pred = pred + [{"k": "end"}]
            yield core.Scenario({"ops": ops}, predicted=pred, source="model")
        if not ctx.quick:
            big = self.model_constants("thorough")
            behs2, _r = ctx.simulate(self.MODEL, big, num=4000, depth=60)
            for b in behs2:
                ops = self._ops(b)
                pred = core.predicted_events(b)
                if not ops or ops[-1][0] != "Quiesce":
                    pred = pred + [{"k": "end"}]
                yield core.Scenario({"ops": ops}, predicted=pred, source="simulate")
        rng = random.Random(ctx.seed + 3)
        for _ in range(600 if ctx.quick else 10000):
            yield core.Scenario({"ops": None, "seed": rng.randrange(1 << 30), "n": rng.randint(8, 40),
                                 "nflows": rng.choice([1, 1, 2, 3, 4])}, source="random")

    def _node_paths(self, g, ctx):
        """Edge cover on node level: every transition of the dumped graph is taken by at least one path (shortest
        prefix to an uncovered edge, then uncovered edges as long as there are any), plus random walks."""
        rng = ctx.rng
        parent: dict[int, tuple | None] = {}
        order = []
        dq = deque()
        for i in g.init:
            parent[i] = None
            dq.append(i)
        while dq:
            n = dq.popleft()
            order.append(n)
            for name, args, nx in g.succ.get(n, []):
                if nx not in parent:
                    parent[nx] = (n, name, args)
                    dq.append(nx)

        def prefix(n):
            p = []
            while parent[n] is not None:
                pn, name, args = parent[n]
                p.append((name, args, n))
                n = pn
            p.append(("Init", (), n))
            p.reverse()
            return p

        covered = set()
        out = []
        for n in order:
            for idx, (name, args, nx) in enumerate(g.succ.get(n, [])):
                if (n, idx) in covered:
                    continue
                covered.add((n, idx))
                path = prefix(n) + [(name, args, nx)]
                cur = nx
                for _ in range(self.TAIL):
                    succ = g.succ.get(cur, [])
                    fresh = [k for k in range(len(succ)) if (cur, k) not in covered]
                    if not fresh:
                        break
                    k = rng.choice(fresh)
                    covered.add((cur, k))
                    nm, ar, nx2 = succ[k]
                    path.append((nm, ar, nx2))
                    cur = nx2
                out.append(path)
        for _ in range(300 if ctx.quick else 3000):
            cur = rng.choice(g.init)
            path = [("Init", (), cur)]
            while len(path) < 40:
                succ = g.succ.get(cur, [])
                if not succ:
                    break
                nm, ar, nx = rng.choice(succ)
                path.append((nm, ar, nx))
                cur = nx
            out.append(path)
        return out

    TAIL = 30

    def execute(self, sc):
        if sc.get("ops") is None:
            tr, ops = run_random(sc["seed"], sc["n"], sc.get("nflows", 1))
            return tr
        return run_ops(sc["ops"])
