"""C37 -- flow files are crash-consistent.

Model: spec/FlowFile/FlowCrash.tla   Monitor: Mon_FlowCrash.tla
Real code: mitmproxy.io.FlowWriter / FilteredFlowWriter / FlowReader (+ tnetstring.load), and the Save addon
(mitmproxy/addons/save.py) writing a real file under the check's scratch directory.
"""
from __future__ import annotations

import datetime as _dt
import os
import random
import shutil
import tempfile

from vf import core
from vf import flowgen as fg

KINDS = fg.KINDS
QUICK_KINDS = ("httpresp", "tcp")
PARTS = ("boundary", "digits", "colon", "after_colon", "payload", "tag")
CODE = {p: i for i, p in enumerate(PARTS)}
OUTER_MAPPED = frozenset({"ValueError", "TypeError", "IndexError", "RecursionError"})  # io.py outer handler

START_HOOK = {"http": "request", "httpresp": "request", "httperr": "request", "ws": "request", "tcp": "tcp_start",
              "tcperr": "tcp_start", "udp": "udp_start", "dns": "dns_request", "dnsresp": "dns_request"}
FINISH_HOOKS = {"http": ("error",), "httpresp": ("response",), "httperr": ("error",), "ws": ("response", "websocket_end"),
                "tcp": ("tcp_end",), "tcperr": ("tcp_error",), "udp": ("udp_end",), "dns": ("dns_error",),
                "dnsresp": ("dns_response",)}

ERROR_HOOK = {"http": "error", "tcp": "tcp_error", "udp": "udp_error", "dns": "dns_error"}
_SCRATCH = None


def _scratch() -> str:
    global _SCRATCH
    if _SCRATCH is None or not os.path.isdir(_SCRATCH):
        base = "/verif/.scratch"
        os.makedirs(base, exist_ok=True)
        _SCRATCH = tempfile.mkdtemp(prefix="c37-%d-" % os.getpid(), dir=base)
    return _SCRATCH


def classify(image: bytes, ends: list[int], o: int) -> str:
    """Which framing part of which record the cut offset o falls into (reference framing, not mitmproxy's)."""
    start = 0
    for e in ends:
        if o == start:
            return "boundary"
        if o < e:
            parts = fg.record_parts(image, start, e)
            c = parts["colon"]
            if o < c:
                return "digits"
            if o == c:
                return "colon"
            if o == c + 1:
                return "after_colon"
            if o == e - 1:
                return "tag"
            return "payload"
        start = e
    return "boundary" if o == start else "payload"


def offset_for(image: bytes, ends: list[int], n: int, part: str, rng: random.Random):
    start = ends[n - 1] if n > 0 else 0
    if part == "boundary":
        return start
    if n >= len(ends):
        return None
    parts = fg.record_parts(image, start, ends[n])
    c = parts["colon"]
    if part == "digits":
        return rng.randint(start + 1, c - 1) if c - start > 1 else None
    if part == "colon":
        return c
    if part == "after_colon":
        return c + 1
    if part == "tag":
        return ends[n] - 1
    return rng.randint(c + 2, ends[n] - 2) if ends[n] - c > 4 else None


class _Run:
    """One file being written by the real code, with the bookkeeping the projection needs."""

    def __init__(self, sc, trace):
        self.sc = sc
        self.trace = trace
        self.rng = random.Random(sc["seed"])
        self.intern = fg.Interner()
        self.dir = tempfile.mkdtemp(prefix="run-", dir=_scratch())
        self.path = os.path.join(self.dir, "flows.mitm")
        self.spec = "literal"          # kind of save_stream_file: literal path | strftime pattern
        self.pattern = os.path.join(self.dir, "flows-100%%-%Y%m%d-%H.mitm")
        self.clock = _dt.datetime(2020, 1, 1, 10, 0, 0)   # the harness's fake clock behind save.datetime.today()
        self.files: list[str] = []     # the files of this stream, in the order the harness expects them to be opened
        self._saved_dt = None
        self.ends: list[int] = []  # record end offsets announced in `written` events
        self.sid_by_flow_id: dict[str, int] = {}
        self.sid_by_state: dict[str, int] = {}
        self.is_open = False
        self.nopen = 0
        self.kind_by_flow_id: dict[str, str] = {}
        self.fo = None
        self.writer = None
        self.tctx = None
        self.sa = None
        self.flows = []  # stream mode: (flow, kind, state)
        self.closed = False

    # -- explicit save -------------------------------------------------------------------------------------
    def save_add(self, kind):
        from mitmproxy.io import FlowWriter

        if self.fo is None:
            self.fo = open(self.path, "wb")  # as Save.save does
            self.writer = FlowWriter(self.fo)
        f = fg.make_flow(kind, self.rng, rich=self.sc.get("rich", True), small=self.sc.get("small", True))
        sid = self.intern(fg.safe_key(f))
        try:
            self.writer.add(f)
        except Exception as e:  # noqa: BLE001
            self.trace.append({"k": "raised", "exc": type(e).__name__})
            return False
        to = self.fo.tell()
        self.ends.append(to)
        self.trace.append({"k": "written", "s": sid, "t": kind, "to": to})
        return True

    def save_cmd(self, kinds, append=False):
        """The explicit save as the user triggers it: the real `save.file` command of the Save addon.  Record ends are
        then found in the written file with the reference framing (the command gives no per-flow position)."""
        from mitmproxy.addons import save
        from mitmproxy.test import taddons

        flows = []
        for kind in kinds:
            f = fg.make_flow(kind, self.rng, rich=self.sc.get("rich", True), small=self.sc.get("small", True))
            self._sid(f)
            self.kind_by_flow_id[f.id] = kind
            flows.append(f)
        sa = save.Save()
        with taddons.context(sa):
            try:
                sa.save(flows, ("+" if append else "") + self.path)
            except Exception as e:  # noqa: BLE001
                self.trace.append({"k": "raised", "exc": type(e).__name__})
                return False
        self._observe_new_records()
        return True

    def save_close(self):
        if self.fo is not None and not self.fo.closed:
            self.fo.close()

    # -- stream saving through the Save addon ----------------------------------------------------------------
    def ensure_addon(self):
        from mitmproxy.addons import save
        from mitmproxy.test import taddons

        if self.sa is None:
            self.sa = save.Save()
            self.tctx = taddons.context(self.sa)

    def cur_file(self) -> str:
        """The file the spec names at the harness's clock (own strftime, not the addon's)."""
        f = self.path if self.spec == "literal" else self.clock.strftime(self.pattern)
        if f not in self.files:
            self.files.append(f)
        return f

    def _install_clock(self):
        """save.py reads the wall clock through its module attribute `datetime`; give it the harness's clock."""
        from mitmproxy.addons import save

        run = self

        class _Clock(_dt.datetime):
            @classmethod
            def today(cls):
                return run.clock

            @classmethod
            def now(cls, tz=None):
                return run.clock

        if self._saved_dt is None:
            self._saved_dt = (save, getattr(save, "datetime", None))
            save.datetime = _Clock

    def stream_open(self, append=False):
        """Option update save_stream_file = spec ("+spec" when resuming / appending)."""
        self.ensure_addon()
        self._install_clock()
        self.cur_file()
        spec = self.path if self.spec == "literal" else self.pattern
        self.tctx.configure(self.sa, save_stream_file=("+" if append else "") + spec)
        self.is_open = True
        self.nopen += 1

    def tick(self):
        if self.sa is None or self.nopen == 0:
            return False
        self.clock = self.clock + _dt.timedelta(hours=1)
        self._observe_new_records()
        self.trace.append({"k": "hook", "name": "tick"})
        self._disk()
        return True

    def _stream_image(self) -> bytes:
        out = b""
        for f in self.files:
            if os.path.exists(f):
                with open(f, "rb") as fh:
                    out += fh.read()
        return out

    def open(self, spec="literal"):
        if self.is_open or (self.nopen > 0 and spec != self.spec):
            return False
        resume = self.nopen > 0
        self.spec = spec
        self.stream_open(append=resume)
        self._observe_new_records()
        self.trace.append({"k": "hook", "name": "resume" if resume else "open", "spec": spec})
        self._disk()
        return True

    def _sid(self, f) -> int:
        """State id of the flow as it is NOW; remembered by canonical state so that records found on disk with the
        reference codec can be attributed to the state they were written with."""
        sid = self.intern(fg.safe_key(f))
        self.sid_by_state[fg.canon(f.get_state())] = sid
        return sid

    def _observe_new_records(self):
        """`written` events for the complete records that appeared ON DISK since the last look (reference framing)."""
        if self.fo is None:
            self.cur_file()  # a rotation may have happened inside the hook: the file the spec names now is expected
        image = self._stream_image()
        known = self.ends[-1] if self.ends else 0
        recs, _stop = fg.ref_records(image[known:])
        for a, b in recs:
            fid, sid = None, None
            try:
                tree = fg.ref_parse(image[known + a: known + b])
                fid = tree.get("id")
                sid = self.sid_by_state.get(fg.canon(tree))
            except Exception:  # noqa: BLE001
                pass
            if sid is None:
                sid = self.intern("unknown-record:%r:%d" % (fid, known + b))
            self.ends.append(known + b)
            self.trace.append({"k": "written", "s": sid, "t": self.kind_by_flow_id.get(fid, "unknown"), "to": known + b})

    def _disk(self):
        """What a reader finds on disk right now: the files of the stream in the order they were opened."""
        self.cur_file()
        ids, end, exc, seen = [], "clean", "", False
        for f in self.files:
            if not os.path.exists(f):
                continue
            seen = True
            with open(f, "rb") as fh:
                i2, e2, x2 = fg.read_image(fh, self.intern)
            ids += i2
            if e2 != "clean" and end != "other":
                end, exc = e2, x2
        if seen:
            self.trace.append({"k": "disk", "ids": ids, "end": end, "exc": exc})

    def start(self, kind, hook=True):
        self.ensure_addon()
        f = fg.make_flow(kind, self.rng, rich=self.sc.get("rich", True), small=self.sc.get("small", True))
        f.live = True
        if kind not in ("httperr", "tcperr") and f.error is not None:
            f.error = None  # the error, if any, arrives with the second completion
        self._sid(f)
        self.kind_by_flow_id[f.id] = kind
        self.flows.append([f, kind, "active" if self.is_open else "early"])
        if hook:
            getattr(self.sa, START_HOOK[kind])(f)
        self._observe_new_records()
        self.trace.append({"k": "hook", "name": "start" if self.is_open else "early_start"})
        if self.nopen > 0:
            self._disk()

    def finish(self, i):
        if self.sa is None or not self.is_open or not (1 <= i <= len(self.flows)) \
                or self.flows[i - 1][2] not in ("active", "early", "stopped"):
            return False
        f, kind, _ = self.flows[i - 1]
        f.metadata["completed"] = "first"  # the flow is not what it was at its start hook (the response arrived)
        sid = self._sid(f)
        for h in FINISH_HOOKS[kind]:
            getattr(self.sa, h)(f)
        self.flows[i - 1][2] = "finished"
        self._observe_new_records()
        self.trace.append({"k": "finished", "s": sid, "t": kind})
        self._disk()
        return True

    def refinish(self, i):
        """A second completion of the same flow: the error hook after the response/end hook."""
        from mitmproxy import flow

        if self.sa is None or not self.is_open or not (1 <= i <= len(self.flows)) or self.flows[i - 1][2] != "finished":
            return False
        f, kind, _ = self.flows[i - 1]
        f.error = flow.Error("connection lost after the response", 946681299.0)
        f.metadata["completed"] = "second"
        sid = self._sid(f)
        getattr(self.sa, ERROR_HOOK[fg.FLOW_TYPE[kind]])(f)
        self.flows[i - 1][2] = "finished2"
        self._observe_new_records()
        self.trace.append({"k": "hook", "name": "second_completion"})
        self.trace.append({"k": "finished", "s": sid, "t": kind})
        self._disk()
        return True

    def done(self):
        if self.sa is None or not self.is_open:
            return False
        self.tctx.configure(self.sa, save_stream_file=None)
        self.is_open = False
        for fl in self.flows:
            if fl[2] == "active":
                fl[2] = "stopped"
        self._observe_new_records()
        self.trace.append({"k": "hook", "name": "done"})
        self._disk()
        return True

    def pre_existing(self, kinds):
        """A complete file written earlier (explicit save); the stream is then opened in append mode."""
        from mitmproxy.io import FlowWriter

        with open(self.cur_file(), "wb") as fo:
            w = FlowWriter(fo)
            for kind in kinds:
                f = fg.make_flow(kind, self.rng, rich=True, small=True)
                sid = self._sid(f)
                w.add(f)
                self.ends.append(fo.tell())
                self.trace.append({"k": "written", "s": sid, "t": kind, "to": self.ends[-1]})
                self.trace.append({"k": "finished", "s": sid, "t": kind})
        self.stream_open(append=True)
        self.trace.append({"k": "hook", "name": "open", "spec": self.spec})
        self._disk()

    # -- crash images ------------------------------------------------------------------------------------------
    def image(self) -> bytes:
        """The logical byte stream handed to the file so far (for an explicit save: buffer flushed)."""
        if self.fo is not None and not self.fo.closed:
            self.fo.flush()
        if self.sa is not None and self.files:
            return self._stream_image()
        if not os.path.exists(self.path):
            return b""
        with open(self.path, "rb") as fh:
            return fh.read()

    def recover_file(self, image: bytes, o: int):
        p = os.path.join(self.dir, "crashed.mitm")
        with open(p, "wb") as fh:
            fh.write(image[:o])
        with open(p, "rb") as fh:
            return fg.read_image(fh, self.intern)

    def cleanup(self):
        try:
            if self.fo is not None and not self.fo.closed:
                self.fo.close()
            if self.sa is not None and self.is_open:
                self.tctx.configure(self.sa, save_stream_file=None)
            if self.tctx is not None:
                self.tctx.__exit__(None, None, None)
        finally:
            if self._saved_dt is not None:
                mod, orig = self._saved_dt
                if orig is not None:
                    mod.datetime = orig
            shutil.rmtree(self.dir, ignore_errors=True)


class Check(core.PropertyCheck):
    ID = "C37"
    SPEC_DIR = "FlowFile"
    MODEL = "FlowCrash"
    MON = "Mon_FlowCrash"
    REQUIRED_WITNESSES = ("crash_zero", "crash_boundary", "crash_mid", "crash_mid_after_complete", "recover_clean",
                          "recover_fre", "recover_some_then_fre", "disk_check", "disk_with_finished", "stream_finish",
                          "open", "resume", "start", "early_start", "second_completion", "done", "literal", "pattern",
                          "tick") + KINDS
    REQUIRED_ACTIONS = ("OpenStream", "Start", "Finish", "Done")  # per model run; the others: see REQUIRED_WITNESSES
    PROCS = 4
    LEVEL_NOTE = ("crash = truncation of the byte stream; the model enumerates framing parts per record, the harness sweeps every byte offset of sampled files; no fsync/torn-block claim")
    ASSUMPTIONS = (
        "a crash is a truncation of the byte stream the writer handed to the file object (no torn or reordered "
        "blocks, no garbage tail); the stream of an explicit save is what reaches the disk after flush/close",
        "record ends are f.tell() after FlowWriter.add (explicit save) or found on disk with the harness's own "
        "typed-netstring framing after each Save-addon hook (stream); flows are identified by interned state",
        "`on disk` is what an independent open(path,'rb') of the stream file returns right after the hook returned "
        "(page cache = disk: no fsync claim)",
    )

    def setup(self, ctx):
        global _SCRATCH
        _SCRATCH = str(ctx.scratch / "files")  # removed with ctx.scratch at exit
        os.makedirs(_SCRATCH, exist_ok=True)

    def mon_constants(self, tier):
        return {}

    def model_constants(self, tier):
        both = frozenset({"save", "stream"})
        base = {"Modes": both, "MaxOpen": 1, "AllowRefinish": False, "OuterMapped": OUTER_MAPPED,
                "PathSpecs": frozenset({"literal"}), "MaxRotate": 0}
        pat = {"PathSpecs": frozenset({"literal", "pattern"}), "MaxRotate": 1}
        if tier == "quick":        # crash half: every framing part of every record; streaming switched on once
            return base | {"Kinds": frozenset(QUICK_KINDS), "MaxFlows": 2, "MaxCrash": 1}
        if tier == "quick_life":   # stream life cycle: early starts, stop + resume, second completion; no crashes
            return base | {"Kinds": frozenset(("httpresp", "tcp")), "Modes": frozenset({"stream"}), "MaxFlows": 2,
                           "MaxCrash": 0, "MaxOpen": 2, "AllowRefinish": True}
        if tier == "quick_pat":    # strftime pattern as file spec, the clock moves once (rotation); stop + resume
            return base | {"Kinds": frozenset(("httpresp", "tcp")), "Modes": frozenset({"stream"}), "MaxFlows": 2,
                           "MaxCrash": 0, "MaxOpen": 2, "PathSpecs": frozenset({"pattern"}), "MaxRotate": 1}
        if tier == "dumped":
            return base | {"Kinds": frozenset(("httpresp", "ws", "tcp", "udp", "dnsresp")), "MaxFlows": 2, "MaxCrash": 1}
        if tier == "life":  # no ws here: Save.error ignores WebSocket flows (they complete with websocket_end only)
            return base | {"Kinds": frozenset(("httpresp", "httperr", "tcp", "udp", "dnsresp")), "Modes": frozenset({"stream"}),
                           "MaxFlows": 2, "MaxCrash": 0, "MaxOpen": 2, "AllowRefinish": True} | pat
        if tier == "sim":
            return base | {"Kinds": frozenset(k for k in KINDS if k != "ws"), "MaxFlows": 4, "MaxCrash": 2, "MaxOpen": 2, "AllowRefinish": True} | pat
        if tier == "life_big":     # exhaustive, not dumped
            return base | {"Kinds": frozenset(("httpresp", "tcp", "dnsresp")), "Modes": frozenset({"stream"}), "MaxFlows": 3,
                           "MaxCrash": 0, "MaxOpen": 2, "AllowRefinish": True} | pat
        return base | {"Kinds": frozenset(("httpresp", "ws", "tcp", "dnsresp")), "MaxFlows": 3, "MaxCrash": 1}  # not dumped

    def model_runs(self, ctx):
        if ctx.quick:
            return [ctx.model_check(self.MODEL, self.model_constants("quick"), dump=True, timeout=900),
                    ctx.model_check(self.MODEL, self.model_constants("quick_life"), dump=True, timeout=900, tag="_life"),
                    ctx.model_check(self.MODEL, self.model_constants("quick_pat"), dump=True, timeout=900, tag="_pat")]
        big = ctx.model_check(self.MODEL, self.model_constants("thorough"), dump=False, tag="_big")
        small = ctx.model_check(self.MODEL, self.model_constants("dumped"), dump=True, timeout=1500)
        life = ctx.model_check(self.MODEL, self.model_constants("life"), dump=True, timeout=1500, tag="_life")
        life_big = ctx.model_check(self.MODEL, self.model_constants("life_big"), dump=False, tag="_lifebig")
        return [small, life, big, life_big]

    @staticmethod
    def _ops(beh):
        ops = []
        mode = beh[0][2].get("mode")
        for name, args, _st in beh[1:]:
            if name == "SaveAdd":
                ops.append(["save_add", args[0]])
            elif name == "SaveClose":
                ops.append(["save_close"])
            elif name == "OpenStream":
                ops.append(["open", args[0]])
            elif name == "Tick":
                ops.append(["tick"])
            elif name == "Refinish":
                ops.append(["refinish", args[0]])
            elif name == "Start":
                ops.append(["start", args[0]])
            elif name == "Finish":
                ops.append(["finish", args[0]])
            elif name == "Done":
                ops.append(["done"])
            elif name == "Crash":
                ops.append(["crash", args[0], args[1]])
            elif name == "Recover":
                ops.append(["recover"])
        return mode, ops

    def scenarios(self, ctx, models):
        rng = random.Random(ctx.seed + 37)
        behs = models[0].graph.edge_cover(ctx.rng, max_len=16, tail=4)
        for m in models[1:]:
            if m.graph is not None:
                behs += m.graph.edge_cover(ctx.rng, max_len=20, tail=6)
        for b in behs:
            mode, ops = self._ops(b)
            if not ops:
                continue
            yield core.Scenario({"seed": rng.randrange(1 << 30), "mode": mode, "ops": ops},
                                predicted=core.predicted_events(b), source="model")
        if not ctx.quick:
            behs2, _r = ctx.simulate(self.MODEL, self.model_constants("sim"), num=3000, depth=16)
            for b in behs2:
                mode, ops = self._ops(b)
                if ops:
                    yield core.Scenario({"seed": rng.randrange(1 << 30), "mode": mode, "ops": ops},
                                        predicted=core.predicted_events(b), source="simulate")
        # every byte offset of files holding one flow of each kind, and of mixed files (beyond the model: the
        # model enumerates framing parts, the sweep enumerates bytes)
        if ctx.quick:  # lean single-flow files of every kind (explicit save) + one rich mixed stream file
            plan = [([k], "save", False) for k in KINDS] + [(["ws", "tcperr", "dnsresp"], "stream", True),
                                                            (["httpresp", "udp"], "savecmd", False)]
        else:
            plan = [([k], "save", True) for k in KINDS] + [([k], "stream", True) for k in ("httpresp", "ws", "tcperr", "udp")]
            plan += [([rng.choice(KINDS) for _ in range(n)], m, True) for n in (2, 3, 6)
                     for m in ("save", "stream", "savecmd")]
        for kinds, mode, rich in plan:
            seed = rng.randrange(1 << 30)
            K = (3 if not rich else 8) * len(kinds)
            for j in range(K):
                yield core.Scenario({"seed": seed, "mode": mode, "kinds": kinds, "sweep": [j, K], "rich": rich,
                                     "small": True}, source="sweep")
        # random stream histories: more flows, several active at done, append onto an existing file, random cuts
        for _ in range(120 if ctx.quick else 1500):
            yield core.Scenario({"seed": rng.randrange(1 << 30), "mode": "stream", "random": rng.randint(2, 6),
                                 "append": rng.random() < 0.3, "spec": rng.choice(["literal", "pattern"])},
                                source="random")

    # ----------------------------------------------------------------------------------------------------------
    def execute(self, sc):
        trace: list[dict] = []
        run = _Run(sc, trace)
        try:
            if "sweep" in sc:
                self._sweep(sc, run, trace)
            elif "random" in sc:
                self._random(sc, run, trace)
            else:
                self._ops_run(sc, run, trace)
        finally:
            run.cleanup()
        return trace

    def _ops_run(self, sc, run, trace):
        pending = None
        for op in sc["ops"]:
            if op[0] == "save_add":
                if not run.save_add(op[1]):
                    return
            elif op[0] == "save_close":
                run.save_close()
            elif op[0] == "open":
                if not run.open(op[1] if len(op) > 1 else "literal"):
                    return
            elif op[0] == "tick":
                if not run.tick():
                    return
            elif op[0] == "start":
                run.start(op[1])
            elif op[0] == "refinish":
                if not run.refinish(op[1]):
                    return
            elif op[0] == "finish":
                if not run.finish(op[1]):
                    return  # not enabled on the real object: judge what was observed so far
            elif op[0] == "done":
                if not run.done():
                    return
            elif op[0] == "crash":
                image = run.image()
                o = offset_for(image, run.ends, op[1], op[2], run.rng) if op[1] <= len(run.ends) else None
                if o is None or o > len(image):
                    return
                pending = (image, o)
                trace.append({"k": "crash", "at": o, "part": classify(image, run.ends, o)})
            elif op[0] == "recover":
                if pending is None:
                    return
                ids, end, exc = run.recover_file(*pending)
                trace.append({"k": "recover", "ids": ids, "end": end, "exc": exc})
                pending = None

    def _sweep(self, sc, run, trace):
        kinds = sc["kinds"]
        if sc["mode"] == "save":
            for k in kinds:
                if not run.save_add(k):
                    return
            run.save_close()
        elif sc["mode"] == "savecmd":
            if not run.save_cmd(kinds):
                return
        else:
            run.open(sc.get("spec", "pattern"))
            for i, k in enumerate(kinds):
                run.start(k)
                run.finish(i + 1)
            run.done()
        image = run.image()
        j, K = sc["sweep"]
        n = len(image)
        lo, hi = n * j // K, n * (j + 1) // K
        offs = list(range(lo, hi)) + ([n] if j == K - 1 else [])
        for o in offs:
            trace.append({"k": "crash", "at": o, "part": classify(image, run.ends, o)})
            ids, end, exc = fg.read_image(image[:o], run.intern)
            trace.append({"k": "recover", "ids": ids, "end": end, "exc": exc})

    def _random(self, sc, run, trace):
        """Random hook histories: flows that start before streaming is enabled or while it is stopped, flows with no
        start hook at all, stop + resume (append), several active flows at a stop, error after response."""
        rng = run.rng
        run.spec = sc.get("spec", "literal")
        if sc.get("append"):
            run.pre_existing([rng.choice(KINDS) for _ in range(rng.randint(1, 2))])
        n = sc["random"]
        started = 0
        for _ in range(4 * n + 4):
            live = [i + 1 for i, f in enumerate(run.flows) if f[2] in ("active", "early", "stopped")]
            fin = [i + 1 for i, f in enumerate(run.flows) if f[2] == "finished" and f[1] != "ws"]
            choices = []
            if started < n:
                choices += ["start", "start", "silent_start"]
            if run.is_open:
                choices += [("finish", i) for i in live] * 2 + [("refinish", i) for i in fin]
                if run.nopen < 3:
                    choices.append("done")
            elif run.nopen < 3:
                choices += ["open", "open"]
            if run.spec == "pattern" and run.nopen > 0 and run.clock.hour < 13:
                choices.append("tick")
            if not choices:
                break
            c = rng.choice(choices)
            if c == "start":
                started += 1
                run.start(rng.choice(KINDS))
            elif c == "silent_start":  # the flow exists but its start hook never reaches the addon
                started += 1
                run.start(rng.choice(KINDS), hook=False)
                run.flows[-1][2] = "early"
            elif c == "open":
                run.open(run.spec)
            elif c == "tick":
                run.tick()
            elif c == "done":
                run.done()
            elif c[0] == "finish":
                run.finish(c[1])
            else:
                run.refinish(c[1])
        if run.sa is None or run.nopen == 0:
            return
        if run.is_open and rng.random() < 0.8:
            run.done()
        image = run.image()
        for _ in range(12):
            o = rng.choice([rng.randint(0, len(image)), rng.choice([0] + run.ends), max(0, rng.choice([0] + run.ends) - 1)])
            trace.append({"k": "crash", "at": o, "part": classify(image, run.ends, o)})
            ids, end, exc = run.recover_file(image, o)
            trace.append({"k": "recover", "ids": ids, "end": end, "exc": exc})

    # ----------------------------------------------------------------------------------------------------------
    def drift_view(self, trace):
        """Byte offsets -> the model's abstract units (6 per record; crash = 6*complete + code(part))."""
        out, ends = [], []
        for ev in trace:
            ev = dict(ev)
            if ev.get("k") == "written":
                ends.append(ev["to"])
                ev["to"] = 6 * len(ends)
            elif ev.get("k") == "crash":
                n = sum(1 for e in ends if e <= ev["at"])
                ev["at"] = 6 * n + CODE.get(ev.get("part"), 0)
            out.append(ev)
        return out
