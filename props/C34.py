"""C34 -- query, cookie, form and path views are lossless.

Model: spec/Views/Views.tla   Monitor: Mon_Views.tla
Real code: mitmproxy.http.Request.query / cookies / urlencoded_form / multipart_form / path_components and
Response.cookies (+ net.http.url / cookies / multipart, coretypes.multidict.MultiDictView).
Oracles: lib/vf/viewsref.py (hand-written reference decoders of the wire formats, independent of mitmproxy).
"""
from __future__ import annotations

import gzip
import random

from vf import core, viewsref

VIEWS = ("query", "cookies", "rcookies", "urlenc", "multipart", "path")
ATTR = {"query": "query", "cookies": "cookies", "rcookies": "cookies", "urlenc": "urlencoded_form",
        "multipart": "multipart_form", "path": "path_components"}

# ---- concretisation tables: id -> (class, text) -------------------------------------------------------------------
VAL = {
    1: ("plain", "abc"), 2: ("empty", ""), 3: ("sep", "a&b=c"), 4: ("sep2", "x;y,z"), 5: ("dq", 'say "hi"'),
    6: ("sq", "it's"), 7: ("crlf", "c1\r\nc2"), 8: ("lf", "n1\nn2"), 9: ("space_edges", " pad "),
    10: ("non_ascii", "é日本"), 11: ("binary", "a\udcff\udc80b"), 12: ("percent", "%41%zz+"), 13: ("backslash", "a\\b\\"),
    14: ("slash", "a/b?c#d"), 15: ("long", "L" * 2000), 16: ("plain", "v2"), 17: ("cr", "r1\rr2"), 18: ("dashes", "--x--"),
    19: ("quoted", '"q"'), 20: ("space_in", "a b"), 21: ("dot", "."), 22: ("dotdot", ".."), 23: ("trailing_crlf", "t1\r\n"),
    # what the code is known to read back for some of the above (model constant LossyVal)
    107: ("derived", "c1c2"), 108: ("derived", "n1n2"), 117: ("derived", "r1r2"), 123: ("derived", "t1"),
}
KEY = {
    0: ("plain", ""),  # path components have no key
    51: ("plain", "k1"), 52: ("plain", "k2"), 53: ("non_ascii", "ké"), 54: ("space_in", "k 3"), 55: ("empty", ""),
    56: ("sep", "a&b=c;d"), 57: ("dq", 'k"q'), 58: ("crlf", "k\r\nx"),
}
# response cookies: value id -> (class, value text id, attributes)
RC = {
    201: ("plain", 1, ()), 202: ("dq", 5, (("Path", "/"), ("HttpOnly", None))),
    203: ("empty", 2, (("Expires", "Thu, 01 Jan 2037 00:00:00 GMT"), ("Max-Age", "0"))),
    204: ("sep2", 4, (("Domain", "example.com"), ("Secure", None), ("SameSite", "Lax"))),
    205: ("non_ascii", 10, ()), 206: ("space_edges", 9, (("Path", "/a b"),)), 207: ("backslash", 13, ()),
    208: ("plain", 16, (("path", "/x"), ("PATH", "/y"))), 209: ("space_in", 20, ()), 210: ("percent", 12, ()),
    211: ("binary", 11, (("Path", "/"),)), 212: ("quoted", 19, ()), 213: ("sep", 3, ()),
}
LINEBREAK = {7, 8, 17, 23}
REP_KEYS = {"query": {51, 52, 53, 54, 55, 56, 57, 58}, "urlenc": {51, 52, 53, 54, 55, 56, 57, 58}, "cookies": {51, 52},
            "rcookies": {51, 52}, "multipart": {51, 52, 53, 54, 56}, "path": {0}}
_ALLV = set(range(1, 24))
REP_VALS = {"query": _ALLV, "urlenc": _ALLV, "cookies": _ALLV - LINEBREAK, "rcookies": set(RC), "multipart": _ALLV,
            "path": _ALLV}
# known deviations of the code (findings_proposed/C34.md); the model needs them to predict what is read back
LOSSY_VAL = frozenset(("multipart", a, b) for a, b in ((7, 107), (8, 108), (17, 117), (23, 123)))
DROPPED = frozenset({("path", 2)})

RKEY = {t: i for i, (_c, t) in KEY.items() if i != 0}
RVAL = {t: i for i, (_c, t) in VAL.items()}
RRC = {(VAL[v][1], a): i for i, (_c, v, a) in RC.items()}


def _b(s: str) -> bytes:
    return s.encode("utf-8", "surrogateescape")


def _s(x) -> str:
    return x.decode("utf-8", "surrogateescape") if isinstance(x, bytes) else x


class _Ids:
    """strings observed on the real object -> ids (table ids, or fresh ones >= 1000 in first-seen order)."""

    def __init__(self, extra=None):
        self.fresh = {}
        self.extra = extra or {}  # scenario-specific strings (random driver): text -> id

    def _f(self, kind, t):
        return self.fresh.setdefault((kind, t), 1000 + len(self.fresh))

    def key(self, k):
        k = _s(k)
        if not isinstance(k, str):
            return self._f("k", repr(k))
        if ("k", k) in self.extra:
            return self.extra[("k", k)]
        return RKEY.get(k, None) if k in RKEY else self._f("k", k)

    def val(self, view, v):
        if view == "rcookies":
            try:
                value, attrs = v
                t = (_s(value), tuple((a, b) for a, b in attrs.fields))
            except Exception:
                return self._f("rc", repr(v))
            if ("rc", t) in self.extra:
                return self.extra[("rc", t)]
            return RRC[t] if t in RRC else self._f("rc", t)
        v = _s(v)
        if not isinstance(v, str):
            return self._f("v", repr(v))
        if ("v", v) in self.extra:
            return self.extra[("v", v)]
        return RVAL[v] if v in RVAL else self._f("v", v)

    def read(self, view, fields):
        if view == "path":
            return [[0, self.val(view, c)] for c in fields]
        out = []
        for f in fields:
            try:
                k, v = f
            except Exception:
                out.append([self._f("k", repr(f)), 0])
                continue
            out.append([self.key(k), self.val(view, v)])
        return out


# ---- messages -----------------------------------------------------------------------------------------------------
def _request(path=b"/path", headers=(), content=b"", method=b"POST"):
    from mitmproxy import http

    return http.Request(host="example.com", port=80, method=method, scheme=b"http", authority=b"", path=path,
                        http_version=b"HTTP/1.1",
                        headers=http.Headers([(b"Host", b"example.com"), (b"X-Keep", b"1")] + list(headers)),
                        content=content, trailers=None, timestamp_start=1.0, timestamp_end=2.0)


def _response(headers=()):
    from mitmproxy import http

    return http.Response(http_version=b"HTTP/1.1", status_code=200, reason=b"OK",
                         headers=http.Headers([(b"Server", b"x"), (b"X-Keep", b"1")] + list(headers)),
                         content=b"body", trailers=None, timestamp_start=1.0, timestamp_end=2.0)


def _mp_body(boundary: bytes, parts, eol=b"\r\n"):
    out = b""
    for head, content in parts:
        out += b"--" + boundary + eol + head + eol + eol + content + eol
    return out + b"--" + boundary + b"--" + eol


_CD = b'Content-Disposition: form-data; name="%s"'
B1 = b"----WebKitFormBoundary7MA4YWxkTrZu0gW"
# wire corpus: (view, class, kind, args) ; requests: (path, extra headers, body) ; responses: (extra headers,)
CORPUS = [
    ("query", "simple", (b"/p?a=1&b=2", (), b"")),
    ("query", "no_equals", (b"/p?a=1&b", (), b"")),
    ("query", "empty_segment", (b"/p?a=1&&b=2&", (), b"")),
    ("query", "params_fragment", (b"/p/x;par=1?x=1&y=%C3%A9#frag", (), b"")),
    ("query", "bad_percent", (b"/p?x=%zz&y=%41%4", (), b"")),
    ("query", "semicolon", (b"/p?a=1;b=2", (), b"")),
    ("query", "plus", (b"/p?x=1+2%203&y=a%2Bb", (), b"")),
    ("query", "dup_keys", (b"/p?a=1&a=2&A=3&a=1", (), b"")),
    ("query", "non_utf8", (b"/p?x=%ff%fe&y=%80", (), b"")),
    ("query", "raw_high", (b"/p?x=\xc3\xa9&y=\xe9", (), b"")),
    ("query", "none", (b"/p/q", (), b"")),
    ("query", "double_slash_path", (b"/a//b/?x=1", (), b"")),
    ("query", "equals_only", (b"/p?=&=v&k=", (), b"")),
    ("urlenc", "simple", (b"/f", ((b"Content-Type", b"application/x-www-form-urlencoded"),), b"a=1&b=2")),
    ("urlenc", "no_equals", (b"/f", ((b"Content-Type", b"application/x-www-form-urlencoded"),), b"a=1&b&c")),
    ("urlenc", "bad_percent", (b"/f", ((b"Content-Type", b"application/x-www-form-urlencoded"),), b"a=%zz&b=%4")),
    ("urlenc", "empty_segment", (b"/f", ((b"Content-Type", b"application/x-www-form-urlencoded"),), b"a=1&&b=2&")),
    ("urlenc", "empty_body", (b"/f", ((b"Content-Type", b"application/x-www-form-urlencoded"),), b"")),
    ("urlenc", "plus_utf8", (b"/f", ((b"Content-Type", b"application/x-www-form-urlencoded"),), b"a=1+2&b=%C3%A9&c=%ff")),
    ("urlenc", "charset_param", (b"/f", ((b"Content-Type", b"application/x-www-form-urlencoded; charset=UTF-8"),), b"a=%C3%A9")),
    ("urlenc", "dup_keys", (b"/f", ((b"content-type", b"Application/X-WWW-Form-Urlencoded"),), b"a=1&a=2&b=3&a=1")),
    ("urlenc", "gzip", (b"/f", ((b"Content-Type", b"application/x-www-form-urlencoded"), (b"Content-Encoding", b"gzip")),
                        gzip.compress(b"a=1&b=two+words", mtime=0))),
    ("cookies", "simple", (b"/c", ((b"Cookie", b"a=1; b=2"),), b"")),
    ("cookies", "no_space", (b"/c", ((b"Cookie", b"a=1;b=2"),), b"")),
    ("cookies", "two_headers", (b"/c", ((b"Cookie", b"a=1"), (b"Accept", b"*/*"), (b"cookie", b"b=2; c=3")), b"")),
    ("cookies", "quoted_value", (b"/c", ((b"Cookie", b'a="x y"; b=2'),), b"")),
    ("cookies", "space_in_value", (b"/c", ((b"Cookie", b"a=x y; b=2"),), b"")),
    ("cookies", "name_only", (b"/c", ((b"Cookie", b"a; b=2"),), b"")),
    ("cookies", "empty_pair", (b"/c", ((b"Cookie", b"a=1; ; b=2;"),), b"")),
    ("cookies", "equals_in_value", (b"/c", ((b"Cookie", b"a==b; t=x=y"),), b"")),
    ("cookies", "dup_names", (b"/c", ((b"Cookie", b"A=1; a=2; a=1"),), b"")),
    ("cookies", "utf8", (b"/c", ((b"Cookie", "a=é; b=日本".encode()),), b"")),
    ("cookies", "none", (b"/c", (), b"")),
    ("rcookies", "attrs", (((b"Set-Cookie", b"a=1; Path=/; HttpOnly"),),)),
    ("rcookies", "two_headers", (((b"Set-Cookie", b"a=1"), (b"Vary", b"x"), (b"set-cookie", b"b=2; Secure")),)),
    ("rcookies", "quoted_value", (((b"Set-Cookie", b'a="1 2"; Max-Age=0'),),)),
    ("rcookies", "expires", (((b"Set-Cookie", b"a=1; Expires=Wed, 21 Oct 2037 07:28:00 GMT; Secure"),),)),
    ("rcookies", "empty_value", (((b"Set-Cookie", b"a=; Path=/"),),)),
    ("rcookies", "dup_attr", (((b"Set-Cookie", b"a=1; path=/; PATH=/x"),),)),
    ("rcookies", "equals_in_value", (((b"Set-Cookie", b"a=b=c; SameSite=None"),),)),
    ("rcookies", "none", ((),)),
    ("multipart", "simple", (b"/u", ((b"Content-Type", b"multipart/form-data; boundary=" + B1),),
                             _mp_body(B1, [(_CD % b"a", b"1"), (_CD % b"b", b"two words")]))),
    ("multipart", "file_part", (b"/u", ((b"Content-Type", b"multipart/form-data; boundary=" + B1),),
                                _mp_body(B1, [(_CD % b"a", b"1"),
                                              (b'Content-Disposition: form-data; name="f"; filename="a.txt"\r\nContent-Type: text/plain',
                                               b"file content")]))),
    ("multipart", "crlf_in_value", (b"/u", ((b"Content-Type", b"multipart/form-data; boundary=" + B1),),
                                    _mp_body(B1, [(_CD % b"a", b"line1\r\nline2"), (_CD % b"b", b"2")]))),
    ("multipart", "quoted_boundary", (b"/u", ((b"Content-Type", b'multipart/form-data; boundary="' + B1 + b'"'),),
                                      _mp_body(B1, [(_CD % b"a", b"1")]))),
    ("multipart", "boundary_special", (b"/u", ((b"Content-Type", b"multipart/form-data; boundary=----=_Part_5_1:2"),),
                                       _mp_body(b"----=_Part_5_1:2", [(_CD % b"a", b"1")]))),
    ("multipart", "empty_value", (b"/u", ((b"Content-Type", b"multipart/form-data; boundary=" + B1),),
                                  _mp_body(B1, [(_CD % b"a", b""), (_CD % b"b", b"x")]))),
    ("multipart", "binary_value", (b"/u", ((b"Content-Type", b"multipart/form-data; boundary=" + B1),),
                                   _mp_body(B1, [(_CD % b"a", bytes(c for c in range(256) if c not in (10, 13)))]))),
    ("multipart", "part_content_type", (b"/u", ((b"Content-Type", b"multipart/form-data; boundary=" + B1),),
                                        _mp_body(B1, [(_CD % b"j" + b"\r\nContent-Type: application/json", b'{"x": 1}')]))),
    ("path", "simple", (b"/a/b", (), b"")),
    ("path", "trailing_slash", (b"/a/b/", (), b"")),
    ("path", "double_slash", (b"/a//b", (), b"")),
    ("path", "encoded_slash", (b"/a%2Fb/c%20d", (), b"")),
    ("path", "params_inner", (b"/a;p=1/b", (), b"")),
    ("path", "params_query", (b"/a/b;p=1?x=1&y=2#f", (), b"")),
    ("path", "bad_percent", (b"/%zz/%4", (), b"")),
    ("path", "raw_utf8", (b"/\xc3\xa9/x", (), b"")),
    ("path", "root", (b"/", (), b"")),
    ("path", "dots", (b"/a/./../b", (), b"")),
    ("path", "lower_hex", (b"/a%2fb%c3%a9", (), b"")),
    # targets that START with two slashes: urlparse() of the bare target (instead of the URL) would take the first
    # segment for a network location.  Appended at the end so that the indices in older replay files stay valid.
    ("query", "leading_double_slash", (b"//foo/bar?x=1", (), b"")),
    ("query", "leading_double_slash", (b"///foo/bar?x=1&y=2", (), b"")),
    ("query", "leading_double_slash", (b"//host:80/x?a=1&b", (), b"")),
    ("query", "leading_double_slash", (b"//cdn.example.com/lib.js", (), b"")),
    ("path", "double_slash", (b"//foo/bar", (), b"")),
    ("path", "double_slash", (b"///foo/bar?x=1", (), b"")),
    ("path", "double_slash", (b"//host:80/x", (), b"")),
    ("path", "double_slash", (b"//cdn.example.com/lib.js;v=1?x=1#f", (), b"")),
    # form bodies whose Content-Type declares a charset (no BOMs, no raw high bytes: only what every reader agrees on)
    ("urlenc", "charset_utf16", (b"/f", ((b"Content-Type", b"application/x-www-form-urlencoded; charset=UTF-16LE"),),
                                 "a=1&b=two".encode("utf-16-le"))),
    ("urlenc", "charset_utf16", (b"/f", ((b"content-type", b"application/x-www-form-urlencoded;charset=utf-16be"),),
                                 "k=v&x=%41&y".encode("utf-16-be"))),
    ("urlenc", "charset_latin1", (b"/f", ((b"Content-Type", b"application/x-www-form-urlencoded; charset=ISO-8859-1"),),
                                  b"a=%E9&b=1")),
]


def _build(view, args):
    if view == "rcookies":
        return _response(args[0])
    path, headers, body = args
    return _request(path, headers, body)


# ---- projections by the reference decoders ------------------------------------------------------------------------
def _headers_except(msg, names):
    return tuple((k, v) for k, v in msg.headers.fields if k.lower() not in names)


def _raw_body(msg):
    """Body after removing the content coding with zlib/gzip (not with mitmproxy's codecs)."""
    raw = msg.raw_content or b""
    ce = [v.lower() for k, v in msg.headers.fields if k.lower() == b"content-encoding"]
    if ce == [b"gzip"]:
        try:
            return gzip.decompress(raw)
        except Exception:
            return b"<undecodable>" + raw
    return raw


def project(msg, view):
    """-> (other, meaning): what the view does not own (must stay identical) and the decoded content of what it owns."""
    if view in ("query", "path"):
        p, params, query, frag = viewsref.split_target(msg.data.path)
        rest = (tuple(msg.headers.fields), msg.raw_content)
        if view == "query":
            return (p, params, frag) + rest, [tuple(x) for x in viewsref.urlencoded_pairs(query or b"")]
        segs = viewsref.path_segments(p)
        return (params, query, frag) + rest, [(s,) for s in segs], [(s,) for s in segs if s != b""]
    if view == "cookies":
        hv = [_s(v) for k, v in msg.headers.fields if k.lower() == b"cookie"]
        return (msg.data.path, _headers_except(msg, (b"cookie",)), msg.raw_content), \
            [(_b(k), _b(v)) for k, v in viewsref.cookie_pairs(hv)]
    if view == "rcookies":
        hv = [_s(v) for k, v in msg.headers.fields if k.lower() == b"set-cookie"]
        return (_headers_except(msg, (b"set-cookie",)), msg.raw_content), \
            [(_b(n), _b(v if v is not None else "<none>"), repr(a).encode("utf-8", "surrogateescape"))
             for n, v, a in viewsref.set_cookie_meaning(hv)]
    ct = [_s(v) for k, v in msg.headers.fields if k.lower() == b"content-type"]
    other = (msg.data.path, _headers_except(msg, (b"content-type", b"content-length")))
    if view == "urlenc":
        return other, [tuple(x) for x in viewsref.urlencoded_pairs(viewsref.form_bytes(ct[0] if ct else "", _raw_body(msg)))]
    parts = viewsref.multipart_parts(ct[0] if ct else "", _raw_body(msg))
    return other, ([(b"<unparsable>", _raw_body(msg))] if parts is None else [tuple(p) for p in parts])


def _local_ids(before, after):
    """ids local to one event, first-seen order over (before, after): equality is all the monitor needs."""
    tab = {}

    def i(x):
        return tab.setdefault(x, len(tab) + 1)

    def one(pr):
        other, meaning = pr[0], pr[1]
        d = {"other": i(("other", repr(other))), "meaning": [[i(c) for c in item] for item in meaning]}
        if len(pr) > 2:  # path view: the non-empty segments
            d["core"] = [[i(c) for c in item] for item in pr[2]]
        return d

    return one(before), one(after)


# ---- running a scenario ------------------------------------------------------------------------------------------
def _concrete(view, pairs, texts):
    """pair ids -> the Python value handed to the setter.  texts: scenario-specific id -> text (random driver)."""
    from mitmproxy.coretypes import multidict

    def kt(i):
        return texts["k"][i] if i in texts.get("k", {}) else KEY[i][1]

    def vt(i):
        return texts["v"][i] if i in texts.get("v", {}) else VAL[i][1]

    if view == "path":
        return [vt(v) for _k, v in pairs]
    if view == "multipart":
        return [(_b(kt(k)), _b(vt(v))) for k, v in pairs]
    if view == "rcookies":
        out = []
        for k, v in pairs:
            _c, vid, attrs = texts["rc"][v] if v in texts.get("rc", {}) else RC[v]
            out.append((kt(k), (vt(vid), multidict.MultiDict(attrs))))
        return out
    return [(kt(k), vt(v)) for k, v in pairs]


def _get(msg, view):
    if view == "path":
        return tuple(msg.path_components)
    return tuple(getattr(msg, ATTR[view]).fields)


def _cls(view, pairs, texts):
    out = []
    for k, v in pairs:
        kc = texts["kc"].get(k) if k in texts.get("kc", {}) else KEY.get(k, ("?",))[0]
        if view == "rcookies":
            vc = texts["vc"].get(v) if v in texts.get("vc", {}) else RC.get(v, ("?",))[0]
        else:
            vc = texts["vc"].get(v) if v in texts.get("vc", {}) else VAL.get(v, ("?",))[0]
        out.append([kc, vc])
    return out


def _rep(view, pairs, texts):
    if "rep" in texts:
        return bool(texts["rep"])
    return all(k in REP_KEYS[view] and v in REP_VALS[view] for k, v in pairs)


def run(sc):
    view = sc["view"]
    texts = {a: {int(i): t for i, t in b.items()} if isinstance(b, dict) else b for a, b in (sc.get("texts") or {}).items()}
    if "rc" in texts:
        texts["rc"] = {i: (c, v, tuple((a, b) for a, b in at)) for i, (c, v, at) in texts["rc"].items()}
    extra = {}
    for i, t in texts.get("k", {}).items():
        extra[("k", t)] = i
    for i, t in texts.get("v", {}).items():
        extra[("v", t)] = i
    for i, (_c, vid, at) in texts.get("rc", {}).items():
        vt = texts["v"][vid] if vid in texts.get("v", {}) else VAL[vid][1]
        extra[("rc", (vt, at))] = i
    ids = _Ids(extra)
    trace = []
    if sc.get("wire") is not None:
        _v, wcls, args = CORPUS[sc["wire"]]
        msg = _build(view, args)
        origin = "wire"
    else:
        msg = _response() if view == "rcookies" else _request()
        if sc.get("prefill") is not None:  # an existing message of the corpus that is then overwritten through the view
            msg = _build(view, CORPUS[sc["prefill"]][2])
        wcls, origin = "assigned", "assigned"
    rep_state = True
    for op in sc["ops"]:
        kind = op["op"]
        if kind == "assign":
            pairs = [list(p) for p in op["pairs"]]
            rep = _rep(view, pairs, texts)
            rep_state = rep
            ev = {"k": "assign", "view": view, "rep": rep, "pairs": pairs, "cls": _cls(view, pairs, texts), "exc": "",
                  "over": CORPUS[sc["prefill"]][1] if sc.get("prefill") is not None else ""}
            try:
                val = _concrete(view, pairs, texts)
                if op.get("as") == "tuple":
                    val = tuple(val)
                setattr(msg, ATTR[view], val)
            except Exception as e:
                ev["exc"] = type(e).__name__
            try:
                ev["read"] = ids.read(view, _get(msg, view))
            except Exception as e:
                ev["read"] = [[ids._f("k", "read:" + type(e).__name__), 0]]
            trace.append(ev)
        elif kind == "writeback":
            ev = {"k": "writeback", "view": view, "origin": origin, "wcls": wcls, "rep": rep_state, "exc": ""}
            try:
                before = project(msg, view)
                rb = ids.read(view, _get(msg, view))
            except Exception as e:  # the reading side failed: nothing to write back
                ev.update(exc="read:" + type(e).__name__, before={"other": 1, "meaning": []},
                          after={"other": 1, "meaning": []}, rb=[], ra=[])
                trace.append(ev)
                continue
            try:
                cur = _get(msg, view)
                setattr(msg, ATTR[view], cur)
            except Exception as e:
                ev["exc"] = type(e).__name__
            try:
                after = project(msg, view)
                ra = ids.read(view, _get(msg, view))
            except Exception as e:
                after, ra = ((b"<exc>",), [(type(e).__name__.encode(),)]), []
            ev["before"], ev["after"] = _local_ids(before, after)
            ev["rb"], ev["ra"] = rb, ra
            trace.append(ev)
        elif kind in ("add", "del", "setitem"):
            if view == "path":
                break
            k, v = op["key"], op.get("val", 0)
            rep = rep_state and _rep(view, [[k, v]] if kind != "del" else [], texts)
            ev = {"k": "mutate", "view": view, "op": kind, "rep": rep, "key": k, "val": v, "exc": ""}
            try:
                vw = getattr(msg, ATTR[view])
                if kind == "del":
                    ck = _concrete(view, [[k, 1 if view != "rcookies" else 201]], texts)[0][0]
                    del vw[ck]
                else:
                    ck, cv = _concrete(view, [[k, v]], texts)[0]
                    if kind == "add":
                        vw.add(ck, cv)
                    else:
                        vw[ck] = cv
            except Exception as e:
                ev["exc"] = type(e).__name__
            try:
                ev["read"] = ids.read(view, _get(msg, view))
            except Exception as e:
                ev["read"] = [[ids._f("k", "read:" + type(e).__name__), 0]]
            trace.append(ev)
        else:
            break
    return trace


def reduce_event(ev):
    """Drift view: write-back events are compared as same / not same only (the model does not know wire contents)."""
    if ev.get("k") != "writeback":
        return ev
    same = ev["before"] == ev["after"] and ev["rb"] == ev["ra"]
    return {"k": "writeback", "view": ev["view"], "origin": ev["origin"], "wcls": ev["wcls"], "rep": ev["rep"],
            "exc": ev["exc"], "same": same}


# the code's known behaviour on the wire corpus (model constant `same`; findings_proposed/C34.md)
CORPUS_NOT_SAME = {("path", "trailing_slash"), ("path", "double_slash")} | {
    (v, c) for v, c, _a in CORPUS if v == "multipart"}   # encode_multipart appends CRLF to every value (and more)
ADD_RAISES = frozenset({"multipart"})                    # _get_multipart_form returns a list: MultiDictView.add/insert fail

KEYS_Q = (51, 52)
VALS_Q = {"query": (1, 2, 3, 5, 7, 9, 10, 12), "urlenc": (1, 2, 3, 5, 8, 9, 11, 12), "cookies": (1, 2, 4, 5, 9, 10, 13, 19),
          "rcookies": (201, 202, 203, 204, 205, 206, 207, 208), "multipart": (1, 2, 3, 5, 7, 8, 11, 18),
          "path": (1, 2, 3, 7, 10, 12, 14, 21)}
MUT = {"query": ((52, 16), (53, 3)), "urlenc": ((52, 16), (54, 10)), "cookies": ((52, 16), (51, 5)),
       "rcookies": ((52, 201), (51, 202)), "multipart": ((52, 16), (53, 1))}


def _scen_sets(tier):
    scen = []
    for view in VIEWS:
        keys = (0,) if view == "path" else ((51, 53) if 53 in REP_KEYS[view] else KEYS_Q)
        vals = VALS_Q[view] if tier == "quick" else tuple(sorted(REP_VALS[view]))
        if tier != "quick" and view != "path":
            keys = tuple(sorted(REP_KEYS[view]))[:4]
        pairs = [(k, v) for k in keys for v in vals]
        lists = [()] + [(p,) for p in pairs]
        # two-pair lists: a deterministic sample (every pair occurs in both positions), plus some doubled pairs
        mod = 5 if tier == "quick" else 13
        lists += [(p, q) for i, p in enumerate(pairs) for j, q in enumerate(pairs)
                  if (i + 2 * j) % mod == 0 or (p == q and i % 2 == 1)]
        ndeep = 3 if tier == "quick" else 8
        for pl in lists:
            cls = tuple(tuple(_cls(view, [p], {})[0]) for p in pl)
            deep = len(pl) == 0 or (len(pl) == 1 and pl[0] in pairs[:ndeep])
            scen.append({"kind": "fresh", "view": view, "pairs": tuple(pl), "cls": cls, "wcls": "assigned", "same": True,
                         "depth": 2 if deep else 1, "wire": 0, "base": 0, "bcls": ""})
        # the same assignments over an EXISTING message of the corpus (state left in the message: old body, old
        # Content-Type parameters, old query / params / cookies); only messages the code is known to rewrite faithfully
        over = [lists[0], lists[1], (pairs[3], pairs[len(pairs) // 2])]
        for i, (v2, wcls, _a) in enumerate(CORPUS):
            if v2 != view or (v2, wcls) in CORPUS_NOT_SAME:
                continue
            for pl in (over if tier == "quick" else over + [(p,) for p in pairs[1:6]]):
                cls = tuple(tuple(_cls(view, [p], {})[0]) for p in pl)
                scen.append({"kind": "fresh", "view": view, "pairs": tuple(pl), "cls": cls, "wcls": "assigned", "same": True,
                             "depth": 1, "wire": 0, "base": i + 1, "bcls": wcls})
    for i, (view, wcls, _a) in enumerate(CORPUS):
        scen.append({"kind": "wire", "view": view, "pairs": (), "cls": (), "wcls": wcls,
                     "same": (view, wcls) not in CORPUS_NOT_SAME, "depth": 0, "wire": i + 1, "base": 0, "bcls": ""})
    return scen


class Check(core.PropertyCheck):
    ID = "C34"
    SPEC_DIR = "Views"
    MODEL = "Views"
    MON = "Mon_Views"
    REQUIRED_WITNESSES = tuple("assign_" + v for v in VIEWS) + tuple("writeback_" + v for v in VIEWS) + (
        "rep", "unrep", "assign_empty", "dup_key", "reassign", "assign_over_existing", "over_charset_utf16", "writeback_assigned", "writeback_wire", "writeback_nonempty",
        "mutate_add", "mutate_del", "mutate_setitem", "v_empty", "v_sep", "v_dq", "v_crlf", "v_space_edges", "v_non_ascii",
        "v_binary", "v_percent", "v_backslash", "k_non_ascii")
    REQUIRED_ACTIONS = ("Assign", "WriteBack", "WriteBackWire", "Add", "Del", "SetItem")
    ASSUMPTIONS = (
        "representability (which pairs a view's wire format can carry) is decided by the scenario generator from class "
        "tables: cookie names are tokens, cookie values carry no line breaks, multipart names carry no quotes / line breaks "
        "and are not empty; everything else (any str incl. surrogate-escaped bytes, any bytes) is representable",
        "a message's meaning is what the hand-written reference decoders in lib/vf/viewsref.py read from it (urlencoded "
        "pairs, cookie pairs incl. quoted-strings, Set-Cookie name/value/attributes, multipart name/filename/content, path "
        "segments incl. empty ones); the untouched rest of the message is compared byte for byte",
        "write-back is `message.<view> = message.<view>.fields` (for path_components: the tuple itself)",
        "the wire formats are not modelled in TLA+ (level_note: format not modelled); the model is the container "
        "semantics plus the table of known lossy places",
    )

    def mon_constants(self, tier):
        return {}

    def model_constants(self, tier):
        return {"Scen": frozenset(core_freeze(s) for s in _scen_sets(tier)), "LossyVal": LOSSY_VAL, "Dropped": DROPPED,
                "MutPairs": frozenset((v, p) for v, ps in MUT.items() for p in ps), "AddRaises": ADD_RAISES}

    def model_runs(self, ctx):
        if ctx.quick:
            return [ctx.model_check(self.MODEL, self.model_constants("quick"), dump=True)]
        return [ctx.model_check(self.MODEL, self.model_constants("thorough"), dump=True, timeout=3000)]

    @staticmethod
    def _scenario(beh):
        st0 = beh[0][2]
        sc = st0["sc"]
        view = str(sc["view"])
        data = {"view": view, "ops": []}
        if sc["kind"] == "wire":
            data["wire"] = int(sc["wire"]) - 1
        elif int(sc["base"]) > 0:
            data["prefill"] = int(sc["base"]) - 1
        for name, args, _st in beh[1:]:
            if name == "Assign":
                data["ops"].append({"op": "assign", "pairs": [list(p) for p in sc["pairs"]]})
            elif name in ("WriteBack", "WriteBackWire"):
                data["ops"].append({"op": "writeback"})
            elif name == "Add":
                data["ops"].append({"op": "add", "key": args[0][0], "val": args[0][1]})
            elif name == "SetItem":
                data["ops"].append({"op": "setitem", "key": args[0][0], "val": args[0][1]})
            elif name == "Del":
                data["ops"].append({"op": "del", "key": args[0][0], "val": 0})
        return data

    def drift_view(self, trace):
        return [reduce_event(e) for e in trace]

    def scenarios(self, ctx, models):
        g = models[0].graph
        seen = set()
        for b in g.all_paths(max_depth=4):
            if len(b) < 2:
                continue
            data = self._scenario(b)
            key = repr(data)
            if key in seen:
                continue
            seen.add(key)
            yield core.Scenario(data, predicted=[reduce_event(e) for e in core.predicted_events(b)], source="model")
        yield from self._random(ctx)

    # ---- beyond the model: random strings built from class fragments, longer lists, prefilled messages, unrepresentable
    def _random(self, ctx):
        rng = random.Random(ctx.seed + 34)
        frag = ["a", "Z", "0", " ", "&", "=", ";", ",", '"', "'", "\\", "%", "%41", "%zz", "+", "/", "?", "#", ":", "é", "日",
                "\udcff", "\udc80", "\t", "-", "--", ".", "~", "(", ")", "<", ">", "@", "[", "]", "{", "}", "|", "^", "`", "*", "!",
                "$", "\U0001f600"]
        ctl = ["\x7f", "\x01", "\x0b"]  # control characters: only where the format percent-encodes / carries raw bytes
        lb = ["\r\n", "\n", "\r"]
        n = 700 if ctx.quick else 12000
        for i in range(n):
            view = VIEWS[i % len(VIEWS)]
            texts = {"k": {}, "v": {}, "kc": {}, "vc": {}, "rc": {}}
            nid = [300]

            def mk(kind, allow_lb, allow_empty=True):
                ln = rng.choice((0, 1, 1, 2, 3, 5, 8)) if allow_empty else rng.choice((1, 1, 2, 3, 5))
                pool = frag + ctl if view in ("query", "urlenc", "multipart", "path") else frag
                parts = [rng.choice(pool) for _ in range(ln)]
                if allow_lb and rng.random() < 0.25:
                    parts.insert(rng.randrange(len(parts) + 1), rng.choice(lb))
                return "".join(parts)

            rep = True
            pairs = []
            for _ in range(rng.choice((0, 1, 2, 2, 3, 5))):
                if view == "path":
                    kid = 0
                elif rng.random() < 0.5:
                    kid = rng.choice((51, 52))
                else:
                    nid[0] += 1
                    kid = nid[0]
                    if view in ("cookies", "rcookies"):
                        t = "".join(rng.choice("abcXYZ019_-.!#$%&'*+^`|~") for _ in range(rng.randint(1, 6)))
                    elif view == "multipart":
                        t = mk("k", False, False).replace('"', "q")
                    else:
                        t = mk("k", True)
                    if ("k", t) in [("k", x) for x in texts["k"].values()] or t in RKEY:
                        kid = RKEY.get(t, 51)
                    else:
                        texts["k"][kid] = t
                        texts["kc"][kid] = "random"
                nid[0] += 1
                vid = nid[0]
                t = mk("v", view not in ("cookies", "rcookies"))
                if t in texts["v"].values():
                    t = t + "u%d" % vid
                if t in RVAL and RVAL[t] < 100:
                    vid = RVAL[t]            # a string of the fixed table (the empty string, most often)
                else:
                    texts["v"][vid] = t
                    texts["vc"][vid] = "random_lb" if any(c in t for c in "\r\n") else "random"
                if view == "rcookies":
                    nid[0] += 1
                    rid = nid[0]
                    attrs = rng.choice(((), (("Path", "/"),), (("HttpOnly", None), ("Max-Age", "3600")),
                                        (("Expires", "Thu, 01 Jan 2037 00:00:00 GMT"),), (("Domain", "x.example"), ("Secure", None))))
                    same = [r for r, (_c, v0, a0) in texts["rc"].items() if v0 == vid and a0 == attrs]
                    if same:                     # identical (value, attributes): one id, or reading back is ambiguous
                        rid = same[0]
                    else:
                        texts["rc"][rid] = ("random", vid, attrs)
                        texts["vc"][rid] = texts["vc"].get(vid, VAL.get(vid, ("random",))[0])
                    vid = rid
                pairs.append([kid, vid])
            ops = [{"op": "assign", "pairs": pairs, "as": rng.choice(("list", "tuple"))}]
            for _ in range(rng.choice((1, 1, 2, 3))):
                r = rng.random()
                if r < 0.5 or view == "path":
                    ops.append({"op": "writeback"})
                elif r < 0.7 and view in MUT:
                    k, v = rng.choice(MUT[view])
                    ops.append({"op": "add", "key": k, "val": v})
                elif r < 0.85 and view in MUT:
                    k, v = rng.choice(MUT[view])
                    ops.append({"op": "setitem", "key": k, "val": v})
                else:
                    ops.append({"op": "del", "key": rng.choice([p[0] for p in pairs] + [52]), "val": 0})
            if rng.random() < 0.25:
                ops.append({"op": "assign", "pairs": [[51 if view != "path" else 0, 1 if view != "rcookies" else 201]]})
                ops.append({"op": "writeback"})
            data = {"view": view, "ops": ops, "texts": {a: {str(i): t for i, t in b.items()} for a, b in texts.items()}}
            data["texts"]["rep"] = True  # by construction: token cookie names, no line breaks / controls in cookie values,
            #                              multipart names non-empty without quotes and line breaks
            cands = [j for j, c in enumerate(CORPUS) if c[0] == view and (c[0], c[1]) not in CORPUS_NOT_SAME]
            if cands and rng.random() < 0.4:
                data["prefill"] = rng.choice(cands)
            yield core.Scenario(data, source="random")
        # found by the random driver (thorough), kept as a fixed scenario: a form body with a key that has no "=" (or an
        # empty segment) makes url.encode(similar_to=...) trim "=", which deletes a pair with empty key AND empty value
        for pre in (14, 16):
            yield core.Scenario({"view": "urlenc", "prefill": pre, "ops": [{"op": "assign", "pairs": [[51, 1], [55, 2]]},
                                                                           {"op": "writeback"}]}, source="suite")
        # unrepresentable pairs: exercised for totality, never judged (rep = FALSE)
        for view, k, v in (("cookies", 56, 1), ("cookies", 51, 7), ("cookies", 53, 1), ("rcookies", 56, 201), ("multipart", 57, 1),
                           ("multipart", 55, 1), ("multipart", 58, 1), ("cookies", 54, 8)):
            yield core.Scenario({"view": view, "ops": [{"op": "assign", "pairs": [[k, v], [52, 16 if view != "rcookies" else 201]]},
                                                       {"op": "writeback"}]}, source="random")

    def execute(self, sc):
        return run(sc)


def core_freeze(d):
    """dict -> dict with tuples (so it renders as a TLA+ record inside a set)."""
    return _FD(d)


class _FD(dict):
    def __hash__(self):
        return hash(repr(sorted(self.items())))
