"""C48 -- exported commands reproduce the request and are shell-safe.

Model: spec/Export/Export.tla   Monitor: Mon_Export.tla
Real code: mitmproxy.addons.export.Export.file (curl_command / httpie_command / raw via cleanup_request, shlex.quote,
request_content_for_console, net.http.http1.assemble).  The exported file is executed by /bin/bash with PATH pointing
at stub `curl` / `http` programs that dump argv and stdin; a DEBUG trap logs every simple command the shell runs, a
`touch` canary and command_not_found_handle record any other program.  Independent oracles: the reference curl
argument decoder and the reference HTTP/1 request parser below (written from the curl manual / RFC 9112).
"""
from __future__ import annotations

import itertools
import os
import random
import subprocess
from pathlib import Path

from vf import core

# export.py as it is garbles some bodies / URLs / headers (findings_proposed/C48.md).  VERIF_C48_REPAIRED=1 makes the MODEL
# describe the proposed repair (mutants/C48/FIX_proposed.diff); the monitor is the same either way.
REPAIRED = os.environ.get("VERIF_C48_REPAIRED", "0") == "1"

ALPHABET = ("a", "sp", "sq", "dq", "bs", "dl", "bt", "sc", "nl", "pc", "bg", "ct", "cw", "na", "at", "hy", "lb")
CLASS_CHARS = {
    "a": "ghijklmopqswyzGHIJKLMOPQSWYZ89",  # no printf escape letters, no octal digits
    "sp": " ", "sq": "'", "dq": '"', "bs": "\\", "dl": "$", "bt": "`", "sc": ";|&()<>", "nl": "\n", "pc": "%",
    "bg": "!", "ct": "\x01\x02\x1b\x1f", "cw": "\t\r\x0b", "na": "éü漢☃", "at": "@", "hy": "-", "lb": "[]{}",
}
PAYLOADS = [
    "$(touch pwn)", "`touch pwn`", "'; touch pwn; '", "\"; touch pwn; \"", "\ntouch pwn\n", "; touch pwn #", "| touch pwn",
    "&& touch pwn", "'\"'\"'; touch pwn; '\"'\"'", "\\'; touch pwn; \\'", "$IFS", "${PATH}", "$0", "!!", "a' 'b", "''", "'",
    "\"", "\\", "\\\\", "a\\'b", "$(printf 'touch pwn')", "x'$(touch pwn)'y", "x\"$(touch pwn)\"y", "%s%n", "%%", "-d @/etc/passwd",
    "--data-binary", "-o /tmp/pwn", "a\tb", "a\rb", "*", "~", "#x", "{a,b}", "[a-c]", "a=b", "@file", "<(touch pwn)",
    "$'\\x41'", "a\x1b[31mb", "é'漢", "' -H 'x: y", "\" -H \"x: y", "x\\", "x\\'", "')", "$(", "`",
]
SEP = "\x00"


METHOD_CHARS = dict(CLASS_CHARS, a="GHIJKLMOPQSWYZ89", na="漢☃")  # Request.method is upper case by definition


def conc(classes, rng, table=CLASS_CHARS):
    return "".join(rng.choice(table[c]) for c in classes)


# ------------------------------------------------------------------------------------------------------
# independent oracles
def curl_decode(argv: list[bytes]):
    """What curl does with these arguments, per its manual page (only the options the exporter may emit)."""
    method, url, hdrs, data, unknown, compressed, globoff = None, None, [], [], [], False, False
    i = 1
    while i < len(argv):
        a = argv[i]
        nxt = argv[i + 1] if i + 1 < len(argv) else None
        if a in (b"-H", b"--header") and nxt is not None:
            hdrs.append(nxt)
            i += 2
        elif a in (b"-X", b"--request") and nxt is not None:
            method = nxt
            i += 2
        elif a in (b"-d", b"--data", b"--data-ascii", b"--data-binary", b"--data-raw") and nxt is not None:
            data.append((a, nxt))
            i += 2
        elif a == b"--resolve" and nxt is not None:
            i += 2
        elif a == b"--compressed":
            compressed = True
            i += 1
        elif a in (b"-g", b"--globoff"):
            globoff = True
            i += 1
        elif a.startswith(b"-") and len(a) > 1:
            unknown.append(a)
            i += 1
        else:
            url = a if url is None else url + b" " + a  # a second URL is a second transfer
            i += 1
    out_h = []
    for h in hdrs:
        if h.startswith(b"@"):
            continue  # "@file": header lines are read from that file; this argument is no header
        name, sep, val = h.partition(b":")
        val = val.lstrip(b" \t")
        if not sep:
            if h.endswith(b";"):
                out_h.append(h[:-1] + SEP.encode())
            continue  # no colon: not a header line curl sends as given
        if val.strip(b" \t\r\n\x0b\x0c") == b"":
            continue  # "Name:" (nothing but white space after the colon) removes the header
        out_h.append(name + SEP.encode() + val)
    body = None
    for opt, d in data:
        if d.startswith(b"@") and opt != b"--data-raw":
            d = b"<data read from file " + d[1:] + b">"
        body = d if body is None else body + b"&" + d
    if url is not None and not globoff:
        rest = url.split(b"://", 1)[-1]
        if any(c in rest for c in (b"[", b"]", b"{", b"}")):
            url = b"<globbed " + url + b">"
    if unknown:
        url = (url or b"") + b" <unknown options " + b" ".join(unknown) + b">"
    m = method if method is not None else (b"POST" if data else b"GET")
    return m, url or b"", out_h, body or b"", compressed


def parse_http1_request(raw: bytes):
    """Reference HTTP/1 request parser (RFC 9112 framing: request line, header lines, body to the end)."""
    head, sep, body = raw.partition(b"\r\n\r\n")
    if not sep:
        return None
    lines = head.split(b"\r\n")
    first = lines[0]
    a = first.find(b" ")
    z = first.rfind(b" ")
    if a < 0 or z <= a:
        return None
    method, target, version = first[:a], first[a + 1:z], first[z + 1:]
    hdrs = []
    for ln in lines[1:]:
        n, s, v = ln.partition(b":")
        if not s:
            return None
        hdrs.append(n + SEP.encode() + v.strip(b" \t"))
    te = [h for h in hdrs if h.lower().startswith(b"transfer-encoding" + SEP.encode())]
    if te and b"chunked" in te[-1].lower():
        out, rest = b"", body
        while True:
            ln, s, rest = rest.partition(b"\r\n")
            if not s:
                return None
            n = int(ln.split(b";")[0], 16)
            if n == 0:
                break
            out, rest = out + rest[:n], rest[n + 2:]
        body = out
    return method, target, version, hdrs, body


def pair(w, g):
    return [1, 1] if w == g else [1, 2]


def intern_lists(want: list, got: list):
    tab: dict = {}
    w = [tab.setdefault(x, len(tab) + 1) for x in want]
    g = [tab.setdefault(x, len(tab) + 1) for x in got]
    return w, g


# ------------------------------------------------------------------------------------------------------
STUB_C = r"""
#include <stdio.h>
#include <stdlib.h>
#include <string.h>
#include <unistd.h>
int main(int argc, char **argv) {
  const char *out = getenv("VF_OUT"), *log = getenv("VF_LOG");
  const char *base = strrchr(argv[0], '/'); base = base ? base + 1 : argv[0];
  char path[4096];
  if (log) { FILE *l = fopen(log, "a"); if (l) { fprintf(l, "RUN:%s\n", base); fclose(l); } }
  if (!out) return 0;
  if (strcmp(base, "touch") == 0) return 0;
  snprintf(path, sizeof path, "%s.argv", out);
  FILE *f = fopen(path, "ab");
  if (f) { fprintf(f, "R%d\n", argc);
           for (int i = 0; i < argc; i++) { fprintf(f, "%zu\n", strlen(argv[i])); fwrite(argv[i], 1, strlen(argv[i]), f); }
           fclose(f); }
  snprintf(path, sizeof path, "%s.stdin", out);
  f = fopen(path, "ab");
  if (f) { char buf[65536]; ssize_t n; while ((n = read(0, buf, sizeof buf)) > 0) fwrite(buf, 1, (size_t)n, f); fclose(f); }
  return 0;
}
"""
ENV_SH = r"""
case "$0" in
  *.vfcmd)
    set -T
    command_not_found_handle() { printf 'UNKNOWN:%s\n' "${1%%[[:space:]]*}" >> "$VF_LOG"; return 127; }
    trap 'printf "CMD:%s\n" "${BASH_COMMAND%%[[:space:]]*}" >> "$VF_LOG"' DEBUG
    ;;
esac
"""


class Check(core.PropertyCheck):
    ID = "C48"
    SPEC_DIR = "Export"
    MODEL = "Export"
    MON = "Mon_Export"
    REQUIRED_WITNESSES = ("curl", "httpie", "raw", "plain_ok", "ctl_body_ok", "several_headers", "refused",
                          "raw_after_export", "command_after_export") + \
        (() if REPAIRED else ("printf_form",))
    REQUIRED_ACTIONS = ("Export", "ExportRaw")
    PROCS = 8
    ASSUMPTIONS = (
        "the shell is /bin/bash 5 (the httpie export uses <<<, a bashism); `executes only curl/http` is observed through a "
        "DEBUG trap (every simple command incl. builtins), command_not_found_handle, stub programs and a canary program",
        "what the arguments mean is decided by the reference decoders in props/C48.py: curl per its manual (-X, -H with "
        "the empty-value and @file rules, -d with the @file rule and the implied POST, URL globbing of [ ] { } unless "
        "-g), httpie only as the argv convention `http METHOD URL 'name: value'...` (its item grammar is not modelled)",
        "generated requests are ones the command line can carry: no NUL, header names without ':' and without "
        "leading/trailing blanks, header values without leading/trailing blanks, text bodies in UTF-8 (declared when "
        "not ASCII), no Host header different from the request host; raw export additionally no CR/LF/control "
        "characters outside the body",
    )

    # ---- setup: stub programs ---------------------------------------------------------------------------
    def setup(self, ctx):
        d = Path(ctx.scratch) / "c48"
        (d / "bin").mkdir(parents=True, exist_ok=True)
        (d / "stub.c").write_text(STUB_C)
        r = subprocess.run(["gcc", "-O1", "-o", str(d / "bin" / "curl"), str(d / "stub.c")], capture_output=True, text=True)
        if r.returncode != 0:
            raise core.MachineryError("cannot build the stub program: " + r.stderr[-500:])
        for n in ("http", "touch"):
            (d / "bin" / n).write_bytes((d / "bin" / "curl").read_bytes())
            os.chmod(d / "bin" / n, 0o755)
        (d / "env.sh").write_text(ENV_SH)
        (d / "run").mkdir(exist_ok=True)
        self._dir = d
        self._n = 0

    # ---- constants ----------------------------------------------------------------------------------------
    def mon_constants(self, tier):
        return {}

    FIELDS = ("method", "host", "path", "hname", "hval", "body", "getbody")

    def _work(self, tier):
        if tier == "quick":
            w = {(f, fld, 2 if fld in ("body", "hval", "path") else 1)
                 for f in ("curl", "httpie") for fld in self.FIELDS}
            w |= {("raw", fld, 2 if fld == "body" else 1) for fld in self.FIELDS}
            return w
        w = {(f, fld, 3 if (f == "curl" and fld in ("body", "hval", "path")) else 2)
             for f in ("curl", "httpie") for fld in self.FIELDS}
        w |= {("raw", fld, 3 if fld == "body" else 2) for fld in self.FIELDS}
        return w

    def model_constants(self, tier, work=None):
        return {"Alphabet": frozenset(ALPHABET), "Work": frozenset(work or self._work(tier)), "Repaired": REPAIRED,
                "MaxSeq": 2, "SeqLen": 1}

    def model_runs(self, ctx):
        small = ctx.model_check(self.MODEL, self.model_constants("quick"), dump=True, timeout=1200)
        if ctx.quick:
            return [small]
        big = ctx.model_check(self.MODEL, self.model_constants("thorough"), dump=False, tag="_big", timeout=3000, workers=4)
        return [small, big]

    # ---- scenarios ----------------------------------------------------------------------------------------
    BASE = {"method": "GQ8", "host": "hqs.example", "path": "", "hname": "x-hq", "hval": "vq9", "body": ""}

    def _scenario(self, fmt, field, s, seed, predicted=None, source="model"):
        return core.Scenario({"fmt": fmt, "field": field, "classes": list(s), "seed": seed}, predicted=predicted,
                             source=source)

    def scenarios(self, ctx, models):
        rng = random.Random(ctx.seed + 48)
        g = models[0].graph
        behs = g.all_paths(2)
        # the graph is no longer needed; drop it before the fork pool starts (every bash run forks the worker)
        models[0].graph = None
        del g
        cap = 450 if ctx.quick else 9000
        two = [b for b in behs if len(b) > 2]      # the same flow exported twice
        one = [b for b in behs if len(b) == 2]
        ctx.rng.shuffle(two)
        ctx.rng.shuffle(one)
        behs = two[: cap * 2 // 5] + one[: cap - min(len(two), cap * 2 // 5)]
        for b in behs:
            seq, field, s = [], None, None
            for name, args, _st in b[1:]:
                if name == "Export":
                    fmt, field, s = args
                else:
                    fmt, (field, s) = "raw", args
                seq.append(fmt)
            sc = self._scenario(seq[0], field, s, rng.randrange(1 << 30), predicted=core.predicted_events(b))
            sc.data["seq"] = seq
            yield sc
        # beyond the model: strings of length 3..6 over the alphabet in one field (no prediction)
        n_long = 80 if ctx.quick else 7000
        for _ in range(n_long):
            fmt = rng.choice(("curl", "curl", "httpie", "raw"))
            field = rng.choice(self.FIELDS[:6] if fmt != "raw" else ("method", "path", "hname", "hval", "body"))
            s = [rng.choice(ALPHABET) for _ in range(rng.randint(3, 6))]
            seq = [fmt] + ([rng.choice(("curl", "httpie", "raw"))] if rng.random() < 0.3 else [])
            if "raw" in seq and field not in ("method", "path", "hname", "hval", "body"):
                seq = [x for x in seq if x != "raw"] or ["curl"]
            yield core.Scenario({"fmt": seq[0], "seq": seq, "field": field, "classes": s, "seed": rng.randrange(1 << 30),
                                 "long": True}, source="random")
        # the scenarios of findings_proposed/C48.md (one per known cause), so that every run exercises each of them
        for mixed, hs in (
                ({"method": "POST", "body": "discount=100%\nnext=1"}, []),
                ({"method": "POST", "body": "--boundary42\r\nContent-Disposition: form-data; name=\"a\"\r\n\r\n1\r\n--boundary42--"},
                 [["content-type", "multipart/form-data; boundary=boundary42"]]),
                ({"method": "POST", "body": "{\"a\": 1}\n"}, []),
                ({"method": "POST", "body": "path=C:\\\\temp\nx=1"}, []),
                ({"method": "POST", "body": "@/etc/hostname"}, []),
                ({"method": "POST", "path": "items[1].json?filter={a,b}"}, []),
                ({"method": "POST"}, [["x-empty", ""]]),
                ({"method": "POST"}, [["@at", "v"]]),
                ({"method": "GET", "body": "q=1"}, [])):
            yield core.Scenario({"fmt": "curl", "mixed": mixed, "headers": hs, "seed": 1}, source="suite")
        # one flow exported several times (the UI's "copy as ..." menu used repeatedly), without and with a body
        for seq in (["curl", "raw"], ["httpie", "raw"], ["raw", "curl", "raw"], ["curl", "httpie", "curl"], ["curl", "curl"]):
            for mixed in ({"method": "POST"}, {"method": "GET"}, {"method": "PUT", "body": "k=v"}):
                yield core.Scenario({"fmt": seq[0], "seq": seq, "mixed": mixed, "headers": [["x-a", "1"]], "seed": 2},
                                    source="suite")
        # hand-made injection payloads in every field
        for i, pl in enumerate(PAYLOADS):
            for field in ("method", "host", "path", "hname", "hval", "body"):
                for fmt in ("curl", "httpie"):
                    if ctx.quick and (i + len(field) + len(fmt)) % 5 != ctx.seed % 5:
                        continue
                    yield core.Scenario({"fmt": fmt, "mixed": {field: pl}, "seed": rng.randrange(1 << 30)}, source="payload")
        # mixed requests: several fields at once, several headers, accept-encoding, preserve_original_ip, binary bodies
        for _ in range(120 if ctx.quick else 5000):
            fmt = rng.choice(("curl", "curl", "httpie", "raw"))
            mixed = {}
            for field in ("method", "host", "path", "body"):
                if rng.random() < 0.5:
                    mixed[field] = (rng.choice(PAYLOADS) if rng.random() < 0.3 else
                                    conc([rng.choice(ALPHABET) for _ in range(rng.randint(1, 5))], rng))
            hs = []
            for _h in range(rng.randint(0, 4)):
                n = conc([rng.choice(ALPHABET) for _ in range(rng.randint(1, 3))], rng) if rng.random() < 0.5 else rng.choice(
                    ["accept-encoding", "x-a", "Cookie", "content-type", "user-agent", "X-A"])
                v = rng.choice(PAYLOADS) if rng.random() < 0.3 else conc([rng.choice(ALPHABET) for _ in range(rng.randint(0, 5))], rng)
                hs.append([n, v])
            if rng.random() < 0.35:
                mixed["method"] = rng.choice(["POST", "PUT", "GET", "DELETE", "HEAD", "OPTIONS", "PATCH"])
            if fmt == "raw" and rng.random() < 0.2:
                hs.append(["transfer-encoding", "chunked"])
                mixed["body"] = mixed.get("body", "") + conc(["a"] * rng.randint(1, 40), rng)
            seq = [fmt] + [rng.choice(("curl", "httpie", "raw")) for _ in range(rng.choice((0, 0, 1, 2)))]
            sc = {"fmt": fmt, "seq": seq, "mixed": mixed, "headers": hs, "seed": rng.randrange(1 << 30),
                  "preserve_ip": rng.random() < 0.4, "http_get": rng.random() < 0.25}
            if rng.random() < 0.12:
                sc["bodyhex"] = bytes(rng.choice([0xff, 0xfe, 0x80, 0xc3, 0x28, 0x41]) for _ in range(rng.randint(2, 8))).hex() + "ff"
            yield core.Scenario(sc, source="random")

    # ---- execution ----------------------------------------------------------------------------------------
    @staticmethod
    def _sanitize(field, s, raw):
        """Keep generated strings inside what a request / a command line can carry (see ASSUMPTIONS)."""
        s = s.replace("\x00", "")
        if raw and field != "body":
            for ch in "\r\n\t\x01\x02\x1b\x1f\x0b":
                s = s.replace(ch, "")
            if field in ("method", "hname"):
                s = s.replace(" ", "")
        if field in ("hname", "hval"):
            s = s.strip(" \t\r\n\x0b\x0c")  # HTTP trims blanks around names and values
            if field == "hname":
                s = s.replace(":", "")
        if field == "host":
            s = s.replace(":", "").replace("/", "")
        if field in ("method", "host", "hname") and not s:
            s = "Q"
        return s

    def _request(self, sc):
        rng = random.Random(sc["seed"])
        raw = "raw" in (sc.get("seq") or [sc["fmt"]])
        f = dict(self.BASE)
        if "classes" in sc:
            field = sc["field"]
            val = conc(sc["classes"], rng, METHOD_CHARS if field == "method" else CLASS_CHARS)
            if field == "getbody":
                f["method"] = "GET"
                f["body"] = val
            else:
                f[field] = val
        for k, v in (sc.get("mixed") or {}).items():
            f[k] = v
        if sc.get("http_get") and "method" not in (sc.get("mixed") or {}):
            f["method"] = "GET"
        for k in ("method", "host", "path", "hname", "hval"):
            f[k] = self._sanitize(k, f[k], raw)
        f["method"] = f["method"].upper()
        headers = [[f["hname"], f["hval"]]] + [[self._sanitize("hname", n, raw), self._sanitize("hval", v, raw)]
                                               for n, v in sc.get("headers", [])]
        headers = [[n or "q", v] for n, v in headers]
        if "bodyhex" in sc:
            body = bytes.fromhex(sc["bodyhex"])
            text = False
            # declared UTF-8 but not decodable: not "valid text" under any reading
            headers = [[n, v] for n, v in headers if n.lower() != "content-type"] + \
                      [["content-type", "text/plain; charset=utf-8"]]
        else:
            body = f["body"].replace("\x00", "").encode("utf-8")
            text = True
            if "classes" in sc or not body.isascii():
                # text bodies are UTF-8 and say so (model scenarios: always, as the model's second header)
                headers = [headers[0]] + [["content-type", "text/plain; charset=utf-8"]] + \
                          [[n, v] for n, v in headers[1:] if n.lower() != "content-type"]
        return f, headers, body, text

    def execute(self, sc):
        from mitmproxy import exceptions, http
        from mitmproxy.addons import export
        from mitmproxy.test import taddons, tflow

        f, headers, body, text = self._request(sc)
        self._cls = list(sc.get("classes") or [])
        seq = list(sc.get("seq") or [sc["fmt"]])
        enc = lambda s: s.encode("utf-8", "surrogateescape")  # noqa: E731
        hdr_bytes = [(enc(n), enc(v)) for n, v in headers] + [(b"content-length", str(len(body)).encode())]
        req = http.Request(host=f["host"], port=8080, method=enc(f["method"]), scheme=b"http", authority=b"",
                           path=enc("/" + f["path"]), http_version=b"HTTP/1.1", headers=http.Headers(hdr_bytes),
                           content=body, trailers=None, timestamp_start=1.0, timestamp_end=2.0)
        flow = tflow.tflow(req=req)  # ONE flow, exported len(seq) times
        flow.server_conn.peername = ("192.0.2.7", 8080)
        field = sc.get("field", "mixed")
        field = "body" if field == "getbody" else field
        trace = []
        with taddons.context() as tctx:
            e = export.Export()
            tctx.configure(e, export_preserve_original_ip=bool(sc.get("preserve_ip")))
            for nth, fmt in enumerate(seq, 1):
                self._n += 1
                base = self._dir / "run" / f"{os.getpid()}-{self._n}"
                cmdfile = Path(str(base) + ".vfcmd")
                try:
                    try:
                        e.file("raw_request" if fmt == "raw" else fmt, flow, str(cmdfile))
                    except Exception as ex:  # the exporter's answer (CommandError) or a crash inside it: an observation
                        trace.append({"k": "refused", "fmt": fmt, "nth": nth, "exc": type(ex).__name__})
                        continue
                    if not cmdfile.exists():
                        trace.append({"k": "refused", "fmt": fmt, "nth": nth, "exc": "nofile"})
                        continue
                    data = cmdfile.read_bytes()
                    if fmt == "raw":
                        ev = self._raw_event(data, f, hdr_bytes, body, field)
                    else:
                        ev = self._run_event(fmt, data, cmdfile, base, f, hdr_bytes, body, text, field)
                    ev["nth"] = nth
                    trace.append(ev)
                finally:
                    for suf in (".vfcmd", ".argv", ".stdin", ".log"):
                        try:
                            os.unlink(str(base) + suf)
                        except OSError:
                            pass
        return trace

    # -- raw --
    def _raw_event(self, data, f, hdr_bytes, body, field):
        enc = lambda s: s.encode("utf-8", "surrogateescape")  # noqa: E731
        want_h = [n + SEP.encode() + v for n, v in hdr_bytes]
        try:
            p = parse_http1_request(data)
        except ValueError:
            p = None
        if p is None:
            got = (b"<unparsable>",) * 3 + ([b"<unparsable>"], b"<unparsable>")
        else:
            got = p
        hw, hg = intern_lists(want_h, list(got[3]))
        return {"k": "raw", "field": field, "cls": self._cls, "parsed": p is not None, "m": pair(enc(f["method"]), got[0]), "t": pair(enc("/" + f["path"]), got[1]),
                "v": pair(b"HTTP/1.1", got[2]), "h_w": hw, "h_g": hg, "b": pair(body, got[4])}

    # -- curl / httpie --
    def _run_event(self, fmt, data, cmdfile, base, f, hdr_bytes, body, text, field):
        enc = lambda s: s.encode("utf-8", "surrogateescape")  # noqa: E731
        log = str(base) + ".log"
        env = {"PATH": str(self._dir / "bin"), "BASH_ENV": str(self._dir / "env.sh"), "VF_LOG": log, "VF_OUT": str(base),
               "LC_ALL": "C.UTF-8", "HOME": str(self._dir)}
        err = None
        for _attempt in range(2):
            for suf in (".argv", ".stdin", ".log"):
                try:
                    os.unlink(str(base) + suf)
                except OSError:
                    pass
            try:
                p = subprocess.run(["/bin/bash", str(cmdfile)], env=env, cwd=str(self._dir / "run"),
                                   stdin=subprocess.DEVNULL, capture_output=True, timeout=300)
                err = p.stderr
                break
            except subprocess.TimeoutExpired:
                continue
        if err is None:
            # an overloaded machine, not a verdict about the export: machinery failure (exit 2)
            raise RuntimeError("bash did not finish the exported command within 300 s (twice)")
        prog = "curl" if fmt == "curl" else "http"
        cmds, nprog, other = [], 0, 0
        try:
            lines = Path(log).read_bytes().split(b"\n")
        except OSError:
            lines = []
        for ln in lines:
            if ln.startswith(b"CMD:"):
                cmds.append(ln[4:].decode("utf-8", "replace")[:40])
            elif ln.startswith(b"RUN:"):
                if ln[4:].decode("utf-8", "replace") == prog:
                    nprog += 1
                else:
                    other += 1
            elif ln.startswith(b"UNKNOWN:"):
                other += 1
        argvs = []
        try:
            blob = Path(str(base) + ".argv").read_bytes()
            pos = 0
            while pos < len(blob) and blob[pos:pos + 1] == b"R":
                nl = blob.index(b"\n", pos)
                argc = int(blob[pos + 1:nl])
                pos = nl + 1
                rec = []
                for _ in range(argc):
                    nl = blob.index(b"\n", pos)
                    ln = int(blob[pos:nl])
                    rec.append(blob[nl + 1:nl + 1 + ln])
                    pos = nl + 1 + ln
                argvs.append(rec)
        except (OSError, ValueError):
            pass
        try:
            stdin = Path(str(base) + ".stdin").read_bytes()
        except OSError:
            stdin = b""
        sherr = nprog == 0 or b"syntax error" in err or b"unexpected EOF" in err
        argv = argvs[0] if argvs else [prog.encode()]
        # the request as it is, independent of the exporter's own helpers
        want_m = enc(f["method"])
        want_u = enc("http://%s:8080/%s" % (f["host"], f["path"]))
        want_h = []
        compressed_wanted = False
        for n, v in hdr_bytes:
            ln = n.lower()
            if ln == b"content-length":
                continue
            if fmt == "curl" and ln == b"accept-encoding":
                compressed_wanted = True
                continue
            want_h.append(n + SEP.encode() + v)
        if fmt == "curl":
            got_m, got_u, got_h, got_b, compressed = curl_decode(argv)
            got_h = [h for h in got_h if not h.lower().startswith(b"content-length" + SEP.encode())]
            if compressed_wanted:
                want_h.append(b"accept-encoding" + SEP.encode() + b"<any>")
            if compressed:
                got_h.append(b"accept-encoding" + SEP.encode() + b"<any>")
        else:
            got_m = argv[1] if len(argv) > 1 else b""
            got_u = argv[2] if len(argv) > 2 else b""
            got_h = []
            for item in argv[3:]:
                n, s, v = item.partition(b":")
                got_h.append(n + SEP.encode() + v.lstrip(b" \t") if s else b"<no header item> " + item)
            got_b = stdin
        hw, hg = intern_lists(want_h, got_h)
        btxt = body.decode("utf-8", "replace")
        url_txt = "%s/%s" % (f["host"], f["path"])
        tags = []
        if btxt.startswith("@"):
            tags.append("body_at")
        if "\\" in btxt:
            tags.append("body_bs")
        if any(ord(c) < 32 for c in btxt):
            tags.append("body_ctl")
        if btxt.startswith("-"):
            tags.append("body_hy")
        if "%" in btxt:
            tags.append("body_pct")
        if btxt.endswith("\n"):
            tags.append("body_trail_nl")
        if f["method"] == "GET" and body:
            tags.append("get_with_body")
        if any(n.startswith(b"@") for n, _ in hdr_bytes):
            tags.append("hdr_at")
        if any(v == b"" for n, v in hdr_bytes if n.lower() != b"content-length"):
            tags.append("hdr_empty_value")
        if any(c in url_txt for c in "[]{}"):
            tags.append("url_glob")
        return {"k": "run", "fmt": fmt, "field": field, "cls": self._cls, "cmds": cmds, "nprog": nprog, "other": other, "sherr": bool(sherr),
                "m": pair(want_m, got_m), "u": pair(want_u, got_u), "h_w": hw, "h_g": hg, "b": pair(body, got_b),
                "text": bool(text), "tags": tags}
