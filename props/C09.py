"""C09 -- connection lifecycle events pair up and per-destination concurrency is bounded.

Model: spec/ConnHandler/ConnHandler.tla   Monitor: Mon_ConnHandler.tla
Real code: mitmproxy.proxy.server.ConnectionHandler (handle_client / open_connection / handle_connection /
drain_writers / close_connection / on_timeout / server_event) through mode_servers.ProxyConnectionHandler, run under the
virtual-time loop (lib/vf/vloop.py) against a fake network (lib/vf/fakenet.py).  The top layer is a scripted
mitmproxy Layer: it turns command messages arriving on the client connection into OpenConnection / CloseConnection /
CloseTcpConnection(half_close) / SendData commands and reacts to ConnectionClosed according to the scenario's policy.
"""
from __future__ import annotations

import asyncio
import collections
import dataclasses
import json
import random

from vf import core

ADDRS = {"a": ("a.test", 80), "b": ("b.test", 80)}
TCP_TIMEOUT = 10
LIFECYCLE = ("client_connected", "client_disconnected", "server_connect", "server_connected", "server_connect_error",
             "server_disconnected")


_SCRIPT_HOOK = None


def _script_hook():
    """A flow-style hook class for the scripted layer (defined once: mitmproxy registers hook classes by name)."""
    global _SCRIPT_HOOK
    if _SCRIPT_HOOK is None:
        from mitmproxy.proxy import commands

        @dataclasses.dataclass
        class ScriptHook(commands.StartHook):
            name = "script_hook"
            n: int

        _SCRIPT_HOOK = ScriptHook
    return _SCRIPT_HOOK


def run_scenario(sc: dict) -> list[dict]:
    """Run one scenario on the real ConnectionHandler; return the projected trace."""
    import logging

    from vf import fakenet, sansio, vloop

    from mitmproxy import connection
    from mitmproxy.proxy import commands, events, layer, mode_servers
    from mitmproxy.proxy.mode_specs import ProxyMode

    logging.disable(logging.CRITICAL)  # "mitmproxy has crashed!" etc. are not observations of this property
    ops = sc["ops"]
    eager = bool(sc.get("eager", False))
    k_override = sc.get("k")
    slow = set(sc.get("slow", ()))  # hook names that wait for ["release", name, c]
    kill = set(sc.get("kill", ()))  # conn indices whose server_connect hook sets server.error
    kill_client = bool(sc.get("kill_client", False))
    lenient = bool(sc.get("lenient", False))  # random driver: skip actions that are not enabled instead of stopping
    policy = {"close_on_ceof": True, "close_on_seof": True, "echo": False, "greet": False}
    policy.update(sc.get("policy", {}))

    trace: list[dict] = []
    addr_name = {v: k for k, v in ADDRS.items()}

    async def main(loop):
        if eager:
            loop.set_task_factory(asyncio.eager_task_factory)
        conns: list = []  # Server objects by creation order; index+1 = conn id, 0 = client
        conn_ids: dict[int, int] = {}

        def cid(conn) -> int:
            return conn_ids.get(id(conn), -1)

        closed = {"v": False}

        def rec(r):
            if not closed["v"]:  # nothing is recorded after the end record (vloop.run cancels leftovers afterwards)
                trace.append(r)

        def netlog(r):
            k = r["k"]
            if k == "dial":
                rec({"k": "dial", "c": r["c"], "a": addr_name.get(tuple(r["addr"]), "?")})
            elif k == "sock_open":
                c = att_conn.get(r["att"], -1)
                sock_name[r["s"]] = c if c > 0 else 1000 + r["s"]
                rec({"k": "sock_open", "s": sock_name[r["s"]], "a": addr_name.get(tuple(r["addr"]), "?"), "c": c})
            elif k == "sock_close":
                rec({"k": "sock_close", "s": sock_name.get(r["s"], 1000 + r["s"])})

        sock_name: dict[int, int] = {0: 0}  # fake socket index -> id used in the trace (server sockets: their conn id)
        net = fakenet.FakeNet(netlog)
        att_conn: dict[int, int] = {}
        h = None

        task_conn: dict = {}  # open_connection task -> conn id (recorded by the Handler.open_connection wrapper)

        def on_dial(att):
            c = task_conn.get(att.task, -1)
            att_conn[att.id] = c
            return {"c": c}

        net.on_dial = on_dial

        gates: dict[tuple, asyncio.Future] = {}
        gating = {"on": True}

        class Addons:
            async def handle_lifecycle(self, hook):
                name = hook.name
                if name not in LIFECYCLE:
                    return
                (data,) = hook.args()
                c = 0 if name.startswith("client_") else cid(data.server)
                if name == "server_connect" and c in kill:
                    data.server.error = "killed by addon"
                if name == "client_connected" and kill_client:
                    data.error = "killed by addon"
                if gating["on"] and name in slow:
                    fut = loop.create_future()
                    gates[(name, c)] = fut
                    await fut

        class Master:
            addons = Addons()

        class Handler(mode_servers.ProxyConnectionHandler):
            async def open_connection(self, command):
                task_conn[asyncio.current_task()] = cid(command.connection)
                return await super().open_connection(command)

            async def handle_hook(self, hook):
                name = hook.name
                if name not in LIFECYCLE:
                    return await super().handle_hook(hook)
                (data,) = hook.args()
                c = 0 if name.startswith("client_") else cid(data.server)
                a = "" if c == 0 else addr_name.get(tuple(data.server.address or ()), "?")
                r = {"k": "hook", "name": name, "c": c, "a": a}
                if name == "server_connect":
                    r["kill"] = c in kill  # input of the scenario: the stub addon will set server.error in this hook
                rec(r)
                try:
                    await super().handle_hook(hook)
                except asyncio.CancelledError:
                    rec({"k": "hook_end", "name": name, "c": c, "how": "cancelled"})
                    raise
                rec({"k": "hook_end", "name": name, "c": c, "how": "ok"})

        ScriptHook = _script_hook()

        class Child(layer.Layer):
            """Owns one upstream connection; blocks on its OpenConnection like a real protocol layer does."""

            def __init__(self, context, srv):
                super().__init__(context)
                self.srv = srv

            def _handle_event(self, event):
                if isinstance(event, events.Start):
                    err = yield commands.OpenConnection(self.srv)
                    rec({"k": "reply", "c": cid(self.srv), "ok": err is None})
                    if err is None and policy["greet"]:
                        yield commands.SendData(self.srv, b"hello")
                elif isinstance(event, events.DataReceived):
                    if policy["echo"]:
                        yield commands.SendData(self.context.client, b"echo")
                elif isinstance(event, events.ConnectionClosed):
                    if policy["close_on_seof"]:
                        yield commands.CloseConnection(self.srv)

        class Script(layer.Layer):
            """Parent layer: never blocks itself (commands of children pass through, as in HttpLayer)."""

            def __init__(self, context):
                super().__init__(context)
                self.buf = b""
                self.children: dict = {}
                self.command_sources: dict = {}
                self.after_hook: dict = {}
                self.hooks: list = []

            def to_child(self, child, event):
                for command in child.handle_event(event):
                    if command.blocking:
                        self.command_sources[command] = child
                    yield command

            def _handle_event(self, event):
                client = self.context.client
                if isinstance(event, events.HookCompleted) and id(event.command) in self.after_hook:
                    for lop in self.after_hook.pop(id(event.command)):
                        yield from self.do(lop)
                elif isinstance(event, events.CommandCompleted):
                    child = self.command_sources.pop(event.command, None)
                    if child is not None:
                        yield from self.to_child(child, event)
                elif isinstance(event, events.DataReceived) and event.connection is client:
                    self.buf += event.data
                    while b"\n" in self.buf:
                        line, self.buf = self.buf.split(b"\n", 1)
                        for lop in json.loads(line):
                            yield from self.do(lop)
                elif isinstance(event, events.ConnectionClosed) and event.connection is client:
                    if policy["close_on_ceof"]:
                        yield commands.CloseConnection(client)
                elif isinstance(event, events.ConnectionEvent):
                    child = self.children.get(id(event.connection))
                    if child is not None:
                        yield from self.to_child(child, event)

            def do(self, lop):
                kind = lop[0]
                if kind == "open":
                    srv = connection.Server(address=ADDRS[lop[1]] if lop[1] in ADDRS else None)
                    conns.append(srv)
                    conn_ids[id(srv)] = len(conns)
                    rec({"k": "open_cmd", "c": len(conns), "a": lop[1]})
                    child = self.children[id(srv)] = Child(self.context.fork(), srv)
                    yield from self.to_child(child, events.Start())
                    return
                if kind == "hook":  # a non-blocking-for-the-parent flow hook, as protocol layers issue all the time
                    hk = ScriptHook(len(self.hooks))
                    hk.blocking = self  # marked like a blocking command of a child layer: the parent itself does not pause
                    self.hooks.append(hk)
                    self.after_hook[id(hk)] = lop[1]
                    yield hk
                    return
                c = lop[1]
                conn = self.context.client if c == 0 else (conns[c - 1] if 0 < c <= len(conns) else None)
                if conn is None:
                    return
                if kind == "close":
                    yield commands.CloseConnection(conn)
                elif kind == "half":
                    yield commands.CloseTcpConnection(conn, half_close=True)
                elif kind == "send":
                    yield commands.SendData(conn, b"data")

        opts = sansio.make_options(tcp_timeout=TCP_TIMEOUT)
        csock = net.new_sock(("client", 1234), ("127.0.0.1", 8080))
        with net.patched():
            h = Handler(Master(), csock.reader, csock.writer, opts, ProxyMode.parse("regular"))
            conn_ids[id(h.client)] = 0
            if k_override:
                h.max_conns = collections.defaultdict(lambda: asyncio.Semaphore(k_override))
            h.layer = Script(h.layer.context)
            rec({"k": "accept", "s": csock.id, "factory": "eager" if eager else "default"})
            hc = asyncio.ensure_future(h.handle_client())
            await vloop.settle()
            ceof = {"done": False}

            def sock_of(c):
                if c == 0:
                    return csock
                for att in net.attempts:
                    if att_conn.get(att.id) == c and att.sock is not None:
                        return att.sock
                return None

            def pending_attempt(c):
                for att in net.attempts:
                    if att_conn.get(att.id) == c and att.pending:
                        return att
                return None

            def act(op) -> bool:
                """Perform one environment action (no settling).  False: not enabled on the real objects."""
                kind = op[0]
                if kind == "cmd":
                    if ceof["done"] or not csock.open:
                        return False
                    csock.feed(json.dumps(op[1]).encode() + b"\n")
                elif kind == "cdata":
                    if ceof["done"] or not csock.open:
                        return False
                    csock.feed(b"[]\n")
                elif kind == "ceof":
                    if ceof["done"]:
                        return False
                    ceof["done"] = True
                    csock.eof()
                elif kind in ("ok", "fail"):
                    att = pending_attempt(op[1])
                    if att is None:
                        return False
                    att.succeed() if kind == "ok" else att.refuse()
                elif kind in ("sdata", "seof", "serr"):
                    s = sock_of(op[1])
                    if s is None or not s.open or s.reader.at_eof() or s.reader.exception() or getattr(s, "_eof_fed", False):
                        return False
                    if kind == "sdata":
                        s.feed(b"payload")
                    elif kind == "seof":
                        s._eof_fed = True
                        s.eof()
                    else:
                        s._eof_fed = True
                        s.read_error()
                elif kind == "break":
                    s = sock_of(op[1])
                    if s is None or not s.open or s.writer.broken:
                        return False
                    s.writer.break_write()
                elif kind == "pause":
                    s = sock_of(op[1])
                    if s is None or not s.open:
                        return False
                    s.writer.pause()
                elif kind == "resume":
                    s = sock_of(op[1])
                    if s is None:
                        return False
                    s.writer.resume()
                elif kind == "release":
                    fut = gates.get((op[1], op[2]))
                    if fut is None or fut.done():
                        return False
                    fut.set_result(None)
                else:
                    return False  # unknown here (e.g. "timeout" inside a burst: time only passes while the loop is idle)
                return True

            diverged = False
            for op in ops:
                if hc.done() and op[0] != "timeout":
                    diverged = True
                    break
                if op[0] == "timeout":
                    await vloop.advance(TCP_TIMEOUT + 0.5)
                elif op[0] == "burst":
                    okay = [act(o) for o in op[1]]
                    await vloop.settle()
                    if not all(okay) and not lenient:
                        diverged = True
                        break
                else:
                    if not act(op) and not lenient:
                        diverged = True
                        break
                    await vloop.settle()
            # wrap-up: the environment lets everything finish (release hooks, client goes away, idle timeout)
            rec({"k": "wrapup", "diverged": diverged})
            for op in sc.get("probe", ()):  # e.g. the environment completes every connect that is pending
                if not hc.done() and act(op):
                    await vloop.settle()
            gating["on"] = False
            for _round in range(4):
                for fut in list(gates.values()):
                    if not fut.done():
                        fut.set_result(None)
                for s in net.socks:
                    s.writer.resume()
                await vloop.settle()
                if hc.done():
                    break
                if not ceof["done"]:
                    ceof["done"] = True
                    csock.eof()
                    await vloop.settle()
                else:
                    await vloop.advance(TCP_TIMEOUT + 0.5)
            await vloop.settle()
            me = asyncio.current_task()
            tasks = [t for t in asyncio.all_tasks(loop) if t is not me and not t.done()]
            live = 0
            for conn, io in h.transports.items():
                if (io.handler is not None and not io.handler.done()) or (io.writer is not None and not io.writer.is_closing()):
                    live += 1
            exc = ""
            if hc.done() and not hc.cancelled() and hc.exception() is not None:
                exc = type(hc.exception()).__name__
            rec({"k": "end", "hc_done": hc.done(), "exc": exc, "open_socks": len(net.open_socks()), "tasks": len(tasks),
                 "live_transports": live})
            closed["v"] = True

    vloop.run(main)
    return trace


def random_scenario(rng: random.Random) -> dict:
    """Seeded random environment, not bounded by the model's constants: up to 9 upstream connections, the real
    semaphore (no override), bursts (several completions in one loop iteration), slow hooks, write back-pressure and
    both task factories (mitmproxy's master installs asyncio.eager_task_factory)."""
    slow = [h for h in LIFECYCLE if rng.random() < 0.2]
    nconn = 0
    ops: list = []

    def one():
        nonlocal nconn
        r = rng.random()
        i = rng.randint(1, max(1, nconn))
        if r < 0.18 and nconn < 9:
            n = rng.choice([1, 1, 1, 2, 3, 6, 7])
            n = min(n, 9 - nconn)
            nconn += n
            return ["cmd", [["open", "a" if rng.random() < 0.8 else "b"] for _ in range(n)]]
        if r < 0.40:
            return ["ok", i]
        if r < 0.47:
            return ["fail", i]
        if r < 0.53:
            return ["sdata", i]
        if r < 0.59:
            return ["seof", i]
        if r < 0.62:
            return ["serr", i]
        if r < 0.72:
            return ["cmd", [["close", rng.randint(0, nconn) if rng.random() < 0.15 else i]]]
        if r < 0.76:
            return ["cmd", [["half", rng.randint(0, nconn)]]]
        if r < 0.78:
            return ["cmd", [["send", rng.randint(0, nconn)]]]
        if r < 0.80:  # a flow hook whose completion makes the layer close something
            return ["cmd", [["hook", [["close", rng.randint(0, nconn)]]]]]
        if r < 0.83:
            return ["break", rng.randint(0, nconn)]
        if r < 0.85:
            return ["pause", rng.randint(0, nconn)]
        if r < 0.87:
            return ["resume", rng.randint(0, nconn)]
        if r < 0.93 and slow:
            h = rng.choice(slow)
            return ["release", h, 0 if h.startswith("client_") else i]
        if r < 0.96:
            return ["ceof"]
        if r < 0.98:
            return ["cdata"]
        return ["timeout"]

    for _ in range(rng.randint(6, 28)):
        if rng.random() < 0.25:
            ops.append(["burst", [o for o in (one() for _ in range(rng.randint(2, 4))) if o[0] != "timeout"]])
        else:
            ops.append(one())
    return {"ops": ops, "slow": slow, "lenient": True, "eager": rng.random() < 0.5,
            "kill": [c for c in range(1, 10) if rng.random() < 0.08], "kill_client": rng.random() < 0.03,
            "policy": {"close_on_seof": rng.random() < 0.7, "close_on_ceof": rng.random() < 0.8,
                       "echo": rng.random() < 0.5, "greet": rng.random() < 0.5}}


def bound_scenario(rng: random.Random) -> dict:
    """6..9 OpenConnection commands to one address with the real semaphore; the environment completes every connect
    that is pending, closes some connections, completes again ...: more than five can only be open if the limit fails."""
    n = rng.randint(6, 9)
    ops: list = [["cmd", [["open", "a"]] * n]] if rng.random() < 0.5 else [["cmd", [["open", "a"]]] for _ in range(n)]
    for _round in range(rng.randint(1, 3)):
        order = list(range(1, n + 1))
        rng.shuffle(order)
        ops += [["burst", [["ok", i] for i in order]]] if rng.random() < 0.5 else [["ok", i] for i in order]
        for i in rng.sample(range(1, n + 1), rng.randint(0, 3)):
            ops.append(rng.choice([["cmd", [["close", i]]], ["seof", i], ["serr", i]]))
    ops.append(["ceof"])
    return {"ops": ops, "lenient": True, "eager": rng.random() < 0.5}


GATE_HOOK = {"g_server_connect": "server_connect", "g_kill_error": "server_connect_error",
             "g_server_connect_error": "server_connect_error", "g_server_connected": "server_connected",
             "g_server_disconnected": "server_disconnected", "g_client_connected": "client_connected",
             "g_client_disconnected": "client_disconnected"}


def _cfg(slow=(), seof=True, ceof=True, kill=(), killc=False, feat=("close", "fail"), batch=1, addrs=("a",), maxconns=2,
         maxops=4, burst=1):
    return {"slow": frozenset(slow), "seof": seof, "ceof": ceof, "kill": frozenset(kill), "killc": killc,
            "feat": frozenset(feat), "batch": batch, "addrs": frozenset(addrs), "maxconns": maxconns, "maxops": maxops,
            "burst": burst}


def cfgs(tier):
    """Scenario classes explored by the model (each is one family of initial states)."""
    c = _cfg
    if tier == "quick":
        return [
            c(addrs=("a", "b"), maxops=4),                                         # two destinations, close / refuse
            c(batch=3, maxconns=3, feat=("close", "fail", "eof"), maxops=4),       # third connection waits for the semaphore
            c(feat=("data", "eof", "err"), maxconns=1, maxops=4),                  # server activity, layer closes on EOF
            c(feat=("data", "eof", "close"), seof=False, maxconns=1, maxops=4),    # half-open server connection
            c(feat=("eof", "timeout", "close"), ceof=False, maxconns=1, maxops=4),  # client lingers: idle timeout
            c(feat=("half", "eof"), maxconns=1, maxops=4),                         # half-close commands
            c(feat=("break", "data", "half"), maxconns=1, maxops=4),               # write errors
            c(feat=("hook", "eof"), maxconns=1, maxops=3, burst=2),                # flow hooks; simultaneous completions
            c(kill=(1,), maxconns=2, maxops=3), c(killc=True, maxops=2),           # addons kill connections
            c(slow=("server_connect",), maxconns=1, maxops=3),
            c(slow=("server_connected",), maxconns=1, maxops=4),
            c(slow=("server_disconnected",), feat=("close", "eof"), maxconns=1, maxops=4),
            c(slow=("server_connect_error",), kill=(2,), maxconns=2, maxops=4),
            c(slow=("client_disconnected",), maxconns=1, maxops=4),
            c(slow=("client_connected",), maxconns=1, maxops=2),
        ]
    allf = ("close", "fail", "data", "eof", "err", "half", "break", "timeout", "hook")
    out = []
    for seof in (True, False):
        for ceof in (True, False):
            out.append(c(feat=allf, seof=seof, ceof=ceof, addrs=("a", "b"), maxconns=2, maxops=5))
    out.append(c(feat=("close", "fail", "eof", "hook"), addrs=("a", "b"), maxconns=2, maxops=5, burst=2))
    out.append(c(batch=3, maxconns=3, feat=("close", "fail"), maxops=5, burst=3))
    out.append(c(batch=3, maxconns=3, feat=("close", "fail", "eof", "err", "half"), maxops=6))
    out.append(c(batch=3, maxconns=3, feat=("close", "fail", "eof"), seof=False, maxops=6))
    for h in ("server_connect", "server_connected", "server_disconnected", "server_connect_error", "client_disconnected",
              "client_connected"):
        out.append(c(slow=(h,), feat=("close", "fail", "eof", "timeout"), kill=(2,), maxconns=2, maxops=5))
    out.append(c(slow=("server_connect", "server_connected", "server_disconnected"), batch=3, maxconns=3, maxops=5))
    out.append(c(kill=(1,), maxconns=2, maxops=4, feat=allf))
    out.append(c(killc=True, maxops=2))
    return out


class Check(core.PropertyCheck):
    ID = "C09"
    SPEC_DIR = "ConnHandler"
    MODEL = "ConnHandler"
    MON = "Mon_ConnHandler"
    REQUIRED_WITNESSES = ("client_pair", "connected", "connect_error", "disconnected", "connect_error_after_client_gone",
                          "disconnected_after_client_gone", "disconnected_before_client_gone", "k_open", "end_with_upstream")
    REQUIRED_ACTIONS = ("Cmd", "CEof", "ConnOk", "ConnFail", "SData", "SEof", "SErr", "Break", "Release", "ReleaseClient",
                        "Timeout", "Settle", "End")
    ASSUMPTIONS = (
        "virtual-time asyncio loop (FIFO ready queue) and a fake network: asyncio.open_connection is replaced by a fake "
        "whose completion / refusal is released by the scenario; sockets are a real asyncio.StreamReader plus a recording "
        "writer (drain raises OSError once the scenario breaks the peer); real sockets, the OS and mitmproxy_rs are not exercised",
        "the top layer is a scripted mitmproxy Layer (parent + one child per upstream connection, children block on "
        "OpenConnection like protocol layers do); hooks reach a stub master through the real ProxyConnectionHandler.handle_hook",
        "'open at the same time' is counted at the fake network: from a successful connect until mitmproxy closes the writer",
        "'no connection resources remain' is judged after the client is gone, all slow hooks have returned and the loop is "
        "idle: no fake socket open, no task pending",
        "model-driven scenarios with Cap < 5 replace handler.max_conns by semaphores of that capacity (instance attribute); "
        "the bound K = 5 itself is exercised by scenarios that do not override it",
    )
    PROCS = 1

    def mon_constants(self, tier):
        return {"K": 5}

    def model_constants(self, tier):
        return {"K": 2, "Cap": 2, "MaxConns": 3, "Addrs": frozenset({"a", "b"}), "Cfgs": (),
                "SemCancelReports": False, "HookCancelReports": False}

    BOUND = {"K": 5, "Cap": 5, "MaxConns": 7}

    def bound_cfgs(self, tier):
        # seven OpenConnection commands to one address in one event: five dial, two wait for the semaphore
        out = [_cfg(batch=7, maxconns=7, feat=("close", "fail", "eof"), maxops=10 if tier == "quick" else 12)]
        if tier != "quick":
            out.append(_cfg(batch=7, maxconns=7, feat=("close", "fail", "eof", "half"), seof=False, maxops=12))
        return out

    def model_runs(self, ctx):
        base = self.model_constants(ctx.tier)
        if ctx.quick:
            main = ctx.model_check(self.MODEL, base | {"Cfgs": tuple(cfgs("quick"))}, dump=True)
        else:
            # dumped graph: the quick scenario classes one environment action deeper, with simultaneous completions
            mid = tuple(c | {"maxops": c["maxops"] + 1, "burst": max(c["burst"], 2 if c["maxconns"] == 1 else 1)} for c in cfgs("quick"))
            main = ctx.model_check(self.MODEL, base | {"Cfgs": mid}, dump=True)
        self._extra_behs = []
        # the bound K = 5 as the code has it (no override): too large to dump -> random behaviours of the same model
        bconsts = base | self.BOUND | {"Cfgs": tuple(self.bound_cfgs(ctx.tier))}
        behs, r = ctx.simulate(self.MODEL, bconsts, num=150 if ctx.quick else 1500, depth=30, tag="bound")
        self._extra_behs += [(b, 5) for b in behs]
        ctx.notes["bound_model"] = {"constants": dict(self.BOUND), "simulated_behaviours": len(behs), "states_generated": r.generated}
        runs = [main]
        required, self.REQUIRED_ACTIONS = self.REQUIRED_ACTIONS, ()   # auxiliary instances need not take every action
        try:
            self._aux_runs(ctx, base, bconsts, runs)
        finally:
            self.REQUIRED_ACTIONS = required
        return runs

    def _aux_runs(self, ctx, base, bconsts, runs):
        if not ctx.quick:
            big = base | {"Cfgs": tuple(cfgs("thorough"))}
            runs.append(ctx.model_check(self.MODEL, big, dump=False, tag="_big"))
            behs, r = ctx.simulate(self.MODEL, big, num=2000, depth=40, tag="big")
            self._extra_behs += [(b, base["Cap"]) for b in behs]
            ctx.notes["big_model_simulated_behaviours"] = len(behs)
            runs.append(ctx.model_check(self.MODEL, bconsts | {"Cfgs": (_cfg(batch=7, maxconns=7, feat=("close", "fail"), maxops=6),)},
                                        dump=False, tag="_bound"))
        return runs

    # ---- behaviours -> scenarios -------------------------------------------------------------------------
    @staticmethod
    def _scenario(beh, cap):
        """Model behaviour -> harness scenario (environment actions grouped by Settle) + predicted records."""
        init = beh[0][2]
        cfg = init["cfg"]
        # cut environment actions after the last Settle / End: the harness always lets the loop run after acting
        last = max((k for k, (n, _a, _s) in enumerate(beh) if n in ("Settle", "End")), default=0)
        beh = beh[: last + 1]
        ops, group = [], []
        prev = init
        for name, args, st in beh[1:]:
            if name == "Settle":
                if len(group) == 1:
                    ops.append(group[0])
                elif group:
                    ops.append(["burst", group])
                group = []
            elif name == "End":
                pass
            elif name == "Cmd":
                lop = args[0]
                if lop["op"] == "open":
                    group.append(["cmd", [["open", lop["a"]]] * lop["c"]])
                elif lop["op"] == "hook":
                    group.append(["cmd", [["hook", [["close", lop["c"]]]]]])
                else:
                    group.append(["cmd", [[lop["op"], lop["c"]]]])
            elif name == "CEof":
                group.append(["ceof"])
            elif name == "Timeout":
                group.append(["timeout"])
            elif name == "ReleaseClient":
                group.append(["release", GATE_HOOK[prev["s"]["hc"]["pc"]], 0])
            elif name == "Release":
                i = args[0]
                group.append(["release", GATE_HOOK[prev["s"]["t"][i]["pc"]], i])
            else:
                group.append([{"ConnOk": "ok", "ConnFail": "fail", "SData": "sdata", "SEof": "seof", "SErr": "serr",
                               "Break": "break"}[name], args[0]])
            prev = st
        pred = [e for e in core.predicted_events(beh) if e["k"] != "end"]
        sc = {"ops": ops, "slow": sorted(cfg["slow"]), "kill": sorted(cfg["kill"]), "kill_client": bool(cfg["killc"]),
              "policy": {"close_on_seof": bool(cfg["seof"]), "close_on_ceof": bool(cfg["ceof"])}}
        if cap != 5:
            sc["k"] = cap
        return core.Scenario(sc, predicted=pred, source="model")

    def scenarios(self, ctx, models):
        g = models[0].graph
        cap = models[0].constants["Cap"]
        behs = g.edge_cover(ctx.rng, max_len=60, tail=12)
        behs += g.random_walks(ctx.rng, 60 if ctx.quick else 3000, 60)
        for i, b in enumerate(behs):
            sc = self._scenario(b, cap)
            yield sc
            if not ctx.quick and i % 2:
                continue
            # the same environment under asyncio.eager_task_factory (what mitmproxy's master installs): judged by the
            # monitor only -- the model describes the default factory
            yield core.Scenario(sc.data | {"eager": True, "lenient": True}, source="model-eager")
        for b, k in self._extra_behs:
            sc = self._scenario(b, k)
            sc.source = "simulate"
            if k == 5:  # bound instance: afterwards every pending connect succeeds (at most five can be pending)
                sc.data["probe"] = [["ok", i] for i in range(1, self.BOUND["MaxConns"] + 1)]
            yield sc
        rng = random.Random(ctx.seed + 9)
        for _ in range(40 if ctx.quick else 400):
            yield core.Scenario(bound_scenario(rng), source="bound")
        for _ in range(500 if ctx.quick else 8000):
            yield core.Scenario(random_scenario(rng), source="random")

    def drift_view(self, trace):
        out = []
        for e in trace:
            if e["k"] == "wrapup":
                break
            out.append(e)
        return out

    def execute(self, sc):
        return run_scenario(sc)
