"""X03 (coverage extension, not one of the 54 given properties) -- the rule addons modify_headers, modify_body,
map_remote, map_local and their rule syntax (utils/spec.py).

Model: spec/ModifyRules/ModifyRules.tla   Monitor: Mon_ModifyRules.tla
Real code: mitmproxy.addons.{modifyheaders,modifybody,mapremote,maplocal}, mitmproxy.utils.spec, behind a real
Options object and a real AddonManager (hooks are delivered with AddonManager.trigger in the default chain order).

The abstract domain of the monitor (header = name id / value id, bodies and file contents = token sequences, URL =
host id + path segments) is concretised here; the tables below are the trusted base of the projection.
"""
from __future__ import annotations

import logging
import os
import random
import shutil
import tempfile
from pathlib import Path

from vf import core, tlaval

# ---- concretisation tables -------------------------------------------------------------------------------------
HN = {1: b"X-Alpha", 2: b"X-Beta", 3: b"X-Gamma"}
HV = {1: b"v-one", 2: b"v-two", 3: b"v three; q=0.5", 4: b"v\xc3\xa9\\4", 5: b"v-five"}
# body / file tokens: self-delimiting (each ends with ';', none contains another); 4 has a newline, 5 and 7 look like
# regex group references, 6 is not UTF-8
BT = {1: b"aa;", 2: b"bb;", 3: b"cc;", 4: b"d\nd;", 5: b"\\1;", 6: b"\xc3\xa9\xff;", 7: b"\\g<0>;"}
SEG = {1: "alpha", 2: "beta", 3: "gamma", 4: "delta", 5: "eps", 6: "we%21rd", 8: "index.html", 9: ".."}
# names on disk: 16 = escaped form of 6 ("we!rd"), 40 + t = escaped form of "<t>?k=v" (capturing-group rules keep the query)
DISK = {**{k: v for k, v in SEG.items() if k != 6}, 16: "we_rd", 46: "we_rd_k=v",
        **{40 + k: v + "_k=v" for k, v in {1: "alpha", 2: "beta", 3: "gamma", 4: "delta", 5: "eps", 8: "index.html"}.items()}}
HOST = {1: "a.example", 2: "b.example", 3: "c.example"}
METH = {1: "GET", 2: "POST"}
OPT = {"mh": "modify_headers", "mb": "modify_body", "mr": "map_remote", "ml": "map_local"}
SEPS = "/|:,#%&=+"
ALL = ("all", 0, False)


def rule(ad, f=ALL, s=(), r=(), file=0, host=0, rhost=0, lp="", bad="", grp=False):
    return {"ad": ad, "bad": bad, "f": {"t": f[0], "a": f[1], "neg": bool(f[2])}, "s": [list(x) if isinstance(x, (list, tuple)) else x for x in s],
            "r": list(r), "file": file, "host": host, "rhost": rhost, "lp": lp, "grp": grp}


def ffile(c, present=True):
    return {"present": present, "c": list(c)}


# ---- rendering (abstract rule -> option string) ------------------------------------------------------------------
def _lit(b: bytes, rng, hexrate=0.1) -> str:
    """option text that codecs.escape_decode turns into the bytes b"""
    out = []
    for c in b:
        ch = chr(c)
        if c < 128 and ch.isalnum():
            out.append(ch if rng.random() >= hexrate else "\\x%02x" % c)
        elif ch in "-_;=. <>":
            out.append(ch)
        elif ch == "\\":
            out.append("\\\\")
        elif ch == "\n":
            out.append("\\n")
        else:
            out.append("\\x%02x" % c)
    return "".join(out)


def _rx(b: bytes, rng) -> str:
    """option text of a bytes regex that matches exactly b"""
    out = []
    for c in b:
        ch = chr(c)
        if c < 128 and ch.isalnum():
            v = rng.random()
            out.append(ch if v < 0.8 else "[%s]" % ch if v < 0.9 else "\\x%02x" % c)
        elif ch in ";-_= <>":
            out.append(ch)
        elif ch == "\\":
            out.append("\\\\\\\\")  # regex: escaped backslash; option text: both doubled again
        elif ch == "\n":
            out.append("\\n")
        elif ch == ".":
            out.append("[.]")
        else:
            out.append("\\x%02x" % c)
    return "".join(out)


def _rxs(s: str, rng) -> str:
    """a str regex (map_remote / map_local: no escape processing) that matches exactly s"""
    return "".join(("\\." if rng.random() < 0.7 else "[.]") if ch == "." else ch for ch in s)


def _filter_text(f, rng) -> str:
    t, a = f["t"], f["a"]
    if t == "all":
        x = "~all"
    elif t in ("q", "s"):
        x = "~" + t
    elif t == "m":
        x = "~m " + METH[a]
    elif t in ("hq", "hs"):
        n = HN[a].decode()
        x = "~%s %s" % (t, rng.choice([n.lower() + ":", "^" + n + ":", n.upper() + ":"]))
    elif t in ("bq", "bs"):
        x = "~%s %s" % (t, BT[a].decode())
    else:
        x = "~u /" + SEG[a]
    if f["neg"]:
        x = rng.choice(["!%s", "! %s"]) % x
    return x


def render(r, rng) -> str:
    """One option string for the abstract rule r ({F<n>} / {ROOT} stand for paths filled in at execution time)."""
    ad, bad = r["ad"], r["bad"]
    if bad == "empty":
        return ""
    has_filter = r["f"]["t"] != "all" or rng.random() < 0.15
    ftxt = _filter_text(r["f"], rng) if has_filter else None
    if ad == "mh":
        name = HN[r["s"][0]].decode()
        subj = rng.choice([name, name.lower(), name.upper()])
        repl = "@{F%d}" % r["file"] if r["file"] else (_lit(HV[r["r"][0]], rng) if r["r"] else "")
    elif ad == "mb":
        subj = ""
        for alts in r["s"]:
            subj += _rx(BT[alts[0]], rng) if len(alts) == 1 else "(?:%s)" % "|".join(_rx(BT[t], rng) for t in alts)
        if rng.random() < 0.15 and subj:
            subj = "(?:%s)" % subj
        repl = "@{F%d}" % r["file"] if r["file"] else _lit(cat_body(r["r"]), rng)
    elif ad == "mr":
        path = "".join("/" + SEG[t] for t in r["s"])
        rpath = "".join("/" + SEG[t] for t in r["r"])
        if r["host"]:
            subj = "//" + _rxs(HOST[r["host"]], rng) + (path or "/")
            repl = "//" + HOST[r["rhost"] or r["host"]] + (rpath if path else "/")
        else:
            subj, repl = _rxs(path, rng), rpath
    else:  # ml
        path = "".join("/" + SEG[t] for t in r["s"])
        subj = (_rxs(HOST[r["host"]], rng) + path) if r["host"] else _rxs(path, rng)
        if r.get("grp"):
            subj += rng.choice(["/(.*)", "/(.+)", "/(.*)$"])
        repl = "{F%d}" % r["file"] if r["lp"] == "file" else "{ROOT}"
    if bad == "regex":
        subj = subj + rng.choice(["(", "[", "(?P<"]) if ad != "mh" else subj
    if bad == "filter":
        ftxt = rng.choice(["~~", "", "(", "~nosuchop x"])
    parts = ([ftxt] if ftxt is not None else []) + [subj, repl]
    body = "".join(parts)
    seps = [c for c in SEPS if c not in body and c not in "{ROOT}{F}"]
    if ftxt is not None and rng.random() < 0.3:
        # with a filter part the replacement is "the rest": it may contain the separator
        inrepl = [c for c in SEPS if c in repl and c not in (ftxt + subj) and not repl.startswith("@") and "{" not in repl]
        seps = inrepl or seps
    if "{" in repl or "{" in subj:  # paths contain '/'
        seps = [c for c in seps if c != "/"]
    sep = rng.choice(seps)
    if bad == "parts":
        return rng.choice([sep, sep + subj, sep + "x", "x"])
    return sep + sep.join(parts)


# ---- projection (real objects -> abstract records) -----------------------------------------------------------------
_BT_SORTED = sorted(BT.items(), key=lambda kv: -len(kv[1]))
_HN_LOW = {v.lower(): k for k, v in HN.items()}
_HV_REV = {v: k for k, v in HV.items()}
_SEG_REV = {v: k for k, v in SEG.items()}
_HOST_REV = {v: k for k, v in HOST.items()}


def tok_body(b):
    out, i, junk = [], 0, False
    while i < len(b):
        for k, t in _BT_SORTED:
            if b.startswith(t, i):
                out.append(k)
                i += len(t)
                junk = False
                break
        else:
            if not junk:
                out.append(99)
            junk = True
            i += 1
    return out


def cat_body(toks):
    return b"".join(BT[t] for t in toks)


def proj_headers(h):
    out = []
    for n, v in h.fields:
        k = _HN_LOW.get(n.lower())
        if k:
            out.append([k, _HV_REV.get(v, 99)])
    return out


def proj_msg_body(msg):
    raw = msg.raw_content
    if raw is None:
        return [], True
    return tok_body(raw), False


def proj_flow(f):
    path, _, q = f.request.path.partition("?")
    segs = [_SEG_REV.get(s, 99) for s in path.split("/")[1:] if s != ""]
    qb, qs = proj_msg_body(f.request)
    d = {"host": _HOST_REV.get(f.request.host, 99), "path": segs, "query": "?" in f.request.path,
         "qh": proj_headers(f.request.headers), "qb": qb, "qs": qs}
    if f.response is None:
        d.update(resp=False, code=0, sh=[], sb=[], ss=False)
    else:
        sb, ss = proj_msg_body(f.response)
        d.update(resp=True, code=f.response.status_code, sh=proj_headers(f.response.headers), sb=sb, ss=ss)
    return d


# ---- worlds of the model runs ------------------------------------------------------------------------------------
def mkworld(rules, files=(), fs=(), fkind=None, sibling=0):
    return {"rules": list(rules), "files": list(files), "fs": [{"p": list(p), "f": f} for p, f in fs],
            "fkind": fkind or {}, "sibling": sibling}


def flow_t(meth=1, host=1, path=(1,), query=False, qh=(), qb=(), qs=False, live=True, err=False):
    return {"live": live, "err": err, "meth": meth, "host": host, "path": list(path), "query": query,
            "qh": [list(x) for x in qh], "qb": list(qb), "qs": qs}


def resp_t(code=200, sh=(), sb=(), ss=False):
    return {"code": code, "sh": [list(x) for x in sh], "sb": list(sb), "ss": ss}


# headers world
WH = mkworld(
    [
        rule("mh", ALL, [1], [1]),                 # 1  /X-Alpha/v-one
        rule("mh", ("q", 0, False), [1], [2]),     # 2  /~q/X-Alpha/v-two
        rule("mh", ("s", 0, False), [2], []),      # 3  /~s/X-Beta/            removal
        rule("mh", ("hq", 2, True), [2], [3]),     # 4  /!~hq x-beta:/X-Beta/v three   (docs: only if absent)
        rule("mh", ("s", 0, False), [3], [], file=1),   # 5  /~s/X-Gamma/@file1
        rule("mh", ALL, [1], [], bad="parts"),     # 6
        rule("mh", ("q", 0, False), [2], [1], bad="filter"),   # 7
        rule("mh", ("m", 2, False), [1], []),      # 8  /~m POST/X-Alpha/      removal for POST
        rule("mh", ALL, [2], [2], bad="empty"),    # 9  ""
    ],
    files=[ffile([4])],
    fkind={1: "hv"},
)
WH_LISTS = [("mh", (1, 3)), ("mh", (2, 1, 4)), ("mh", (5, 8)), ("mh", (1, 6)), ("mh", (7,)), ("mh", (3, 9, 1)), ("mh", ())]
WH_FLOWS = [flow_t(qh=[(1, 5), (2, 4)]), flow_t(meth=2, qh=[(3, 1), (1, 5), (1, 4)]), flow_t(qh=[(2, 5)], live=False)]
WH_RESPS = [resp_t(sh=[(2, 1), (1, 5), (2, 5)])]
WH_FOPS = [{"f": 1, "present": False, "c": [4]}]

# body world
WB = mkworld(
    [
        rule("mb", ALL, [[1]], [2]),                    # 1  /aa;/bb;
        rule("mb", ALL, [[2]], [3, 3]),                 # 2  /bb;/cc;cc;        chains with 1, not idempotent
        rule("mb", ("s", 0, False), [[3], [1, 2]], []), # 3  /~s/cc;(?:aa;|bb;)/
        rule("mb", ("bq", 1, False), [[3]], [5]),       # 4  /~bq aa;/cc;/\1;    filter depends on what rule 1 changes
        rule("mb", ("s", 0, False), [[4]], [], file=1), # 5  /~s/d\nd;/@file1    (file: \1; aa;)
        rule("mb", ALL, [[1]], [2], bad="regex"),       # 6
        rule("mb", ALL, [[1]], [2], bad="empty"),       # 7
        rule("mb", ("q", 0, False), [[2]], [7, 6]),     # 8  /~q/bb;/\g<0>;<e9 ff>;
        rule("mb", ALL, [[1]], [2], bad="parts"),       # 9
    ],
    files=[ffile([5, 1])],
    fkind={1: "body"},
)
WB_LISTS = [("mb", (1, 2)), ("mb", (4, 1, 3)), ("mb", (1, 5, 8)), ("mb", (2, 6)), ("mb", (1, 7, 2)), ("mb", (9,))]
WB_FLOWS = [flow_t(meth=2, qb=[1, 3, 2, 4]), flow_t(qb=[3, 1]), flow_t(qb=[], qs=True), flow_t(qb=[1, 1], err=True)]
WB_RESPS = [resp_t(sb=[3, 2, 1, 4, 1])]   # a streamed response: directed() and the random driver
WB_FOPS = [{"f": 1, "present": False, "c": [5, 1]}]

# maps world: directory with  beta, gamma/index.html, index.html, delta/eps ; file 5 is a single-file target,
# file 6 lies outside the directory
WM = mkworld(
    [
        rule("mr", ALL, [1], [2], host=1, rhost=2),           # 1  |//a.example/alpha|//b.example/beta
        rule("mr", ("m", 2, False), [2], [3, 3]),             # 2  |~m POST|/beta|/gamma/gamma
        rule("mr", ("u", 3, False), [3], [4]),                # 3  |~u /gamma|/gamma|/delta     sees what 2 did
        rule("ml", ALL, [2], [], host=2, lp="dir"),           # 4  |b.example/beta|ROOT
        rule("ml", ALL, [1], [], lp="dir"),                   # 5  |/alpha|ROOT
        rule("ml", ("q", 0, False), [4], [], lp="file", file=5),   # 6  |~q|/delta|file5
        rule("ml", ALL, [3], [], host=3, lp="dir"),           # 7  |c.example/gamma|ROOT
        rule("mr", ALL, [1], [2], bad="regex"),               # 8
        rule("ml", ALL, [1], [], lp="dir", bad="parts"),      # 9
        rule("mb", ALL, [[1]], [2, 2]),                       # 10 /aa;/bb;bb;   acts on the local response too
        rule("mh", ("s", 0, False), [1], [1]),                # 11 /~s/X-Alpha/v-one
        rule("ml", ALL, [1], [], host=1, lp="dir", grp=True), # 12 |a.example/alpha/(.*)|ROOT   group incl. query string
    ],
    files=[ffile([1, 3]), ffile([2]), ffile([3, 1]), ffile([4, 1]), ffile([1, 1]), ffile([6, 6]), ffile([2, 3]), ffile([3, 2]), ffile([5])],
    fs=[((2,), 1), ((3, 8), 2), ((8,), 3), ((4, 5), 4), ((16,), 7), ((46,), 8), ((42,), 9)],
    fkind={}, sibling=6,
)
WM_LISTS = [("mr", (1, 2, 3)), ("ml", (4, 5)), ("ml", (6, 7, 5)), ("ml", (12, 5)), ("mb", (10,)), ("mh", (11,))]
WM_FLOWS = [flow_t(path=[1, 2], query=True), flow_t(meth=2, host=2, path=[2, 3]), flow_t(path=[1, 9, 4]),
            flow_t(host=3, path=[3]), flow_t(path=[1, 4, 5], qb=[1]), flow_t(path=[1, 6], query=True)]
WM_RESPS = [resp_t(sb=[1, 2])]
WM_FOPS = [{"f": 1, "present": False, "c": [1, 3]}, {"f": 5, "present": True, "c": [3, 3]}]


FLOW4 = ["hook", "requestheaders"], ["hook", "request"], ["hook", "responseheaders"], ["hook", "response"]


def directed():
    """Hand-written histories, one per clause / named deviation (deterministic complement of the sampled cover)."""
    H, B, M = WH, WB, WM
    rh, rq, sh, rs = (list(x) for x in FLOW4)
    post = flow_t(meth=2, qh=[(3, 1), (1, 5), (1, 4)])
    out = [
        # rules in effect, an older rule's file disappears, a refused update: the surviving rules must still act
        (H, [["set", "mh", [5, 8]], ["file", 1, False, [4]], ["set", "mh", [1, 6]], ["flow", post], rh]),
        (B, [["set", "mb", [1, 5, 8]], ["file", 1, False, [5, 1]], ["set", "mb", [2, 6]], ["flow", flow_t(qb=[1, 3, 2, 4])], rh, rq]),
        (M, [["set", "ml", [6, 5]], ["file", 5, False, [1, 1]], ["set", "ml", [5, 9]], ["flow", flow_t(path=[1, 2])], rh, rq]),
        # a second accepted update replaces the first one completely
        (H, [["set", "mh", [1]], ["set", "mh", [3]], ["flow", post], rh, rq, ["respond", WH_RESPS[0]], sh, rs]),
        (B, [["set", "mb", [1]], ["set", "mb", [2]], ["flow", flow_t(qb=[1, 2])], rh, rq, ["respond", WB_RESPS[0]], sh, rs]),
        (H, [["set", "mh", [2, 1, 4]], ["set", "mh", []], ["flow", post], rh]),
        # refused updates of every kind leave the rules alone
        (H, [["set", "mh", [1, 3]], ["set", "mh", [7]], ["set", "mh", [1, 6]], ["flow", post], rh, rq, ["respond", WH_RESPS[0]], sh, rs]),
        (B, [["set", "mb", [1, 2]], ["set", "mb", [2, 6]], ["set", "mb", [9]], ["flow", flow_t(qb=[1, 3])], rh, rq, ["respond", WB_RESPS[0]], sh, rs]),
        # replacement with backslash sequences, on the request and on the response
        (B, [["set", "mb", [4, 1, 3]], ["flow", flow_t(meth=2, qb=[1, 3, 2, 4])], rh, rq, ["respond", WB_RESPS[0]], sh, rs]),
        (B, [["set", "mb", [8]], ["flow", flow_t(qb=[2, 2])], rh, rq]),
        (B, [["set", "mb", [5]], ["flow", flow_t(qb=[4])], rh, rq, ["respond", resp_t(sb=[4, 4])], sh, rs]),
        # streamed bodies
        (B, [["set", "mb", [1, 2]], ["flow", flow_t(qb=[], qs=True)], rh, rq]),
        (B, [["set", "mb", [3]], ["flow", flow_t(qb=[1])], rh, rq, ["respond", resp_t(ss=True)], sh, rs]),
        # flows the addons must not touch
        (H, [["set", "mh", [1, 3]], ["flow", flow_t(qh=[(1, 5), (2, 5)], live=False)], rh, rq, ["respond", WH_RESPS[0]], sh, rs]),
        (B, [["set", "mb", [1, 2]], ["flow", flow_t(qb=[1, 2], err=True)], rh, rq, ["respond", WB_RESPS[0]], sh, rs]),
        (H, [["set", "mh", [1, 3]], ["flow", post], ["respond", WH_RESPS[0]], rh, rq, sh, rs]),
        (B, [["set", "mb", [1, 2]], ["flow", flow_t(qb=[1, 2])], rh, ["respond", WB_RESPS[0]], rq, sh, rs]),
        # map_local answers; body and header rules then act on that response exactly once
        (M, [["set", "ml", [4, 5]], ["set", "mb", [10]], ["flow", flow_t(path=[1, 2], query=True)], rh, rq, sh, rs]),
        (M, [["set", "ml", [4, 5]], ["set", "mh", [11]], ["flow", flow_t(path=[1, 2])], rh, rq, sh, rs]),
        (M, [["set", "ml", [6, 7, 5]], ["flow", flow_t(path=[1, 4, 5], qb=[1])], rh, rq, sh, rs]),
        (M, [["set", "ml", [5, 6]], ["flow", flow_t(path=[1, 4, 5])], rh, rq, sh, rs]),
        (M, [["set", "ml", [4, 5]], ["flow", flow_t(path=[1, 9, 4])], rh, rq]),
        (M, [["set", "ml", [4, 5]], ["flow", flow_t(path=[1, 3])], rh, rq]),          # index.html fallback
        (M, [["set", "ml", [4, 5]], ["flow", flow_t(path=[1, 5])], rh, rq]),          # 404
        (M, [["set", "ml", [7]], ["flow", flow_t(host=3, path=[3])], rh, rq]),        # empty suffix
        (M, [["set", "ml", [6]], ["file", 5, True, [3, 3]], ["flow", flow_t(path=[4])], rh, rq]),   # no caching
        (M, [["set", "ml", [4, 5]], ["flow", flow_t(path=[1, 2])], ["respond", WM_RESPS[0]], rh, rq, sh, rs]),   # taken
        (M, [["set", "mr", [1, 2, 3]], ["set", "ml", [4, 5]], ["flow", flow_t(path=[1, 2], query=True)], rh, rq, sh, rs]),
        (M, [["set", "mr", [1, 2, 3]], ["flow", flow_t(meth=2, host=2, path=[2, 3])], rh, rq]),
        (M, [["set", "mr", [2]], ["flow", flow_t(meth=2, path=[2, 1, 2])], rh, rq]),  # every occurrence
        (M, [["set", "ml", [5, 9]], ["set", "ml", [4, 5]], ["flow", flow_t(path=[1, 6])], rh, rq]),            # special characters
        (M, [["set", "ml", [12, 5]], ["flow", flow_t(path=[1, 2], query=True)], rh, rq]),                      # group keeps the query
        (M, [["set", "ml", [12, 5]], ["flow", flow_t(path=[1, 4, 5])], rh, rq]),
        (M, [["set", "ml", [12]], ["flow", flow_t(path=[1])], rh, rq]),                                        # group needs a rest
        (M, [["set", "ml", [5, 6]], ["flow", flow_t(path=[1, 4])], rh, rq]),                                   # first rule finds nothing
        # one history per remaining required witness, so that no witness depends on what the seed samples
        (H, [["set", "mh", [1, 2]], ["flow", flow_t(qh=[(1, 5), (2, 4)])], rh]),                               # hdr_multi, hdr_readings_differ
        (H, [["set", "mh", [5]], ["flow", post], rh, rq, ["respond", WH_RESPS[0]], sh]),                       # hdr_file
        (B, [["set", "mb", [1, 4]], ["flow", flow_t(meth=2, qb=[1, 3])], rh, rq]),                             # body_readings_differ
        (M, [["set", "mr", [1, 2, 3]], ["flow", flow_t(host=3, path=[5])], rh, rq]),                           # url_nomatch
        (M, [["set", "mr", [1, 2, 3]], ["set", "ml", [4]], ["flow", flow_t(path=[1, 2])], rh, rq]),            # ml_sees_mapped_url
        (B, [["set", "mb", [1, 5]], ["file", 1, False, [5, 1]], ["flow", flow_t(qb=[1])], rh, rq,
             ["respond", resp_t(sb=[4, 1])], sh, rs, ["set", "mb", [5]]]),                                     # unreadable_file, set_missing_file
        (H, [["set", "mh", [3, 9, 1]]]),                                                                       # set_invalid_empty
    ]
    r = random.Random(7)
    for w, ops in out:
        yield {"world": w, "texts": [render(x, r) for x in w["rules"]], "ops": ops}
    # rule texts written by hand: separators inside the replacement, other separators, escapes
    hand = mkworld([rule("mh", ("q", 0, False), [2], [3]), rule("mh", ALL, [1], [4]), rule("mb", ("q", 0, False), [[1]], [7, 6])])
    yield {"world": hand, "texts": ["=~q=x-beta=v three; q=0.5", ":X-ALPHA:v\\xc3\\xa9\\\\4", ";~q;\\x61a\\x3b;\\\\g<0>;\\xc3\\xa9\\xff;"],
           "ops": [["set", "mh", [1, 2]], ["set", "mb", [3]], ["flow", flow_t(qh=[(2, 1)], qb=[1, 1])], rh, rq]}


def _consts(w, lists, flows, resps, fops, early, mset, mfile, mflow, stages=(0, 3)):
    return {"World": {k: w[k] for k in ("rules", "fs", "files")},
            "OptLists": frozenset((o, tuple(l)) for o, l in lists),
            "Flows": frozenset(tlaval.FrozenDict(f) for f in flows),
            "Resps": frozenset(tlaval.FrozenDict(r) for r in resps),
            "FileOps": frozenset(tlaval.FrozenDict(o) for o in fops),
            "EarlyRespond": early, "EmptyRuleIndexError": False, "RollbackReparses": False, "StreamedTypeError": False,
            "EnvStages": frozenset(stages), "MaxSet": mset, "MaxFile": mfile, "MaxFlow": mflow}


class _Master:
    pass


class _Capture(logging.Handler):
    def __init__(self):
        super().__init__(level=logging.DEBUG)
        self.exc = []

    def emit(self, record):
        if record.exc_info and record.exc_info[0] is not None and record.getMessage().startswith("Addon error"):
            self.exc.append(record.exc_info[0].__name__)


class Check(core.PropertyCheck):
    ID = "X03"
    SPEC_DIR = "ModifyRules"
    MODEL = "ModifyRules"
    MON = "Mon_ModifyRules"
    REQUIRED_WITNESSES = (
        "set_ok", "set_many", "set_cleared", "set_invalid_parts", "set_invalid_regex", "set_invalid_filter",
        "reject_with_rules_in_effect", "judged_after_reject", "file_deleted", "file_written",
        "hdr_add", "hdr_remove", "hdr_overwrite", "hdr_multi", "hdr_nomatch", "hdr_some_rules_match", "hdr_file",
        "hdr_readings_differ", "hdr_of_local_response",
        "body_subst", "body_chain", "body_nomatch", "body_file", "body_readings_differ", "body_of_local_response",
        "taken", "inactive_flow",
        "url_mapped", "url_host", "url_many_rules", "url_nomatch", "ml_sees_mapped_url",
        "ml_served", "ml_404", "ml_nomatch", "ml_file_rule", "ml_index_fallback", "ml_later_rule", "ml_query_ignored",
        "ml_first_of_many", "ml_traversal", "ml_special_chars", "ml_group", "ml_group_query",
        "streamed", "set_missing_file", "unreadable_file", "set_invalid_empty",
    )
    REQUIRED_ACTIONS = ("SetOpt", "NewFlow", "HookReqHeaders", "HookRequest", "HookRespHeaders", "HookResponse", "Respond")
    ASSUMPTIONS = (
        "hooks are delivered by the real AddonManager.trigger to the four addons in the order of the default chain "
        "(MapRemote, MapLocal, ModifyBody, ModifyHeaders) in the order the HTTP layer fires them (requestheaders, "
        "request, [server answers], responseheaders, response); the layer itself is not run",
        "rule texts are rendered from abstract rules (tables HN/HV/BT/SEG/HOST in props/X03.py): body tokens are "
        "self-delimiting byte strings, regexes match whole tokens / whole path segments; url replacements contain no "
        "backslash (map_remote passes the replacement to re.sub as a template)",
        "filters are single atoms (~q ~s ~m ~hq ~hs ~bq ~bs ~u, optionally negated) read as the filter documentation "
        "says; the meaning of filter expressions is C42",
        "replacement files of modify rules keep their content (they are only deleted / restored); what a matching rule "
        "with an unreadable file does is not judged",
        "the projection ignores Host, Content-Length, Content-Type and Server headers",
        "map_local directories hold special-character names only in their escaped form (we_rd, beta_k=v), never both "
        "forms; capturing groups are a trailing (.*) / (.+); file contents identify files (a served body is mapped back "
        "to tokens)",
        "findings F1-F3 (findings_proposed/X03.md) are repaired in /repo; the model's constants EmptyRuleIndexError, "
        "RollbackReparses, StreamedTypeError are FALSE (repaired code), the reverts are mutants M15-M17",
    )

    # ---- model runs -------------------------------------------------------------------------------------------
    def mon_constants(self, tier):
        return {}

    def model_constants(self, tier):
        return _consts(WH, WH_LISTS, WH_FLOWS, WH_RESPS, WH_FOPS, True, 2, 1, 1)

    WORLDS = (("_h", WH, WH_LISTS, WH_FLOWS, WH_RESPS, WH_FOPS), ("_b", WB, WB_LISTS, WB_FLOWS, WB_RESPS, WB_FOPS),
              ("_m", WM, WM_LISTS, WM_FLOWS, WM_RESPS, WM_FOPS))

    def model_runs(self, ctx):
        out = []
        for tag, w, lists, flows, resps, fops in self.WORLDS:
            c = _consts(w, lists, flows, resps, fops, True, 2, 1, 1)
            out.append(ctx.model_check(self.MODEL, c, dump=True, invariants=("Report", "ReplValid"), view="View", tag=tag))
        return out

    # ---- scenarios --------------------------------------------------------------------------------------------
    @staticmethod
    def _ops_of(beh):
        ops = []
        for name, args, st in beh[1:]:
            if name == "SetOpt":
                ops.append(["set", args[0], list(args[1])])
            elif name == "FileOp":
                ops.append(["file", args[0]["f"], bool(args[0]["present"]), list(args[0]["c"])])
            elif name == "NewFlow":
                t = args[0]
                ops.append(["flow", {k: (list(map(list, v)) if k == "qh" else list(v) if isinstance(v, tuple) else v) for k, v in t.items()}])
            elif name == "Respond":
                r = args[0]
                ops.append(["respond", {k: (list(map(list, v)) if k == "sh" else list(v) if isinstance(v, tuple) else v) for k, v in r.items()}])
            else:
                ops.append(["hook", {"HookReqHeaders": "requestheaders", "HookRequest": "request",
                                     "HookRespHeaders": "responseheaders", "HookResponse": "response"}[name]])
        return ops

    def scenarios(self, ctx, models):
        rng = ctx.rng
        for m, (tag, w, *_rest) in zip(models, self.WORLDS):
            g = m.graph
            behs = g.edge_cover(rng, max_len=16, tail=8)
            ctx.notes.setdefault("edge_cover_behaviours", {})[tag] = len(behs)
            if ctx.quick and len(behs) > 450:      # quick: a seeded sample of the cover (thorough replays all of it)
                behs = rng.sample(behs, 450)
            behs += g.random_walks(rng, 100 if ctx.quick else 1500, 14)
            for b in behs:
                texts = [render(r, rng) for r in w["rules"]]
                yield core.Scenario({"world": w, "texts": texts, "ops": self._ops_of(b)},
                                    predicted=core.predicted_events(b), source="model")
        for d in directed():
            yield core.Scenario(d, source="suite")
        r2 = random.Random(ctx.seed + 303)
        for _ in range(350 if ctx.quick else 4000):
            yield core.Scenario(random_scenario(r2), source="random")

    def setup(self, ctx):
        # the handlers call logging.warning(): without a root handler that would run logging.basicConfig()
        if not logging.getLogger().handlers:
            logging.getLogger().addHandler(logging.NullHandler())

    def drift_view(self, trace):
        return trace[1:]

    # ---- execution on the real code -----------------------------------------------------------------------------
    def execute(self, sc):
        from mitmproxy import addonmanager, command, flow as mflow, http, options
        from mitmproxy import ctx as mctx
        from mitmproxy.addons import maplocal, mapremote, modifybody, modifyheaders
        from mitmproxy.proxy.layers.http import (HttpRequestHeadersHook, HttpRequestHook, HttpResponseHeadersHook,
                                                 HttpResponseHook)
        from mitmproxy.test import tflow
        from typing import Optional

        w = sc["world"]
        trace = [{"k": "world", "rules": w["rules"], "fs": w["fs"], "files": w["files"]}]
        base = Path(tempfile.mkdtemp(prefix="x03-", dir=os.environ.get("X03_TMP") or None))
        root = base / "root"
        root.mkdir()
        fkind = {int(k): v for k, v in w.get("fkind", {}).items()}
        inside = {e["f"]: root.joinpath(*[DISK[t] for t in e["p"]]) for e in w["fs"]}

        def fpath(i):  # the "sibling" file lies next to the directory under a name a URL can spell
            return inside.get(i) or base / (SEG[4] if i == w.get("sibling") else "f%d" % i)

        def fwrite(i, present, c):
            p = fpath(i)
            if present:
                p.parent.mkdir(parents=True, exist_ok=True)
                p.write_bytes(HV[c[0]] if fkind.get(i) == "hv" and c else b"" if fkind.get(i) == "hv" else cat_body(c))
            elif p.exists():
                p.unlink()

        for i, f in enumerate(w["files"], 1):
            fwrite(i, f["present"], f["c"])

        def text(i):
            t = sc["texts"][i - 1].replace("{ROOT}", str(root))
            for j in range(1, len(w["files"]) + 1):
                t = t.replace("{F%d}" % j, str(fpath(j)))
            return t

        m = _Master()
        m.options = options.Options()
        m.commands = command.CommandManager(m)
        m.addons = addonmanager.AddonManager(m)
        old_master, old_options = getattr(mctx, "master", None), getattr(mctx, "options", None)
        mctx.master, mctx.options = m, m.options
        cap = _Capture()
        lg = logging.getLogger("mitmproxy")
        old_prop, old_level = lg.propagate, lg.level
        lg.addHandler(cap)
        lg.propagate = False
        lg.setLevel(logging.ERROR)
        f = None
        try:
            m.options.add_option("stream_large_bodies", Optional[str], None, "")
            for a in (mapremote.MapRemote(), maplocal.MapLocal(), modifybody.ModifyBody(), modifyheaders.ModifyHeaders()):
                m.addons.add(a)
            for op in sc["ops"]:
                kind = op[0]
                if kind == "set":
                    err = ""
                    try:
                        m.options.update(**{OPT[op[1]]: [text(i) for i in op[2]]})
                    except Exception as e:  # the outcome of the call, judged by the monitor
                        err = type(e).__name__
                    trace.append({"k": "set", "opt": op[1], "rules": op[2], "err": err})
                elif kind == "file":
                    fwrite(op[1], op[2], op[3])
                    trace.append({"k": "file", "f": op[1], "present": op[2], "c": op[3]})
                elif kind == "flow":
                    t = op[1]
                    url = "http://%s/%s%s" % (HOST[t["host"]], "/".join(SEG[s] for s in t["path"]), "?k=v" if t["query"] else "")
                    hdrs = [(b"Host", HOST[t["host"]].encode())] + [(HN[n], HV[v]) for n, v in t["qh"]]
                    req = http.Request.make(METH[t["meth"]], url, cat_body(t["qb"]), hdrs)
                    if t["qs"]:
                        req.data.content = None
                    f = tflow.tflow(req=req)
                    f.live = bool(t["live"])
                    if t["err"]:
                        f.error = mflow.Error("connection lost")
                    trace.append({"k": "flow", **t})
                elif kind == "respond":
                    r = op[1]
                    if f is not None and f.response is not None and sc.get("lenient"):
                        continue  # random histories: the server is only asked when nobody answered yet
                    if f is None or f.response is not None:
                        break  # the code under test diverged from the model: the step is not enabled
                    f.response = http.Response.make(r["code"], cat_body(r["sb"]), [(HN[n], HV[v]) for n, v in r["sh"]])
                    if r["ss"]:
                        f.response.data.content = None
                    trace.append({"k": "respond", **r})
                else:
                    h = op[1]
                    if f is None or (h in ("responseheaders", "response") and f.response is None):
                        break
                    hook = {"requestheaders": HttpRequestHeadersHook, "request": HttpRequestHook,
                            "responseheaders": HttpResponseHeadersHook, "response": HttpResponseHook}[h](f)
                    cap.exc.clear()
                    exc = ""
                    try:
                        m.addons.trigger(hook)
                    except Exception as e:
                        exc = type(e).__name__
                    if cap.exc and not exc:
                        exc = cap.exc[0]
                    trace.append({"k": "hook", "h": h, "exc": exc, "post": proj_flow(f)})
        finally:
            lg.removeHandler(cap)
            lg.propagate, lg.level = old_prop, old_level
            mctx.master, mctx.options = old_master, old_options
            shutil.rmtree(base, ignore_errors=True)
        return trace


# ---- random driver (worlds and histories beyond the model's constants) -------------------------------------------
def _rand_filter(rng, ad):
    v = rng.random()
    if v < 0.35:
        return ALL
    kinds = ["q", "s", "m", "hq", "bq", "u"] + (["hs", "bs"] if ad in ("mh", "mb") else [])
    t = rng.choice(kinds)
    a = {"q": 0, "s": 0, "m": rng.randint(1, 2), "hq": rng.randint(1, 3), "hs": rng.randint(1, 3),
         "bq": rng.randint(1, 3), "bs": rng.randint(1, 3), "u": rng.randint(1, 5)}[t]
    return (t, a, rng.random() < 0.2)


def random_scenario(rng):
    nfiles = rng.randint(4, 7)
    paths = [(2,), (3, 8), (8,), (4, 5), (1,), (5, 8), (3, 3), (1, 2, 8), (16,), (42,), (46,), (3, 16), (4, 43), (16, 8)]
    rng.shuffle(paths)
    tree = []
    for p in paths:
        if not any(q[: len(p)] == p or p[: len(q)] == q for q in tree):
            tree.append(p)
    ninside = rng.randint(1, min(len(tree), nfiles - 3))
    fs = [(tree[i], i + 1) for i in range(ninside)]
    files = [ffile([rng.randint(1, 7) for _ in range(rng.randint(1, 3))], present=rng.random() < 0.9) for _ in range(nfiles)]
    mbfile, hvfile = ninside + 1, nfiles          # @file of body rules (next to the directory), of header rules
    mlfiles = list(range(ninside + 2, nfiles))    # single-file targets of map_local rules
    fkind = {hvfile: "hv"}
    files[hvfile - 1] = ffile([rng.randint(1, 5)] if rng.random() < 0.85 else [], present=rng.random() < 0.9)
    rules = []
    for _ in range(rng.randint(6, 14)):
        ad = rng.choice(["mh", "mh", "mb", "mb", "mr", "ml"])
        f = _rand_filter(rng, ad)
        bad, v = "", rng.random()
        if v < 0.05:
            bad = "parts"
        elif v < 0.09:
            bad = "filter"
        elif v < 0.13 and ad != "mh":
            bad = "regex"
        elif v < 0.15:
            bad = "empty"
        if ad == "mh":
            usefile = rng.random() < 0.12
            rules.append(rule("mh", f, [rng.randint(1, 3)], [] if usefile or rng.random() < 0.25 else [rng.randint(1, 5)],
                              file=hvfile if usefile else 0, bad=bad))
        elif ad == "mb":
            s = [sorted(rng.sample(range(1, 8), rng.choice([1, 1, 1, 2, 3]))) for _ in range(rng.choice([1, 1, 2]))]
            usefile = rng.random() < 0.15
            rules.append(rule("mb", f, s, [] if usefile else [rng.randint(1, 7) for _ in range(rng.choice([0, 1, 1, 2]))],
                              file=mbfile if usefile else 0, bad=bad))
        elif ad == "mr":
            if rng.random() < 0.4:
                s = [rng.randint(1, 5) for _ in range(rng.choice([0, 1, 1, 2]))]
                rules.append(rule("mr", f, s, [rng.randint(1, 5) for _ in range(rng.randint(1, 2))] if s else [],
                                  host=rng.randint(1, 3), rhost=rng.choice([0, 1, 2, 3]), bad=bad))
            else:
                rules.append(rule("mr", f, [rng.randint(1, 5) for _ in range(rng.choice([1, 1, 2]))],
                                  [rng.randint(1, 5) for _ in range(rng.randint(1, 2))], bad=bad))
        else:
            h = rng.choice([0, 0, 1, 2, 3])
            s = [rng.randint(1, 5) for _ in range(rng.choice([0, 1, 1, 2]) if h else rng.choice([1, 1, 2]))]
            if rng.random() < 0.25 and mlfiles:
                rules.append(rule("ml", f, s, [], host=h, lp="file", file=rng.choice(mlfiles), bad=bad))
            else:
                rules.append(rule("ml", f, s, [], host=h, lp="dir", bad=bad, grp=rng.random() < 0.3))
    w = mkworld(rules, [dict(f) for f in files], fs, fkind, sibling=mbfile)
    by_ad = {a: [i + 1 for i, r in enumerate(rules) if r["ad"] == a] for a in OPT}
    ops = []
    cur = [dict(f) for f in files]

    def some_list(ad):
        ids = by_ad[ad]
        good = [i for i in ids if not rules[i - 1]["bad"]]
        pool = ids if rng.random() < 0.25 else good
        if not pool:
            return []
        return [rng.choice(pool) for _ in range(rng.randint(1, min(5, len(pool) + 1)))]

    def maybe_set(p):
        if rng.random() < p:
            ad = rng.choice(list(OPT))
            ops.append(["set", ad, some_list(ad) if rng.random() < 0.9 else []])

    def maybe_file(p):
        if rng.random() < p:
            i = rng.randint(1, nfiles)
            if cur[i - 1]["present"] and rng.random() < 0.6:
                cur[i - 1]["present"] = False
            else:
                cur[i - 1]["present"] = True
                if (i <= ninside or i in mlfiles) and rng.random() < 0.5:   # served files may change their content
                    cur[i - 1]["c"] = [rng.randint(1, 7) for _ in range(rng.randint(1, 2))]
            ops.append(["file", i, cur[i - 1]["present"], list(cur[i - 1]["c"])])

    for ad in OPT:
        if by_ad[ad] and rng.random() < 0.85:
            ops.append(["set", ad, some_list(ad)])
    for _ in range(rng.randint(1, 4)):
        maybe_set(0.35)
        maybe_file(0.3)
        path = [rng.choice([1, 2, 3, 4, 5, 5, 8, 6]) for _ in range(rng.randint(1, 4))]
        if rng.random() < 0.12:
            path[rng.randint(1, len(path)):] = [9, 4] if rng.random() < 0.6 else [9, rng.randint(1, 5)]
        qs, ss = rng.random() < 0.07, rng.random() < 0.07
        t = flow_t(meth=rng.randint(1, 2), host=rng.randint(1, 3), path=path, query=rng.random() < 0.3,
                   qh=[(rng.randint(1, 3), rng.randint(1, 5)) for _ in range(rng.randint(0, 4))],
                   qb=[] if qs else [rng.randint(1, 7) for _ in range(rng.randint(0, 6))], qs=qs,
                   live=rng.random() < 0.93, err=rng.random() < 0.05)
        r = resp_t(code=rng.choice([200, 200, 404, 500]), sh=[(rng.randint(1, 3), rng.randint(1, 5)) for _ in range(rng.randint(0, 4))],
                   sb=[] if ss else [rng.randint(1, 7) for _ in range(rng.randint(0, 6))], ss=ss)
        early = rng.choice([0, 0, 0, 0, 0, 0, 0, 0, 0, 0, 1, 2])
        ops.append(["flow", t])
        if early == 1:
            ops.append(["respond", r])
        ops.append(["hook", "requestheaders"])
        maybe_set(0.15)
        maybe_file(0.1)
        if early == 2:
            ops.append(["respond", r])
        ops.append(["hook", "request"])
        ops.append(["respond", r])          # the server answers unless somebody already did (lenient)
        maybe_set(0.1)
        ops.append(["hook", "responseheaders"])
        maybe_set(0.1)
        maybe_file(0.1)
        ops.append(["hook", "response"])
    return {"world": w, "texts": [render(x, rng) for x in rules], "ops": ops, "lenient": True}
