"""C45 -- command-line arguments reach commands unchanged.

Model: spec/CmdLex/CmdLex.tla   Monitor: Mon_CmdLex.tla
Real code: mitmproxy.command_lexer.quote / expr / unquote and mitmproxy.command.CommandManager.execute, driven with
registered test commands that record the arguments they receive.
"""

import random

from vf import core

CMD = {"str": "t.str", "raw": "t.raw"}
# z x 2 SP TAB LF " ' \ VT            (+ n in thorough)
A_QUICK = (122, 120, 50, 32, 9, 10, 34, 39, 92, 11)
A_THOROUGH = A_QUICK + (110,)
SEPS = ((32,), (9,), (32, 32), (13, 10), (9, 32))
WIDE = ("azZ09_-./:=~#%@!$&*()[]{}<>|^+,;?`" + "nrtvxuUN01237abf" + " \t\r\n\x0b\x0c\x1c\x1f\x85\xa0  　"
        + "\"'\\" + "éß日本\U0001f600́\x00\x7f\x1b")

_got: list = []


def _manager():
    """A fresh CommandManager with two registered test commands (varargs of type str / CmdArgs).  One per scenario: the
    lru_cache of parse_partial is keyed by (manager, line), so earlier scenarios cannot leak into this one."""
    import types as pytypes

    import mitmproxy.types
    from mitmproxy import command

    class Recorder:
        @command.command("t.str")
        def t_str(self, *args: str) -> None:
            _got.append(list(args))

        @command.command("t.raw")
        def t_raw(self, *args: mitmproxy.types.CmdArgs) -> None:
            _got.append(list(args))

    cm = command.CommandManager(pytypes.SimpleNamespace())
    cm.collect_commands(Recorder())
    return cm


_console = None
_prompts: list = []


def _on_prompt(partial):
    _prompts.append(partial)


def _console_line(cmd: str, args):
    """The command line exactly as the console builds it: ConsoleAddon.console_command(cmd, *args) sends it to the
    status-bar prompt (signals.status_prompt_command)."""
    global _console
    import types as pytypes

    from mitmproxy.tools.console import consoleaddons, signals

    if _console is None:
        signals.status_prompt_command.connect(_on_prompt)
        _console = consoleaddons.ConsoleAddon(pytypes.SimpleNamespace())
    del _prompts[:]
    _console.console_command(cmd, *args)
    if len(_prompts) != 1 or not isinstance(_prompts[0], str):
        raise RuntimeError("console_command sent %d prompts" % len(_prompts))
    return _prompts[0]


def _cps(s: str):
    return [ord(c) for c in s]


def _s(cps):
    return "".join(chr(c) for c in cps)


class Check(core.PropertyCheck):
    ID = "C45"
    SPEC_DIR = "CmdLex"
    MODEL = "CmdLex"
    MON = "Mon_CmdLex"
    REQUIRED_WITNESSES = ("pt_str", "pt_raw", "q_plain", "q_empty", "q_ws", "q_dq", "q_sq", "q_bothq", "q_owsonly",
                          "bs", "tab", "multi", "noargs", "call_checked", "call_repeated", "repeat_self_quoted")
    REQUIRED_ACTIONS = ("BuildLine", "Parse", "Call")
    ASSUMPTIONS = (
        "the registered test commands (varargs of type str and of type mitmproxy.types.CmdArgs) are harness code; "
        "everything between command_lexer.quote and the call of the command function is mitmproxy's",
        "lines with a single-space separator are built by the real ConsoleAddon.console_command (captured from "
        "signals.status_prompt_command); for other separators the harness joins command_lexer.quote(arg) itself",
        "the projection is the identity on strings (code point sequences); no oracle is involved",
    )

    def mon_constants(self, tier):
        return {}

    def model_constants(self, tier):
        names = {k: tuple(_cps(v)) for k, v in CMD.items()}
        if tier == "quick":
            return {"Alphabet": frozenset(A_QUICK), "MaxLen": 3, "MaxLen2": 1, "Seps": frozenset(SEPS), "SepLen": 2,
                    "CmdName": names, "ExpandTabs": False, "MaxExec": 2}
        return {"Alphabet": frozenset(A_THOROUGH), "MaxLen": 4, "MaxLen2": 2, "Seps": frozenset(SEPS), "SepLen": 2,
                "CmdName": names, "ExpandTabs": False, "MaxExec": 2}

    def model_runs(self, ctx):
        if ctx.quick:
            return [ctx.model_check(self.MODEL, self.model_constants("quick"), dump=True)]
        big = ctx.model_check(self.MODEL, self.model_constants("thorough"), dump=False, tag="_big")
        small = ctx.model_check(self.MODEL, self.model_constants("quick"), dump=True)
        mid = dict(self.model_constants("thorough"), Alphabet=frozenset((110, 120, 50, 32, 9, 34, 39, 92)), MaxLen=4, MaxLen2=1,
                   SepLen=1)
        deep = ctx.model_check(self.MODEL, mid, dump=True, tag="_deep")
        return [small, deep, big]

    def scenarios(self, ctx, models):
        seen = set()
        for m in models:
            if m.graph is None:
                continue
            for b in m.graph.all_paths(max_depth=4):
                if len(b) < 4:
                    continue
                st = b[0][2]
                data = {"pt": str(st["pt"]), "args": [list(a) for a in st["args"]], "sep": list(st["sep"]),
                        "execs": sum(1 for step in b[1:] if step[0] == "Call")}
                key = repr(data)
                if key in seen:
                    continue
                seen.add(key)
                yield core.Scenario(data, predicted=core.predicted_events(b), source="model")
        rng = random.Random(ctx.seed + 45)
        n = 2500 if ctx.quick else 60000
        focus = "\"'\\ \tx2n\x0bz"
        for i in range(n):
            nargs = rng.choice((1, 1, 1, 2, 2, 3, 4))
            args = []
            for _ in range(nargs):
                ln = rng.choice((0, 1, 1, 2, 2, 3, 4, 5, 6, 9, 14))
                pool = focus if rng.random() < 0.5 else WIDE
                args.append(_cps("".join(rng.choice(pool) for _ in range(ln))))
            sep = [rng.choice((32, 9, 10, 13)) for _ in range(rng.choice((1, 1, 1, 2, 3)))]
            yield core.Scenario({"pt": rng.choice(("str", "raw")), "args": args, "sep": sep,
                                 "execs": rng.choice((1, 2, 2, 3))}, source="random")

    def execute(self, sc):
        from mitmproxy import command_lexer

        cm = _manager()
        pt = sc["pt"]
        args = [_s(a) for a in sc["args"]]
        sep = _s(sc["sep"])
        trace = []
        try:
            if sep == " " and not sc.get("manual"):
                line = _console_line(CMD[pt], args)          # the real console.command path
            else:                                            # other separators: what a user would type between quoted args
                line = CMD[pt] + "".join(sep + command_lexer.quote(a) for a in args) + " "
        except Exception as e:
            trace.append({"k": "line", "pt": pt, "sent": [_cps(a) for a in args], "line": []})
            trace.append({"k": "call", "outcome": "quote:" + type(e).__name__, "recv": []})
            return trace
        trace.append({"k": "line", "pt": pt, "sent": [_cps(a) for a in args], "line": _cps(line)})
        try:
            parts, _rest = cm.parse_partial(line)
            trace.append({"k": "parts", "parts": [_cps(str(p.value)) for p in parts]})
        except Exception:
            pass  # execute() below reports the failure
        for _ in range(int(sc.get("execs", 1))):         # the same line again on the same manager (cache hit)
            del _got[:]
            try:
                cm.execute(line)
            except Exception as e:  # the property says the command is executed: an observation, not a harness failure
                trace.append({"k": "call", "outcome": type(e).__name__, "recv": []})
                continue
            if len(_got) != 1:
                trace.append({"k": "call", "outcome": "calls:%d" % len(_got), "recv": []})
                continue
            recv = [a if isinstance(a, str) else repr(a) for a in _got[0]]
            trace.append({"k": "call", "outcome": "called", "recv": [_cps(a) for a in recv]})
        return trace
