"""C13 -- ClientHello parsing is total and independent of segmentation.

Model: spec/ClientHello/ClientHello.tla   Monitor: Mon_ClientHello.tla
Real code: mitmproxy.proxy.layers.tls.parse_client_hello / dtls_parse_client_hello (function API) and a real
ClientTLSLayer fed segment by segment (tls_clienthello hook data), mitmproxy.tls.ClientHello accessors.
Oracle: lib/vf/tlshello.py (own writer, own strict reader incl. record reassembly / DTLS fragments).
"""
from __future__ import annotations

import random

from vf import core
from vf import tlshello as th

SUITES = [0x1301, 0x1302, 0xC02B, 0xC02F, 0x009C, 0x002F, 0x00FF]
LONG_HOST = ".".join(["a" * 63, "b" * 63, "c" * 63, "d" * 61])  # 253 characters


def _spec(dtls, exts, *, suites=None, sid=32, comp=(0,), cver=None, cookie=0, rand=7):
    return {"dtls": dtls, "cver": list(cver or ((0xFE, 0xFD) if dtls else (3, 3))), "sid": sid, "cookie": cookie,
            "suites": list(suites or SUITES), "comp": list(comp), "exts": exts, "rand": rand}


def hello_pool(dtls: bool):
    """(name, spec) of well-formed hellos: with / without SNI and ALPN, unusual extensions."""
    sni = ["sni", "example.com"]
    alpn = ["alpn", ["h2", "http/1.1"]]
    ems = ["raw", 23, ""]
    reneg = ["raw", 0xFF01, "00"]
    groups = ["raw", 10, "0006001d00170018"]
    vers = ["raw", 43, "0403040303"]
    P = [
        ("typical", _spec(dtls, [sni, ems, reneg, groups, alpn, vers])),
        ("sni_last", _spec(dtls, [alpn, ["raw", 21, "00" * 37], groups, sni], sid=0)),
        ("mixed_case_sni", _spec(dtls, [["sni", "ExAmple.COM"], alpn, ems])),
        ("idn_underscore_sni", _spec(dtls, [["sni", "_srv.xn--bcher-kva.example"], ems, alpn], cver=None if dtls else (3, 1))),
        ("single_label_sni", _spec(dtls, [["sni", "localhost"], reneg])),
        ("long_sni", _spec(dtls, [["sni", LONG_HOST], alpn, ems])),
        ("no_sni", _spec(dtls, [alpn, ems, groups])),
        ("no_alpn", _spec(dtls, [sni, ems, groups], comp=(1, 0))),
        ("no_ext_block", _spec(dtls, None, sid=0, suites=[0x002F, 0x0035, 0x000A])),
        ("empty_ext_block", _spec(dtls, [])),
        ("grease", _spec(dtls, [["raw", 0x1A1A, ""], sni, ["raw", 0x2A2A, "00"], alpn, ["raw", 0xFE0D, "ab" * 200],
                                ["raw", 65535, "01"]], suites=[0x0A0A] + SUITES)),
        ("many_alpn", _spec(dtls, [sni, ["alpn", ["p%02d" % i for i in range(40)] + ["\x00\xff", "h2"]], ems])),
        ("empty_first_ext", _spec(dtls, [ems, sni, alpn], cookie=20 if dtls else 0)),
        ("many_suites", _spec(dtls, [sni, alpn, groups], suites=list(range(0xC001, 0xC001 + 120)))),
    ]
    if not dtls:
        P.append(("huge_padding", _spec(dtls, [sni, alpn, ["raw", 21, "00" * 17000]])))
    return P


def degenerate_pool(dtls: bool):
    """Hellos whose framing is correct (every length field consistent, the kaitai parser accepts them) but whose
    extension contents are degenerate.  Not 'well-formed' for the oracle: judged for totality only -- parsing and
    every accessor of the returned object (sni, alpn_protocols, cipher_suites, extensions) must not fail."""
    sni = ["sni", "example.com"]
    alpn = ["alpn", ["h2", "http/1.1"]]
    ems = ["raw", 23, ""]
    return [
        ("sni_empty_list", _spec(dtls, [["snilist", []], alpn])),
        ("sni_empty_list_then_real", _spec(dtls, [["snilist", []], sni, alpn])),
        ("sni_empty_list_last", _spec(dtls, [alpn, ems, ["snilist", []]])),
        ("sni_two_names", _spec(dtls, [["snilist", [[0, "a.example"], [0, "b.example"]]], alpn])),
        ("sni_two_types", _spec(dtls, [["snilist", [[0, "a.example"], [1, "xx"]]]])),
        ("sni_unknown_type_only", _spec(dtls, [["snilist", [[7, "a.example"]]], ems])),
        ("sni_zero_length_host", _spec(dtls, [["snilist", [[0, ""]]], alpn])),
        ("sni_empty_body", _spec(dtls, [["raw", 0, ""], alpn])),
        ("sni_non_ascii_host", _spec(dtls, [["snilist", [[0, "\xff\xfe.example"]]], alpn])),
        ("sni_nul_and_space_host", _spec(dtls, [["snilist", [[0, "exa mple\x00.com"]]]])),
        ("sni_trailing_dot_and_newline", _spec(dtls, [["snilist", [[0, "example.com.\n"]]], ems])),
        ("sni_ip_literal", _spec(dtls, [["snilist", [[0, "192.0.2.7"]]], alpn])),
        ("sni_overlong_label", _spec(dtls, [["snilist", [[0, "a" * 64 + ".example"]]], alpn])),
        ("alpn_empty_list", _spec(dtls, [sni, ["alpn", []]])),
        ("alpn_empty_body", _spec(dtls, [sni, ["raw", 16, ""]])),
        ("alpn_zero_length_name", _spec(dtls, [["alpn", ["", "h2"]], sni])),
        ("alpn_twice", _spec(dtls, [["alpn", ["h2"]], sni, ["alpn", ["http/1.1"]]])),
        ("no_suites_no_compression", _spec(dtls, [sni, alpn], suites=[0x1301], comp=()) | {"suites": []}),
        ("all_degenerate", _spec(dtls, [["snilist", []], ["alpn", []], ["raw", 0, "0000"], ["raw", 16, "0000"], ems])),
    ]


MODELABLE = ("typical", "mixed_case_sni", "idn_underscore_sni", "long_sni", "no_alpn", "many_alpn", "many_suites")


# ------------------------------------------------------------------------------------- abstract inputs (model)
def body_units(spec, fine: bool):
    """Cut the body into the model's units (tokens).  Coarse (5): fixed+suites | comp | extensions length + header of
    the first extension | rest of the first extension | all further extensions.  Fine (8): version | random |
    session id (+cookie) | suites | comp | ... as before.  A body cut after unit 2 / 4 / 5 (fine: 5 / 7 / 8) is one the
    kaitai parser accepts (0 / 1 / all extensions)."""
    body, cuts = th.build_body(spec)
    assert len(spec["exts"]) >= 3
    fixed, suites, comp, hdr1, ext1 = cuts[:5]
    bounds = [2, 34, fixed, suites, comp, hdr1, ext1, cuts[-1]] if fine else [suites, comp, hdr1, ext1, cuts[-1]]
    units, prev = [], 0
    for b in bounds:
        assert b > prev
        units.append(body[prev:b])
        prev = b
    return units


def compositions(total, maxparts):
    out = []

    def rec(rest, parts):
        if rest == 0:
            out.append(tuple(parts))
            return
        if len(parts) == maxparts:
            return
        for n in range(1, rest + 1):
            if len(parts) == maxparts - 1 and n != rest:
                continue
            rec(rest - n, parts + [n])

    rec(total, [])
    return out


def abstract_inputs(tier: str, big: bool = False):
    """Inputs of the model: the abstract part goes to TLC, `kind`/`args` tell the concretiser what to build."""
    fine = big
    B = 8 if fine else 5
    maxrec = 4 if big else 3
    okc_t = frozenset({(5, 0), (7, 1), (8, 3)} if fine else {(2, 0), (4, 1), (5, 3)})  # nx of the last is patched
    inputs = []

    def add(proto, valid, variant, recs, decl, kind, nrec=None, **args):
        inputs.append({"proto": proto, "valid": valid, "variant": variant, "nrec": nrec if nrec is not None else len(recs),
                       "recs": tuple({"n": n, "bad": bad} for n, bad in recs), "decl": decl, "okc": okc_t,
                       "kind": kind, "args": args})

    HT, HD = 4, 12
    # TLS: every split of the hello into <= maxrec records
    for comp in compositions(HT + B, maxrec):
        add("tls", True, "plain", [(n, False) for n in comp], B, "plain")
    small = compositions(HT + B, 2) if big else [(HT + B,), (3, HT + B - 3), (HT + 2, B - 2)]
    for comp in small:
        # a ChangeCipherSpec record (TLS 1.3 middlebox compatibility) follows the hello in the same flight
        add("tls", True, "trailing_record", [(n, False) for n in comp] + [(1, True)], B, "trail", nrec=len(comp))
        # handshake length field announces more than is there: never complete
        add("tls", False, "length_too_long", [(n, False) for n in comp], B + 2, "decl", delta=+2)
        add("tls", False, "length_too_long_then_other_record", [(n, False) for n in comp] + [(1, True)], B + 1, "decl_trail")
        for d in range(0, B):
            add("tls", False, "length_too_short", [(n, False) for n in comp], d, "short", d=d)
        for i in range(len(comp)):
            recs = [(n, False) for n in comp]
            recs[i] = (recs[i][0], True)
            add("tls", False, "non_handshake_record", recs, B, "badhdr", i=i)
        for i in range(len(comp) + 1):
            recs = [(n, False) for n in comp]
            recs.insert(i, (0, False))
            add("tls", False, "empty_record", recs, B, "empty", i=i)
    # DTLS
    add("dtls", True, "plain", [(HD + B, False)], B, "plain")
    add("dtls", True, "trailing_record", [(HD + B, False), (1, True)], B, "trail", nrec=1)
    # record version {254,255} (DTLS 1.0) on the first ClientHello record is what OpenSSL sends; accepted since the
    # fix of starts_like_dtls_record (/repo 5e6fed0e6).  {254,252} is no record version.
    add("dtls", True, "dtls10_record_version", [(HD + B, False)], B, "recver", ver=[0xFE, 0xFF])
    add("dtls", False, "unknown_record_version", [(HD + B, True)], B, "recver", ver=[0xFE, 0xFC])
    for k in (2, 3):
        for comp in compositions(B, k):
            add("dtls", True, "dtls_fragments", [(HD + f, False) for f in comp], comp[0], "frag", frags=list(comp))
    for comp in compositions(HD + B, 2):
        if len(comp) == 2:
            add("dtls", False, "dtls_continuation_records", [(n, False) for n in comp], B, "plain")
    for d in range(1, B):
        add("dtls", False, "length_too_short", [(HD + B, False)], d, "short", d=d)
    add("dtls", False, "non_handshake_record", [(HD + B, True)], B, "badhdr", i=0)
    return inputs


def tla_inputs(inputs):
    out = []
    for i in inputs:
        rh = 13 if i["proto"] == "dtls" else 5
        st = [0]
        for r in i["recs"]:
            st.append(st[-1] + rh + r["n"])
        out.append({"proto": i["proto"], "valid": i["valid"], "variant": i["variant"], "nrec": i["nrec"],
                    "recs": i["recs"], "st": tuple(st), "decl": i["decl"], "okc": i["okc"]})
    return tuple(out)


def concretise(inp, spec, fine):
    """Abstract input -> list of wire units (bytes each).  The join of the list is what the client sends."""
    dtls = inp["proto"] == "dtls"
    units = body_units(spec, fine)
    body = b"".join(units)
    kind, args = inp["kind"], inp["args"]
    B = len(units)
    wire_units: list[bytes] = []

    def rec_units(payload_units, ctype=0x16, ver=None, seq=0):
        payload = b"".join(payload_units)
        r = th.record(payload, dtls, ctype=ctype, ver=ver, seq=seq)
        hl = 13 if dtls else 5
        return [r[i: i + 1] for i in range(hl)] + list(payload_units)

    if kind == "frag":
        off_u = 0
        for k, f in enumerate(args["frags"]):
            fb = b"".join(units[off_u: off_u + f])
            boff = len(b"".join(units[:off_u]))
            hdr = th.handshake_header(len(body), True, frag_off=boff, frag_len=len(fb))
            wire_units += rec_units([hdr[i: i + 1] for i in range(12)] + units[off_u: off_u + f], seq=k)
            off_u += f
        return wire_units
    decl = None
    if kind in ("decl", "decl_trail"):
        decl = len(body) + (7 if kind == "decl" else 3)
    elif kind == "short":
        decl = len(b"".join(units[: args["d"]]))
    hdr = th.handshake_header(len(body), dtls, decl=decl)
    munits = [hdr[i: i + 1] for i in range(len(hdr))] + units
    pos = 0
    seq = 0
    for idx, r in enumerate(inp["recs"]):
        n, bad = r["n"], r["bad"]
        is_extra = kind in ("trail", "decl_trail") and idx == len(inp["recs"]) - 1
        if is_extra:
            wire_units += rec_units([b"\x01"], ctype=0x14, seq=seq)
        elif kind == "empty" and n == 0:
            wire_units += rec_units([], seq=seq)
        else:
            ctype, ver = 0x16, None
            if kind == "badhdr" and bad:
                ctype = 0x17
            if kind == "recver":
                ver = tuple(args["ver"])
            wire_units += rec_units(munits[pos: pos + n], ctype=ctype, ver=ver, seq=seq)
            pos += n
        seq += 1
    assert pos == len(munits), (pos, len(munits), kind)
    return wire_units


# ------------------------------------------------------------------------------------------ execution
def _layer(dtls: bool):
    from mitmproxy.proxy import events, layer
    from mitmproxy.proxy.layers import tls
    from vf import sansio

    ctx = sansio.make_context(transport="udp" if dtls else "tcp")
    layer.Layer(ctx)  # a parent entry: ClientTLSLayer looks at context.layers[-2]
    cl = tls.ClientTLSLayer(ctx)
    cl.child_layer = layer.NextLayer(ctx)
    list(cl.handle_event(events.Start()))
    return ctx, cl


class _Intern:
    def __init__(self):
        self.ids: dict[bytes, int] = {}

    def __call__(self, x) -> int:
        if isinstance(x, str):
            x = b"s:" + x.encode("utf-8", "surrogateescape")
        elif isinstance(x, (bytes, bytearray)):
            x = b"b:" + bytes(x)
        else:
            x = b"r:" + repr(x).encode()
        return self.ids.setdefault(x, len(self.ids) + 1)


def _fields(it: _Intern, sni, alpn, suites, exts):
    def num(v):
        return v if isinstance(v, int) and not isinstance(v, bool) and 0 <= v < 2 ** 31 else 1000000 + it(v)

    return {"sni": 0 if sni is None else it(sni if isinstance(sni, str) else ("!", sni)),
            "alpn": [it(a) if isinstance(a, (bytes, bytearray)) else it(("!", a)) for a in list(alpn)],
            "suites": [num(s) for s in list(suites)],
            "exts": [[num(e[0]), it(e[1]) if isinstance(e[1], (bytes, bytearray)) else it(("!", e[1]))] for e in list(exts)]}


def _report(it, ch):
    """Read the four reported fields from a mitmproxy ClientHello; an accessor that raises is an observation."""
    try:
        return "hello", "", _fields(it, ch.sni, ch.alpn_protocols, ch.cipher_suites, ch.extensions)
    except Exception as e:  # noqa: BLE001 - observation
        return "raised", "fields:" + type(e).__name__, None


def run(sc: dict) -> list[dict]:
    from mitmproxy.proxy import commands, events
    from mitmproxy.proxy.layers import tls

    dtls = sc["proto"] == "dtls"
    wire = bytes.fromhex(sc["wire"])
    it = _Intern()
    inp = {"k": "input", "proto": sc["proto"], "valid": bool(sc["valid"]), "variant": sc["variant"], "nrec": sc["nrec"]}
    if sc["valid"]:
        r = th.read_hello(th.reassemble(wire, dtls), dtls)  # the oracle; failing here is a harness bug
        inp["ref"] = _fields(it, r["sni"], r["alpn"], r["suites"], r["exts"])
    trace = [inp]
    ctx, cl = _layer(dtls)
    parse = tls.dtls_parse_client_hello if dtls else tls.parse_client_hello
    pos = 0
    for n in sc["segs"]:
        chunk = wire[pos: pos + n]
        pos += len(chunk)
        if not chunk:
            break
        ev = {"k": "seg", "end": pos >= len(wire), "nx": 0}
        # function API on everything received so far
        try:
            ch = parse(wire[:pos])
        except ValueError:
            ev["fn"] = "invalid"
        except Exception as e:  # noqa: BLE001 - observation
            ev["fn"], ev["efn"] = "raised", type(e).__name__
        else:
            if ch is None:
                ev["fn"] = "incomplete"
            else:
                ev["fn"], exc, got = _report(it, ch)
                if got is None:
                    ev["efn"] = exc
                else:
                    ev["gfn"] = got
                    ev["nx"] = len(got["exts"])
        # the layer, segment by segment
        try:
            cmds = list(cl.handle_event(events.DataReceived(ctx.client, chunk)))
        except Exception as e:  # noqa: BLE001 - observation
            ev["lay"], ev["elay"] = "raised", type(e).__name__
        else:
            hello = [c for c in cmds if isinstance(c, tls.TlsClienthelloHook)]
            failed = [c for c in cmds if isinstance(c, tls.TlsFailedClientHook)]
            if hello:
                ev["lay"], exc, got = _report(it, hello[0].data.client_hello)
                if got is None:
                    ev["elay"] = exc
                else:
                    ev["glay"] = got
            elif failed:
                ev["lay"] = "invalid"
            elif not [c for c in cmds if not isinstance(c, commands.Log)]:
                ev["lay"] = "incomplete"
            else:
                ev["lay"] = "unexpected:" + type(cmds[0]).__name__
        trace.append(ev)
        if ev["lay"] != "incomplete" or ev["fn"] != "incomplete":
            break
    return trace


def make_scenario(proto, valid, variant, nrec, wire: bytes, segs, **extra):
    return {"proto": proto, "valid": valid, "variant": variant, "nrec": nrec, "wire": wire.hex(), "segs": list(segs), **extra}


# ------------------------------------------------------------------------------- byte-level scenario builders
def split_sizes(rng, total, k, minsize=1):
    if k <= 1 or total < 2:
        return [total]
    k = min(k, total)
    cuts = sorted(rng.sample(range(1, total), k - 1))
    return [b - a for a, b in zip([0] + cuts, cuts + [total])]


def tls_wire(msg: bytes, sizes, rng=None, vers=((3, 1), (3, 3), (3, 0), (3, 2))):
    out, pos = b"", 0
    for i, n in enumerate(sizes):
        ver = vers[(rng.randrange(len(vers)) if rng else 0)] if i else vers[0]
        out += th.record(msg[pos: pos + n], False, ver=ver)
        pos += n
    return out


class Check(core.PropertyCheck):
    ID = "C13"
    SPEC_DIR = "ClientHello"
    MODEL = "ClientHello"
    MON = "Mon_ClientHello"
    REQUIRED_WITNESSES = ("tls", "dtls", "valid", "malformed", "hello_parsed", "hello_after_incomplete",
                          "hello_multi_record", "hello_before_end", "fields_compared", "sni_compared", "no_sni",
                          "alpn_compared", "no_extensions", "prefix_incomplete", "malformed_rejected",
                          "malformed_accepted", "malformed_incomplete")
    REQUIRED_ACTIONS = ("Choose", "Segment")
    ASSUMPTIONS = (
        "the oracle is the harness's own ClientHello writer/reader (lib/vf/tlshello.py, no mitmproxy code); 'valid' means "
        "written by that writer as an RFC-conformant hello in a legal record/fragment layout",
        "byte strings are interned to integers per trace; the monitor only compares them for equality",
        "the layer outcome is classified from the commands of ClientTLSLayer: TlsClienthelloHook = hello, "
        "TlsFailedClientHook = invalid, no command = incomplete",
    )

    def mon_constants(self, tier):
        return {}

    def setup(self, ctx):
        """Self-check of the oracle: the harness reader must agree with a third parser (aioquic) where that one
        accepts the hello.  A disagreement is a machinery failure, never a verdict."""
        try:
            from aioquic import tls as at
            from aioquic.buffer import Buffer
        except Exception:  # noqa: BLE001
            return
        n = 0
        for name, spec in hello_pool(False):
            body, _ = th.build_body(spec)
            mine = th.read_hello(body, False)
            try:
                h = at.pull_client_hello(Buffer(data=th.handshake_header(len(body), False) + body))
            except Exception:  # noqa: BLE001 - aioquic only reads TLS 1.3 style hellos
                continue
            n += 1
            theirs = (h.server_name, [a.encode("latin-1") if isinstance(a, str) else a for a in (h.alpn_protocols or [])],
                      list(h.cipher_suites))
            try:
                mine_alpn = [a.decode("utf-8") for a in mine["alpn"]]
                their_alpn = list(h.alpn_protocols or [])
            except UnicodeDecodeError:
                mine_alpn = their_alpn = []
            if (mine["sni"], mine_alpn, mine["suites"]) != (h.server_name, their_alpn, list(h.cipher_suites)):
                raise core.MachineryError(f"oracle self-check: reader and aioquic disagree on {name}: {mine} vs {theirs}")
        ctx.notes["oracle_cross_checked_with_aioquic"] = n

    def model_constants(self, tier, big=False):
        inputs = abstract_inputs(tier, big)
        ti = tla_inputs(inputs)
        return {"Inputs": ti, "MaxSegs": 4 if big else 3, "MaxUnits": max(i["st"][-1] for i in ti)}

    def model_runs(self, ctx):
        small = ctx.model_check(self.MODEL, self.model_constants(ctx.tier), dump=True)
        if ctx.quick:
            return [small]
        big = ctx.model_check(self.MODEL, self.model_constants(ctx.tier, big=True), dump=False, tag="_big")
        return [small, big]

    # --- scenarios ---------------------------------------------------------------------------------
    def _from_behaviour(self, beh, inputs, rng, pools, fine=False):
        idx = None
        nunits = []
        for name, args, _st in beh[1:]:
            if name == "Choose":
                idx = args[0]
            elif name == "Segment":
                nunits.append(args[0])
        if idx is None:
            return None
        inp = inputs[idx - 1]
        pool = pools[inp["proto"]]
        name, spec = pool[rng.randrange(len(pool))]
        wu = concretise(inp, spec, fine)
        segs, pos = [], 0
        for n in nunits:
            segs.append(len(b"".join(wu[pos: pos + n])))
            pos += n
        pred = core.predicted_events(beh)
        nex = len(spec["exts"])
        for e in pred:  # the abstract model counts 3 extensions in a complete body; this hello has nex
            if e.get("k") == "seg" and e.get("nx") == 3:
                e["nx"] = nex
        sc = make_scenario(inp["proto"], inp["valid"], inp["variant"], inp["nrec"], b"".join(wu), segs, hello=name,
                           kind=inp["kind"])
        return core.Scenario(sc, predicted=pred, source="model")

    def scenarios(self, ctx, models):
        rng = random.Random(ctx.seed + 13)
        inputs = abstract_inputs(ctx.tier)
        pools = {p: [(n, s) for n, s in hello_pool(p == "dtls") if n in MODELABLE and len(s["exts"]) >= 3]
                 for p in ("tls", "dtls")}
        g = models[0].graph
        behs = g.edge_cover(ctx.rng, max_len=8, tail=3)
        behs += g.random_walks(ctx.rng, 1500 if ctx.quick else 12000, 6)
        seen = set()
        for b in behs:
            key = tuple((n, a) for n, a, _ in b[1:])
            if key in seen or len(b) < 3:
                continue
            seen.add(key)
            sc = self._from_behaviour(b, inputs, rng, pools)
            if sc is not None:
                yield sc
        yield from self._suite(ctx, rng)
        yield from self._random(ctx, rng)

    def _valid_tls(self, rng, name, spec, *, nrec=None, nseg=None, trailing=False, sizes=None, segs=None):
        body, _cuts = th.build_body(spec)
        msg = th.handshake_header(len(body), False) + body
        if sizes is None:
            k = nrec or rng.choice([1, 1, 2, 2, 3, 5])
            k = max(k, -(-len(msg) // 16384))
            sizes = split_sizes(rng, len(msg), k)
            while max(sizes) > 16384:
                sizes = split_sizes(rng, len(msg), len(sizes) + 1)
        wire = tls_wire(msg, sizes, rng)
        variant = "plain"
        if trailing:
            wire += rng.choice([th.record(b"\x01", False, ctype=0x14, ver=(3, 3)),
                                th.record(b"\x17" * 30, False, ctype=0x17, ver=(3, 3)),
                                th.record(b"\x01", False, ctype=0x14, ver=(3, 3)) + th.record(b"x" * 100, False, ctype=0x17, ver=(3, 3))])
            variant = "trailing_record"
        if segs is None:
            segs = split_sizes(rng, len(wire), nseg or rng.choice([1, 2, 2, 3, 4, 7]))
        return make_scenario("tls", True, variant, len(sizes), wire, segs, hello=name)

    def _valid_dtls(self, rng, name, spec, *, nseg=None, frags=1):
        body, cuts = th.build_body(spec)
        if frags == 1:
            recs = [th.record(th.handshake_header(len(body), True) + body, True)]
            variant = "plain"
        else:
            sizes = split_sizes(rng, len(body), frags)
            recs, off = [], 0
            for k, n in enumerate(sizes):
                recs.append(th.record(th.handshake_header(len(body), True, frag_off=off, frag_len=n) + body[off: off + n], True, seq=k))
                off += n
            variant = "dtls_fragments"
        # datagrams carry whole records
        groups = split_sizes(rng, len(recs), nseg or rng.randint(1, len(recs)))
        segs, i = [], 0
        for gsize in groups:
            segs.append(sum(len(r) for r in recs[i: i + gsize]))
            i += gsize
        return make_scenario("dtls", True, variant, len(recs), b"".join(recs), segs, hello=name)

    def _openssl(self, ctx, rng):
        """ClientHellos written by OpenSSL itself (pyOpenSSL client, TLS 1.2 / 1.3 / DTLS, with and without SNI and
        ALPN), re-cut into random record / segment layouts.  They differ from run to run (client random), the replay
        file carries the bytes."""
        from OpenSSL import SSL

        def hello(method, lo, hi, sni, alpn):
            c = SSL.Context(method)
            if lo:
                c.set_min_proto_version(lo)
                c.set_max_proto_version(hi)
            conn = SSL.Connection(c, None)
            if sni:
                conn.set_tlsext_host_name(sni)
            if alpn:
                conn.set_alpn_protos(alpn)
            conn.set_connect_state()
            try:
                conn.do_handshake()
            except SSL.WantReadError:
                pass
            return conn.bio_read(1 << 16)

        for lo, hi in ((SSL.TLS1_2_VERSION, SSL.TLS1_2_VERSION), (SSL.TLS1_3_VERSION, SSL.TLS1_3_VERSION), (None, None)):
            for sni, alpn in ((b"example.mitmproxy.org", [b"h2", b"http/1.1"]), (None, None), (b"Host.Example", None)):
                wire = hello(SSL.TLS_METHOD, lo, hi, sni, alpn)
                body = th.reassemble(wire, False)
                msg = th.handshake_header(len(body), False) + body
                for _ in range(2 if ctx.quick else 20):
                    sizes = split_sizes(rng, len(msg), rng.choice([1, 2, 3]))
                    w2 = tls_wire(msg, sizes, rng)
                    yield core.Scenario(make_scenario("tls", True, "plain", len(sizes), w2,
                                                      split_sizes(rng, len(w2), rng.choice([1, 2, 4])), hello="openssl"), source="suite")
        for sni, alpn in ((b"example.mitmproxy.org", [b"h2"]), (None, None)):
            wire = hello(SSL.DTLS_METHOD, None, None, sni, alpn)
            ver = wire[1:3]
            # as sent (OpenSSL puts {254,255} on the first ClientHello record) and with the record version {254,253}
            yield core.Scenario(make_scenario("dtls", True, "plain" if ver == b"\xfe\xfd" else "dtls10_record_version", 1, wire,
                                              [len(wire)], hello="openssl"), source="suite")
            w2 = wire[:1] + b"\xfe\xfd" + wire[3:]
            yield core.Scenario(make_scenario("dtls", True, "plain", 1, w2, [len(w2)], hello="openssl"), source="suite")

    def _suite(self, ctx, rng):
        """Hand-picked classes the abstract model does not enumerate (real byte granularity, every hello of the pool)."""
        yield from self._openssl(ctx, rng)
        for dtls in (False, True):
            for name, spec in hello_pool(dtls):
                reps = 3 if ctx.quick else 25
                for _ in range(reps):
                    if dtls:
                        yield core.Scenario(self._valid_dtls(rng, name, spec), source="suite")
                    else:
                        yield core.Scenario(self._valid_tls(rng, name, spec), source="suite")
                        yield core.Scenario(self._valid_tls(rng, name, spec, trailing=True), source="suite")
        # structurally valid hellos with degenerate extension contents (totality of parsing and of every accessor)
        for dtls in (False, True):
            for name, spec in degenerate_pool(dtls):
                body, _cuts = th.build_body(spec)
                for _ in range(2 if ctx.quick else 12):
                    if dtls:
                        wire = th.record(th.handshake_header(len(body), True) + body, True)
                        sc = make_scenario("dtls", False, "degenerate:" + name, 1, wire, [len(wire)], hello=name)
                    else:
                        msg = th.handshake_header(len(body), False) + body
                        sizes = split_sizes(rng, len(msg), rng.choice([1, 2, 3]))
                        wire = tls_wire(msg, sizes, rng)
                        sc = make_scenario("tls", False, "degenerate:" + name, len(sizes), wire,
                                           split_sizes(rng, len(wire), rng.choice([1, 2, 3])), hello=name)
                    yield core.Scenario(sc, source="suite")
        # a record of the maximum legal size (2^14) and records of one byte
        name, spec = [p for p in hello_pool(False) if p[0] == "huge_padding"][0]
        body, _ = th.build_body(spec)
        n = len(body) + 4
        for sizes in ([16384, n - 16384], [n - 16384, 16384], [1, 16384, n - 16385], [16383, n - 16383]):
            yield core.Scenario(self._valid_tls(rng, name, spec, sizes=sizes), source="suite")
        name, spec = hello_pool(False)[0]
        body, _ = th.build_body(spec)
        n = len(body) + 4
        yield core.Scenario(self._valid_tls(rng, name, spec, sizes=[1] * n, nseg=3), source="suite")
        yield core.Scenario(self._valid_tls(rng, name, spec, sizes=[n], segs=[1] * (n + 5)), source="suite")
        # every single byte cut (two segments) of a two-record hello; thorough: every pair of cuts as well
        sizes = [n // 3, n - n // 3]
        base = self._valid_tls(rng, name, spec, sizes=sizes, segs=[1])
        total = len(base["wire"]) // 2
        for c in range(1, total):
            yield core.Scenario({**base, "segs": [c, total - c]}, source="suite")
        if not ctx.quick:
            for name2, spec2 in hello_pool(False)[1:6]:
                b2 = self._valid_tls(rng, name2, spec2, nrec=3, segs=[1])
                t2 = len(b2["wire"]) // 2
                for c in range(1, t2):
                    yield core.Scenario({**b2, "segs": [c, t2 - c]}, source="suite")
            for c1 in range(1, total - 1):
                for c2 in range(c1 + 1, total):
                    yield core.Scenario({**base, "segs": [c1, c2 - c1, total - c2]}, source="suite")

    def _random(self, ctx, rng):
        """Seeded random driver beyond the model: mutated hellos and arbitrary bytes (totality only)."""
        n = 1500 if ctx.quick else 30000
        pools = {False: hello_pool(False)[:-1], True: hello_pool(True)}
        for _ in range(n):
            dtls = rng.random() < 0.3
            name, spec = rng.choice(pools[dtls])
            body, cuts = th.build_body(spec)
            hdr = th.handshake_header(len(body), dtls)
            msg = bytearray(hdr + body)
            hl = len(hdr)
            kind = rng.choice(["flip", "lenfield", "truncate_body", "extend_body", "garbage", "record_garbage",
                               "msg_type", "zero_record", "bad_version", "flip_many", "hs_len"])
            if kind == "flip":
                i = rng.randrange(len(msg))
                msg[i] ^= 1 << rng.randrange(8)
            elif kind == "flip_many":
                for _k in range(rng.randint(2, 12)):
                    msg[rng.randrange(len(msg))] = rng.randrange(256)
            elif kind == "lenfield":
                # a length field inside the body (they start at the token boundaries) set to an extreme value
                c = rng.choice([hl + 34] + [hl + x for x in cuts[:-1]])
                for j in range(rng.choice([1, 2])):
                    if c + j < len(msg):
                        msg[c + j] = rng.choice([0, 0xFF, 1, 0x80])
            elif kind == "truncate_body":
                cut = rng.randrange(0, len(body))
                msg = bytearray(th.handshake_header(cut, dtls) + body[:cut])
            elif kind == "extend_body":
                extra = bytes(rng.randrange(256) for _k in range(rng.randint(1, 9)))
                msg = bytearray(th.handshake_header(len(body) + len(extra), dtls) + body + extra)
            elif kind == "msg_type":
                msg[0] = rng.choice([0, 2, 11, 255])
            elif kind == "hs_len":
                v = rng.choice([0, 1, 3, len(body) - 1, len(body) + 1, 0xFFFFFF])
                pos = 9 if dtls and rng.random() < 0.7 else 1
                msg[pos: pos + 3] = v.to_bytes(3, "big")
            msgb = bytes(msg)
            if kind == "garbage":
                wire = bytes(rng.randrange(256) for _k in range(rng.randint(1, 300)))
            elif dtls:
                wire = th.record(msgb, True, ver=rng.choice([(0xFE, 0xFD), (0xFE, 0xFD), (0xFE, 0xFE), (0xFE, 0xFC)]) if kind == "bad_version" else None)
            else:
                sizes = split_sizes(rng, len(msgb), rng.choice([1, 1, 2, 3]))
                wire = tls_wire(msgb, sizes, rng)
                if kind == "bad_version":
                    wire = wire[:1] + bytes([rng.choice([2, 3, 4]), rng.choice([4, 5, 0xFF])]) + wire[3:]
            if kind == "record_garbage":
                wire = wire[: rng.randrange(1, len(wire))] + bytes(rng.randrange(256) for _k in range(rng.randint(1, 40)))
            elif kind == "zero_record":
                z = th.record(b"", dtls)
                at = rng.choice([0, len(wire)]) if dtls else rng.choice([0, 5 + sizes[0] if len(sizes) > 1 else 0, len(wire)])
                wire = wire[:at] + z + wire[at:]
            if dtls:
                segs = [len(wire)]
            else:
                segs = split_sizes(rng, len(wire), rng.choice([1, 1, 2, 3, 5]))
            yield core.Scenario(make_scenario("dtls" if dtls else "tls", False, "mutated:" + kind, 1, wire, segs, hello=name),
                                source="random")
        # well-formed hellos in random layouts (full checks)
        for _ in range(300 if ctx.quick else 6000):
            name, spec = rng.choice(pools[False])
            yield core.Scenario(self._valid_tls(rng, name, spec, trailing=rng.random() < 0.3), source="random")

    def execute(self, sc):
        return run(sc)

    def drift_view(self, trace):
        out = []
        for ev in trace:
            if ev["k"] == "input":
                out.append({k: ev[k] for k in ("k", "proto", "valid", "variant", "nrec")})
            else:
                out.append({k: ev[k] for k in ("k", "end", "lay", "fn", "nx")})
        return out
