"""X06 (coverage extension, not one of the 54 given properties) -- stored flows are replayed through the hook
sequence of their protocol: eventsequence.iterate, Master.load_flow, ReadFile.load_flows(_from_path) / rfile.

Model: spec/EventSeq/EventSeq.tla   Monitor: Mon_EventSeq.tla
Real code driven: mitmproxy.master.Master (real Options, AddonManager), the real ReadFile addon, real flow files written
by io.FlowWriter; a recording addon with one handler per hook (suspending handlers are released by the scenario).
Oracle: the file image is described by the harness's own typed-netstring codec (lib/vf/flowgen.ref_*).
"""
import asyncio
import contextvars
import inspect
import io
import logging
import os
import random
import tempfile

from vf import core

HOOKS = ("requestheaders", "request", "responseheaders", "response", "error",
         "websocket_start", "websocket_message", "websocket_end",
         "tcp_start", "tcp_message", "tcp_end", "tcp_error",
         "udp_start", "udp_message", "udp_end", "udp_error",
         "dns_request", "dns_response", "dns_error")
RESP_AT = ("requestheaders", "request", "dns_request")
ERR_AT = ("requestheaders", "request", "dns_request", "tcp_start", "tcp_message", "udp_start", "udp_message")
POLS = ("pass", "resp", "noresp", "err", "raise")
TAILS = ("clean", "garbage", "nonflow", "cut", "missing")
REV_HOST = "rev.target.test"
FILTERS = ("~comment ^keep", "!~comment ^skip", "~comment ^keep & ~all", '~comment "^keep" | ~comment neverthere')
GARBAGE = (b"qibble", b"\x00\xff", b"12", b"0:", b"5:ab", b" ", b"\n")

LOADER = contextvars.ContextVar("x06_loader", default=0)


# ---------------------------------------------------------------------------------------------------------------
# abstract worlds (model constants and scenario data)

def F(t, resp=False, err=False, ws=False, n=0, match=True, sync=False, msgs=None):
    return {"t": t, "resp": resp, "err": err, "ws": ws, "msgs": tuple(msgs if msgs is not None else range(1, n + 1)),
            "match": match, "sync": sync}


def FILE(flows, tail="clean", via="fo"):
    return {"flows": tuple(flows), "tail": tail, "via": via}


def WORLD(files, mode="regular", filt=False):
    return {"mode": mode, "filt": filt, "files": tuple(files)}


def singles():
    out = []
    for resp in (False, True):
        for err in (False, True):
            out.append(F("http", resp=resp, err=err))
            out.append(F("dns", resp=resp, err=err))
    out += [F("http", resp=True, ws=True, n=0), F("http", resp=True, ws=True, n=2), F("http", resp=True, ws=True, err=True, n=1)]
    for t in ("tcp", "udp"):
        out += [F(t, n=0), F(t, n=2), F(t, n=1, err=True), F(t, n=0, err=True)]
    return out


def model_worlds(tier):
    ws = []
    modes = ("regular", "reverse", "multi", "other")
    vias = ("fo", "path", "rfile")
    k = 0
    for d in singles():            # every completion state on its own, suspending handlers, every policy
        ws.append(WORLD([FILE([d], "clean", vias[k % 3])], modes[k % 4]))
        k += 1
    for d in singles()[::2]:       # ... and with synchronous handlers
        ws.append(WORLD([FILE([dict(d, sync=True)], "clean", vias[k % 3])], modes[(k + 1) % 4]))
        k += 1
    sg = singles()
    for i in range(0, len(sg), 3):  # ... and through script.run (several flows per call)
        ws.append(WORLD([FILE(sg[i:i + 3], "clean", "script")], modes[(i // 3) % 2], i % 2 == 0))
    h, he, hr = F("http", resp=True), F("http", err=True), F("http")
    ws1, tc, ud, dn = F("http", resp=True, ws=True, n=1), F("tcp", n=1), F("udp", n=1, err=True), F("dns", resp=True)
    nm = lambda d: dict(d, match=False)  # noqa: E731
    sy = lambda d: dict(d, sync=True)  # noqa: E731
    # files of several flows: filter, tails, entry points, modes
    ws += [
        WORLD([FILE([h, nm(tc), dn], "clean", "path")], "reverse", True),
        WORLD([FILE([nm(h), nm(dn)], "clean", "fo")], "reverse", True),
        WORLD([FILE([nm(he), ws1], "garbage", "fo")], "regular", True),
        WORLD([FILE([he, ud], "garbage", "fo")], "other"),
        WORLD([FILE([sy(ws1), sy(h), tc], "cut", "rfile")], "multi"),
        WORLD([FILE([dn, sy(hr)], "nonflow", "path")], "reverse"),
        WORLD([FILE([sy(tc), sy(dn), sy(he)], "clean", "rfile")], "regular"),
        WORLD([FILE([nm(tc), h], "clean", "rfile")], "reverse", True),
        WORLD([FILE([], "clean", "fo")]), WORLD([FILE([], "clean", "rfile")]),
        WORLD([FILE([], "garbage", "path")]), WORLD([FILE([], "cut", "fo")]), WORLD([FILE([], "nonflow", "rfile")]),
        WORLD([FILE([], "missing", "path")]), WORLD([FILE([], "missing", "rfile")]),
        WORLD([FILE([h], "cut", "path")], "regular", True),
    ]
    # two concurrent loads (the rfile task plus an upload, two uploads)
    ws += [
        WORLD([FILE([h], "clean", "rfile"), FILE([tc], "clean", "fo")], "reverse"),
        WORLD([FILE([he, ws1], "clean", "fo"), FILE([nm(h), dn], "clean", "script")], "reverse", True),
        WORLD([FILE([dn, sy(hr)], "garbage", "fo"), FILE([ws1], "clean", "path")], "regular"),
    ]
    if tier != "quick":
        ws += [
            WORLD([FILE([ws1, he], "clean", "fo"), FILE([F("udp", n=2), dn], "cut", "path")], "multi"),
            WORLD([FILE([h, nm(h), he], "clean", "fo"), FILE([nm(tc), tc], "clean", "fo")], "reverse", True),
            WORLD([FILE([F("http", resp=True, ws=True, n=3), F("tcp", n=3, err=True)], "clean", "fo")], "reverse"),
            WORLD([FILE([sy(F("http", resp=True, err=True)), F("dns", resp=True, err=True), F("udp", n=2)], "nonflow", "path")]),
        ]
    return ws


# ---------------------------------------------------------------------------------------------------------------
# concretisation

def mode_spec(cls, rng):
    """(option value, reverse target or None).  The class is decided here by construction, not by parsing."""
    scheme = rng.choice(["http", "https"])
    port = rng.choice([None, 8001, 443, 80])
    listen = rng.choice(["", "@9000", "@127.0.0.1:9001"])
    rev = "reverse:%s://%s%s%s" % (scheme, REV_HOST, "" if port is None else ":%d" % port, listen)
    tgt = (REV_HOST, port if port is not None else {"http": 80, "https": 443}[scheme], scheme)
    if cls == "reverse":
        return [rev], tgt
    if cls == "multi":
        return rng.choice([["regular", rev], [rev, "reverse:http://other.test:1@9100"], [rev, "socks5@9101"]]), tgt
    if cls == "other":
        return rng.choice([["upstream:http://up.test:3128"], ["socks5"], ["transparent"], ["regular@8082"]]), tgt
    return ["regular"], tgt


def msg_key(from_client, content, typ):
    return "%d|%d|%s" % (1 if from_client else 0, int(typ), bytes(content).hex())


def build_flow(d, fi, rng, rich):
    """A real flow for descriptor d (flow number fi of its file)."""
    from mitmproxy import flow as mflow
    from mitmproxy import websocket
    from mitmproxy.test import tflow, tutils
    from wsproto.frame_protocol import Opcode

    t = d["t"]
    if rich:
        from vf import flowgen

        kind = {"http": "ws" if d["ws"] else ("httpresp" if d["resp"] else "http"), "tcp": "tcp", "udp": "udp",
                "dns": "dnsresp" if d["resp"] else "dns"}[t]
        f = flowgen.make_flow(kind, rng, rich=True)
        f.intercepted = False
    elif t == "http":
        f = tflow.twebsocketflow() if d["ws"] else tflow.tflow(resp=d["resp"])
    elif t == "tcp":
        f = tflow.ttcpflow()
    elif t == "udp":
        f = tflow.tudpflow()
    else:
        f = tflow.tdnsflow(resp=d["resp"])
    f.error = mflow.Error("stored error %d" % fi) if d["err"] else None
    if t in ("http", "dns"):
        if not d["resp"]:
            f.response = None
        elif f.response is None:
            f.response = tutils.tresp() if t == "http" else tutils.tdnsresp()
    contents = d.get("contents")

    def content(i, m):
        if contents:
            return bytes.fromhex(contents[i])
        return b"f%d-m%d" % (fi, m)

    if t == "http":
        if d["ws"]:
            wsd = f.websocket or websocket.WebSocketData()
            wsd.messages = [websocket.WebSocketMessage(Opcode.BINARY if m % 3 == 0 else Opcode.TEXT, m % 2 == 1,
                                                       content(i, m), 946681200 + i) for i, m in enumerate(d["msgs"])]
            f.websocket = wsd
        else:
            f.websocket = None
    elif t in ("tcp", "udp"):
        from mitmproxy import tcp, udp

        mcls = tcp.TCPMessage if t == "tcp" else udp.UDPMessage
        f.messages = [mcls(m % 2 == 1, content(i, m), 946681200 + i) for i, m in enumerate(d["msgs"])]
    f.comment = ("keep %d" if d["match"] else "skip %d") % fi
    return f


def build_image(fdesc, li, rng, rich):
    """File image for one abstract file: real FlowWriter output plus the tail."""
    from mitmproxy import io as mio
    from mitmproxy.test import tflow
    from vf import flowgen

    bio = io.BytesIO()
    w = mio.FlowWriter(bio)
    prev = None
    for i, d in enumerate(fdesc["flows"]):
        if not (d.get("same") and prev is not None):   # same: the previous flow once more (same id, e.g. saved twice)
            prev = build_flow(d, 100 * li + i + 1, rng, rich)
        w.add(prev)
    data = bio.getvalue()
    tail = fdesc["tail"]
    if tail == "garbage":
        data += rng.choice(GARBAGE)
    elif tail == "nonflow":
        data += flowgen.ref_dump(rng.choice([True, None, [1, 2], b"abc", {"foo": 1}, {"type": "nope", "version": 21}]))
    elif tail == "cut":
        b2 = io.BytesIO()
        mio.FlowWriter(b2).add(rng.choice([tflow.tflow(resp=True), tflow.ttcpflow(), tflow.tdnsflow(resp=True)]))
        rec = b2.getvalue()
        data += rec[: rng.randint(1, len(rec) - 1)]
    return data


def describe_image(data, fdesc, filt):
    """World description of a file image with the harness's own codec: complete records only."""
    from vf import flowgen

    recs, _end = flowgen.ref_records(data)
    flows, ids, stored, targets = [], [], [], []
    for i, (s, e) in enumerate(recs):
        try:
            st = flowgen.ref_parse(data[s:e])
            t = st["type"]
        except Exception:  # noqa: BLE001 - not a flow record: the framing of the tail
            break
        if not isinstance(st, dict) or t not in ("http", "tcp", "udp", "dns"):
            break
        keys = []
        if t == "http" and st.get("websocket") is not None:
            keys = [msg_key(m[1], m[2], m[0]) for m in st["websocket"]["messages"]]
        elif t in ("tcp", "udp"):
            keys = [msg_key(m[0], m[1], 0) for m in st["messages"]]
        intern = {}
        for k in keys:
            intern.setdefault(k, len(intern) + 1)
        src = fdesc["flows"][i] if i < len(fdesc["flows"]) else {}
        flows.append({"t": t, "resp": st.get("response") is not None, "err": st.get("error") is not None,
                      "ws": t == "http" and st.get("websocket") is not None, "msgs": [intern[k] for k in keys],
                      "match": str(st.get("comment", "")).startswith("keep"), "sync": bool(src.get("sync", False))})
        ids.append(st["id"])
        stored.append(intern)
        if t == "http":
            r = st["request"]
            sch = r["scheme"]
            targets.append((r["host"], r["port"], sch.decode("utf-8", "surrogateescape") if isinstance(sch, bytes) else sch))
        else:
            targets.append(None)
    return flows, ids, stored, targets


# ---------------------------------------------------------------------------------------------------------------
# the run

class _Capture(logging.Handler):
    def __init__(self):
        super().__init__(level=logging.DEBUG)
        self.fre = 0

    def emit(self, record):
        if record.name == "mitmproxy.addons.readfile" and record.exc_info and record.exc_info[0] is not None:
            self.fre += 1 if record.exc_info[0].__name__ == "FlowReadException" else 0


class Run:
    def __init__(self, sc, tmpdir):
        self.sc = sc
        self.tmpdir = tmpdir
        self.trace = []
        self.pending = {}    # loader -> future of the suspended handler
        self.last = {}       # loader -> (flow number, flow object) of the flow it is working on
        self.leftset = {}    # loader -> flow numbers already reported as left
        self.tasks = {}
        self.paths = []

    # -- recording addon ---------------------------------------------------------------------------------------
    def fidx(self, l, flow):
        ids = self.ids.get(l, [])
        fid = getattr(flow, "id", None)
        cand = [i + 1 for i, x in enumerate(ids) if x == fid]
        if len(cand) > 1:   # the same flow stored twice: the copy the loader is at (objects differ per record)
            cur = self.last.get(l)
            if cur is not None and cur[1] is flow:
                return cur[0]
            left = self.leftset.get(l, set())
            cand = [i for i in cand if i not in left and (cur is None or i > cur[0])] or cand
        return cand[0] if cand else 0

    def view(self, l, fi, flow):
        from mitmproxy import http

        msgs, ws, tgt = [], False, ""
        intern = self.stored[l][fi - 1] if 0 < fi <= len(self.stored.get(l, [])) else {}
        raw = []
        if isinstance(flow, http.HTTPFlow):
            ws = flow.websocket is not None
            if ws:
                raw = [msg_key(m.from_client, m.content, int(m.type)) for m in flow.websocket.messages]
            cur = (flow.request.host, flow.request.port, flow.request.scheme)
            orig = self.targets[l][fi - 1] if 0 < fi <= len(self.targets.get(l, [])) else None
            tgt = "mode" if cur == self.revtgt else ("orig" if cur == orig else "other")
        elif hasattr(flow, "messages"):
            raw = [msg_key(m.from_client, m.content, 0) for m in flow.messages]
        for k in raw:
            msgs.append(intern.get(k, 1000 + len(msgs)))
        return {"msgs": msgs, "resp": getattr(flow, "response", None) is not None, "err": flow.error is not None,
                "ws": ws, "tgt": tgt}

    def flush_left(self, l, upto=None):
        cur = self.last.get(l)
        if cur is not None and cur[0] != upto and cur[0] not in self.leftset.setdefault(l, set()):
            self.leftset[l].add(cur[0])
            self.trace.append({"k": "left", "l": l, "f": cur[0], **self.view(l, cur[0], cur[1])})

    def on_hook(self, name, flow):
        l = LOADER.get()
        fi = self.fidx(l, flow)
        self.flush_left(l, upto=fi)
        self.last[l] = (fi, flow)
        self.trace.append({"k": "hook", "l": l, "f": fi, "name": name, **self.view(l, fi, flow)})
        descs = self.world["files"][l - 1]["flows"] if 0 < l <= len(self.world["files"]) else []
        via = self.world["files"][l - 1]["via"] if 0 < l <= len(self.world["files"]) else ""
        if via == "script" or (0 < fi <= len(descs) and descs[fi - 1]["sync"]):
            self.trace.append({"k": "done", "l": l, "f": fi, "name": name, "pol": "pass"})
            return None
        return self.suspend(l, fi, name, flow)

    async def suspend(self, l, fi, name, flow):
        fut = asyncio.get_running_loop().create_future()
        self.pending.setdefault(l, []).append((fut, name))
        pol = await fut
        ws = getattr(flow, "websocket", None) is not None
        if ((pol == "resp" and (name not in RESP_AT or flow.response is not None))
                or (pol == "noresp" and (name not in RESP_AT or flow.response is None or ws))
                or (pol == "err" and (name not in ERR_AT or flow.error is not None))):
            pol = "pass"   # outside the domain of addon behaviour (see ASSUMPTIONS)
        if pol == "noresp":
            flow.response = None
        elif pol == "resp":
            from mitmproxy.test import tutils

            flow.response = tutils.tdnsresp() if name == "dns_request" else tutils.tresp()
        elif pol == "err":
            from mitmproxy import flow as mflow

            flow.error = mflow.Error("set by addon")
        self.trace.append({"k": "done", "l": l, "f": fi, "name": name, "pol": pol})
        if pol == "raise":
            raise RuntimeError("addon failure")

    def on_update(self, flows):
        l = LOADER.get()
        for f in flows:
            self.trace.append({"k": "update", "l": l, "f": self.fidx(l, f)})

    # -- loaders -----------------------------------------------------------------------------------------------
    def ret(self, l, cnt, err):
        self.flush_left(l)
        self.trace.append({"k": "ret", "l": l, "cnt": cnt if isinstance(cnt, int) and 0 <= cnt < 2 ** 31 else -1, "err": err})

    async def loader(self, l, via, data, path):
        from mitmproxy import exceptions

        LOADER.set(l)
        cnt, err = 0, ""
        try:
            if via == "script":
                from mitmproxy import io as mio
                from mitmproxy.addons import script

                flows = list(mio.FlowReader(io.BytesIO(data)).stream())
                res = script.ScriptLoader().script_run(flows, self.script_path())
                if inspect.isawaitable(res):
                    await res
            elif via == "path":
                cnt = await self.rf.load_flows_from_path(path)
            elif self.stdin:
                # mitmdump's ReadFileStdin: "-" reads sys.stdin.buffer
                import sys
                from unittest import mock

                with mock.patch.object(sys, "stdin", mock.Mock(buffer=io.BytesIO(data))):
                    cnt = await self.rf.load_flows_from_path("-")
            else:
                cnt = await self.rf.load_flows(io.BytesIO(data))
        except exceptions.FlowReadException:
            cnt, err = 0, "FlowReadException"
        except asyncio.CancelledError:
            raise
        except Exception as e:  # noqa: BLE001 - the outcome of the call, judged by the monitor
            cnt, err = 0, type(e).__name__
        self.ret(l, cnt, err)

    def script_path(self):
        """A script whose handlers report to this run (script.run loads it anew every time)."""
        import sys
        import types

        hub = sys.modules.get("x06_hub")
        if hub is None:
            hub = sys.modules["x06_hub"] = types.ModuleType("x06_hub")
        hub.RUN, hub.HOOKS = self, HOOKS
        p = os.path.join(self.tmpdir, "x06script_%d.py" % os.getpid())
        if not os.path.exists(p):
            with open(p, "w") as fo:
                fo.write("import x06_hub\n\n\ndef _mk(n):\n    def h(flow):\n        return x06_hub.RUN.on_hook(n, flow)\n"
                         "    return h\n\n\nfor _n in x06_hub.HOOKS:\n    globals()[_n] = _mk(_n)\n")
        return p

    def start(self, l):
        f = self.world["files"][l - 1]
        via, data = f["via"], self.images[l - 1]
        path = os.path.join(self.tmpdir, "x06-%d-%d.flows" % (os.getpid(), l))
        if via in ("path", "rfile"):
            if f["tail"] == "missing":
                if os.path.exists(path):
                    os.unlink(path)
            else:
                with open(path, "wb") as fo:
                    fo.write(data)
                self.paths.append(path)
        self.trace.append({"k": "begin", "l": l})
        if via == "rfile":
            # the real start-up path: option rfile, running() creates the read task, doread logs a failure
            self.master.options.update(rfile=path)
            before = self.cap.fre
            cx = contextvars.copy_context()
            cx.run(LOADER.set, l)
            cx.run(self.rf.running)
            task = self.rf._read_task

            def finished(t, l=l, before=before):
                if t.cancelled():
                    return
                e = t.exception()
                self.ret(l, 0, type(e).__name__ if e is not None else ("logged" if self.cap.fre > before else ""))

            if task is None:
                self.ret(l, 0, "no_task")
            else:
                task.add_done_callback(finished)
                self.tasks[l] = task
        else:
            self.tasks[l] = asyncio.get_running_loop().create_task(self.loader(l, via, data, path))

    async def settle(self):
        quiet, n = 0, len(self.trace)
        for _ in range(200):
            await asyncio.sleep(0)
            if len(self.trace) == n:
                quiet += 1
                if quiet >= 4:
                    return
            else:
                quiet, n = 0, len(self.trace)

    async def drive(self):
        lenient = bool(self.sc.get("lenient"))   # random scenarios: an inapplicable step is skipped, not the end
        for st in self.sc["steps"]:
            l = st[1]
            if st[0] == "begin":
                if l in self.tasks or not (0 < l <= len(self.world["files"])):
                    if lenient:
                        continue
                    break
                self.start(l)
            else:
                q = self.pending.get(l) or []
                if not q:
                    if lenient:
                        continue
                    break  # the code is not where the scenario expects it: stop (the trace so far is judged)
                fut, name = q.pop(0)
                if not fut.done():
                    fut.set_result(st[2])
            await self.settle()
        for t in self.tasks.values():
            if not t.done():
                t.cancel()
        for q in self.pending.values():
            for fut, _n in q:
                if not fut.done():
                    fut.cancel()
        await self.settle()

    def run(self, loop):
        from mitmproxy import master, options
        from mitmproxy.addons import readfile

        sc = self.sc
        rng = random.Random(sc.get("seed", 0))
        wd = sc["world"]
        spec, self.revtgt = mode_spec(wd["mode"], rng)
        if sc.get("modespec"):
            spec = sc["modespec"]
        self.images = []
        self.ids, self.stored, self.targets = {}, {}, {}
        files = []
        for li, fd in enumerate(wd["files"], 1):
            data = b"" if fd["tail"] == "missing" else build_image(fd, li, rng, bool(sc.get("rich")))
            tail = fd["tail"]
            if fd.get("cutat") is not None:
                from vf import flowgen

                data = data[: int(fd["cutat"] * len(data))]
                if flowgen.ref_records(data)[1] == len(data):
                    tail = "clean"   # the cut fell on a record boundary: an intact, shorter file
            self.images.append(data)
            flows, ids, stored, targets = describe_image(data, fd, wd["filt"])
            self.ids[li], self.stored[li], self.targets[li] = ids, stored, targets
            files.append({"flows": flows, "tail": tail, "via": fd["via"]})
        self.world = {"mode": wd["mode"], "filt": bool(wd["filt"]), "files": files}
        self.trace.append({"k": "world", **self.world})

        root = logging.getLogger()
        self.cap = _Capture()
        old_level = root.level
        root.addHandler(self.cap)
        try:
            opts = options.Options()
            self.master = master.Master(opts, event_loop=loop)
            self.master._legacy_log_events.uninstall()
            self.stdin = sc.get("seed", 0) % 3 == 1 and len(wd["files"]) == 1
            self.rf = readfile.ReadFileStdin() if (self.stdin or sc.get("seed", 0) % 2) else readfile.ReadFile()
            rec = type("Recorder", (), {})()
            for h in HOOKS:
                setattr(rec, h, (lambda flow, _h=h: self.on_hook(_h, flow)))
            rec.update = self.on_update
            self.master.addons.add(self.rf)
            self.master.addons.add(rec)
            opts.update(mode=spec)
            if wd["filt"]:
                opts.update(readfile_filter=sc.get("filter") or FILTERS[sc.get("seed", 0) % len(FILTERS)])
            loop.run_until_complete(self.drive())
        finally:
            root.removeHandler(self.cap)
            root.setLevel(old_level)
            for p in self.paths:
                try:
                    os.unlink(p)
                except OSError:
                    pass
        return self.trace


_LOOP = None


def _loop():
    global _LOOP
    if _LOOP is None or _LOOP.is_closed():
        _LOOP = asyncio.new_event_loop()
    return _LOOP


class Check(core.PropertyCheck):
    ID = "X06"
    SPEC_DIR = "EventSeq"
    MODEL = "EventSeq"
    MON = "Mon_EventSeq"
    REQUIRED_WITNESSES = (
        "requestheaders", "request", "responseheaders", "response", "error", "websocket_start", "websocket_message",
        "websocket_end", "tcp_start", "tcp_message", "tcp_end", "tcp_error", "udp_start", "udp_message", "udp_end",
        "udp_error", "dns_request", "dns_response", "dns_error",
        "http_without_outcome", "websocket_flow_with_error", "dns_response_and_error", "dns_request_only",
        "second_message", "end_without_messages", "next_flow", "filtered_flow_skipped", "filter_excluded_some",
        "reverse_rewrite", "multi_mode_no_rewrite", "response_set_by_addon", "error_set_by_addon", "addon_noresp",
        "addon_raise", "sync_handlers", "async_handlers", "hook_while_other_load_suspended", "two_loads",
        "ret_clean", "ret_garbage", "ret_nonflow", "ret_cut", "ret_missing", "corrupt_after_prefix",
        "corrupt_nothing_loaded", "empty_file", "via_fo", "via_path", "via_rfile", "via_script")
    REQUIRED_ACTIONS = ("Begin", "Release")
    ASSUMPTIONS = (
        "flow files are written by the real io.FlowWriter (C36 judges the codec); the world record (types, parts, "
        "message contents, request target, complete records) is read from the image with the harness's own codec",
        "stored flows are ones a proxy can store: a WebSocket flow has its 101 response; flow ids are unique per run",
        "the addon (policy) sets a response only in requestheaders/request/dns_request and an error only in "
        "request-side hooks (requestheaders, request, dns_request, tcp/udp start and message); it never edits the "
        "message list; the filter is a spelling of `~comment ^keep` (the filter language itself is C42's subject)",
        "handlers are either synchronous or suspend until the scenario releases them; nothing else runs on the loop",
    )

    def setup(self, ctx):
        self._dir = str(ctx.scratch)

    def mon_constants(self, tier):
        return {}

    def model_constants(self, tier):
        return {"Worlds": tuple(model_worlds(tier)), "Pols": frozenset(POLS), "NL": 2}

    def model_runs(self, ctx):
        inv = ("Report", "Conserve", "CountsLoaded")
        return [ctx.model_check(self.MODEL, self.model_constants(ctx.tier), dump=True, invariants=inv)]

    def scenarios(self, ctx, models):
        from vf import tlaval

        g = models[0].graph
        behs = g.edge_cover(ctx.rng, max_len=60, tail=4)
        behs += g.random_walks(ctx.rng, 400 if ctx.quick else 6000, 40)
        for n, b in enumerate(behs):
            w = tlaval.to_py(b[0][2]["w"])
            steps = []
            for name, args, _st in b[1:]:
                steps.append(["begin", args[0]] if name == "Begin" else ["release", args[0], str(args[1])])
            yield core.Scenario({"world": w, "steps": steps, "seed": n % 17}, predicted=core.predicted_events(b),
                                source="model")
        yield from self.random_scenarios(ctx)

    def random_scenarios(self, ctx):
        rng = random.Random(ctx.seed + 606)
        for n in range(500 if ctx.quick else 12000):
            nfiles = rng.choice([1, 1, 1, 2, 2, 3])
            filt = rng.random() < 0.4
            files = []
            for _ in range(nfiles):
                flows = []
                for _k in range(rng.choice([0, 1, 1, 2, 3, 4, 6])):
                    t = rng.choice(["http", "http", "tcp", "udp", "dns"])
                    resp, err = rng.random() < 0.5, rng.random() < 0.35
                    ws = t == "http" and resp and rng.random() < 0.4
                    if t == "http" and resp and err and not ws and rng.random() < 0.7:
                        err = False     # the known finding is explored, not flooded
                    nm = rng.choice([0, 1, 2, 3, 5]) if (ws or t in ("tcp", "udp")) else 0
                    msgs = [rng.randint(1, 3) for _j in range(nm)]   # repeated contents on purpose
                    d = F(t, resp=resp and t in ("http", "dns"), err=err, ws=ws, msgs=msgs,
                          match=rng.random() < 0.6, sync=rng.random() < 0.4)
                    if rng.random() < 0.3:
                        pool = [b"", b"x", b"\x00\xff", "snow\u2603".encode(), b"y" * 5000]
                        per = {m: rng.choice(pool) for m in set(msgs)}
                        d["contents"] = [per[m].hex() for m in msgs]
                    flows.append(d)
                    if rng.random() < 0.06:
                        flows.append(dict(d, same=True))
                tail = rng.choice(["clean", "clean", "clean", "garbage", "nonflow", "cut", "missing"])
                via = rng.choice(["fo", "path"]) if files and any(f["via"] == "rfile" for f in files) else rng.choice(["fo", "path", "rfile"])
                if tail == "missing":
                    flows, via = [], (via if via != "fo" else "path")
                elif tail == "clean" and rng.random() < 0.2:
                    via = "script"
                fd = FILE(flows, tail, via)
                if tail == "cut" and flows and rng.random() < 0.5:
                    fd["tail"], fd["cutat"] = "cut", rng.random()      # any byte offset of the whole image
                files.append(fd)
            w = WORLD(files, rng.choice(["regular", "reverse", "reverse", "multi", "other"]), filt)
            started, steps = set(), []
            for _k in range(rng.randint(1, 60)):
                l = rng.randint(1, nfiles)
                if l not in started:
                    started.add(l)
                    steps.append(["begin", l])
                else:
                    steps.append(["release", l, rng.choice(["pass", "pass", "pass", "resp", "noresp", "err", "raise"])])
            yield core.Scenario({"world": w, "steps": steps, "seed": n, "rich": rng.random() < 0.5, "lenient": True},
                                source="random")

    def drift_view(self, trace):
        return trace[1:]  # the world record is the model's initial state

    def execute(self, sc):
        tmp = getattr(self, "_dir", None) or tempfile.gettempdir()
        return Run(sc, tmp).run(_loop())
