"""C54 -- sticky cookies are only sent to hosts and paths they belong to.

Model: spec/StickyCookie/StickyCookie.tla   Monitor: Mon_StickyCookie.tla
Real code: mitmproxy.addons.stickycookie.StickyCookie (configure / response / request hooks in a taddons context).

The harness only concretises (abstract response/request ops -> real flows with Set-Cookie headers), runs the hooks
and projects: which of the unique cookie values are in the jar after a response, and which are in the Cookie header
after a request.  RFC 6265 domain-match / path-match and every clause live in Mon_StickyCookie.tla.
"""
from __future__ import annotations

import random

from vf import core

EX, SUB, SUB2 = "example.com", "a.example.com", "b.a.example.com"
INNER, NEAR, NEAR2 = "a.example.com.evil.org", "notexample.com", "evil-example.com"
LPRE, OTHER, IP = "a.example.community", "other.org", "10.1.2.3"
IP2, IP3 = "192.168.2.3", "10.1.2.30"  # share the dotted numeric suffix ".2.3" with IP / only the string prefix
SUFX = "a.example.com.notexample.com"  # ".example.com" occurs inside AND "example.com" ends the host without a dot


def _ck(name, dom=None, path=None, expired=False):
    return {"name": name, "dom": dom, "path": path, "expired": expired}


def _set(host, port, *cookies):
    return {"host": host, "port": port, "cookies": list(cookies)}


def _req(host, port, path, get=True):
    return {"host": host, "port": port, "path": path, "get": get}


SET_QUICK = [
    _set(EX, 80, _ck("a")),
    _set(EX, 80, _ck("a", ".example.com", "/foo")),
    _set(SUB, 80, _ck("b", ".example.com")),
    _set(INNER, 80, _ck("a", ".example.com")),
    _set(EX, 80, _ck("a", ".example.com", "/foo", True)),
    _set(EX, 8080, _ck("a")),
    _set(EX, 80, _ck("c", "other.org")),
    _set(EX, 80, _ck("d", None, "/foo"), _ck("d", None, "/foo", True)),
    _set(NEAR, 80, _ck("a", ".example.com")),
    _set(SUFX, 80, _ck("a", ".example.com")),
    _set(SUB, 80, _ck("b", "example.com")),
    _set(EX, 80, _ck("a", ".example.com", "/foo"), _ck("b", ".example.com", "/foo")),
    # servers addressed by IP literal: a Domain that is a dotted numeric suffix of the address never matches (5.1.3:
    # suffix matches need a host NAME); host-only cookies of an IP host stay with that address
    _set(IP, 80, _ck("a", ".2.3")),
    _set(IP, 80, _ck("s")),
    # a cookie path ending in "/" (5.1.4: /foo/ is a prefix of /foo/bar but not of /foo)
    _set(EX, 80, _ck("p", None, "/foo/")),
]
REQ_QUICK = [
    _req(EX, 80, "/"),
    _req(EX, 80, "/foo"),
    _req(EX, 80, "/foobar"),
    _req(EX, 80, "/foobar/x"),
    _req(EX, 80, "/foo/bar"),
    _req(EX, 8080, "/foo"),
    _req(SUB, 80, "/foo"),
    _req(INNER, 80, "/foo"),
    _req(NEAR, 80, "/foo"),
    _req(SUFX, 80, "/foo"),
    _req(EX, 80, "/foo", False),
    _req(IP, 80, "/"),
    _req(IP2, 80, "/"),
]
SET_THOROUGH = SET_QUICK + [
    _set(SUB, 80, _ck("a")),
    _set(EX, 80, _ck("e", "example.com", "/foo/")),
    _set(LPRE, 80, _ck("a", ".example.com")),
    _set(IP, 80, _ck("a", "2.3")),
    _set(IP, 80, _ck("a", IP)),
    _set(IP2, 80, _ck("a", ".3")),
    _set(EX, 80, _ck("a", None, None, True)),
    _set(EX, 80, _ck("a", ".example.com", "/foo", True), _ck("a", ".example.com", "/foo")),
    _set(EX, 80, _ck("f", ".com")),
]
REQ_THOROUGH = REQ_QUICK + [
    _req(SUB2, 80, "/"),
    _req(LPRE, 80, "/"),
    _req(IP3, 80, "/"),
    _req(OTHER, 80, "/foo"),
    _req(EX, 80, "/foo/"),
    _req(EX, 80, "/fo"),
    _req(NEAR2, 80, "/"),
]

# expiry classes -> (attribute text, expired?).  The table is the oracle for `expired` (by construction).
EXP_LIVE = ["", "; Max-Age=3600", "; Expires=Fri, 01-Jan-2100 00:00:00 GMT", "; Max-Age=86400; Expires=Fri, 01-Jan-2100 00:00:00 GMT"]
EXP_DEAD = ["; Max-Age=0", "; Max-Age=-1", "; Expires=Wed, 13-Jan-2021 22:23:01 GMT", "; Expires=Thu, 01 Jan 1970 00:00:00 GMT",
            "; Expires=Wed, 13-Jan-2021 22:23:01 GMT; Max-Age=0"]


def chars(s):
    return list(s)


def tla_set_op(op):
    return {"host": tuple(op["host"]), "hostid": op["host"], "port": op["port"],
            "cookies": tuple({"name": c["name"], "hasdom": c["dom"] is not None, "dom": tuple(c["dom"] or ""),
                              "domid": c["dom"] or "",
                              "haspath": c["path"] is not None, "path": tuple(c["path"] or ""),
                              "expired": c["expired"]} for c in op["cookies"])}


def tla_req_op(op):
    return {"host": tuple(op["host"]), "port": op["port"], "path": tuple(op["path"]), "get": op["get"]}


def _leaves(x, out, depth=0):
    """Every str found anywhere inside a nested container (keys and values) -- the jar's container type is free."""
    if isinstance(x, str):
        out.add(x)
    elif isinstance(x, bytes):
        out.add(x.decode("latin-1"))
    elif isinstance(x, dict):
        for k, v in x.items():
            _leaves(k, out, depth + 1)
            _leaves(v, out, depth + 1)
    elif isinstance(x, (list, tuple, set, frozenset)):
        for v in x:
            _leaves(v, out, depth + 1)
    elif hasattr(x, "__dict__") and depth < 6:
        _leaves(vars(x), out, depth + 1)


def _cookie_pairs(header_values):
    """Independent reading of Cookie headers: name=value pairs separated by ';'."""
    out = []
    for hv in header_values:
        for part in hv.split(";"):
            part = part.strip()
            if not part:
                continue
            n, _, v = part.partition("=")
            out.append((n.strip(), v.strip().strip('"')))
    return out


def _edge_cover_sample(g, rng, max_len, tail, limit):
    """Edge cover of the dumped graph; quick tier: a seeded sample of it (states are parsed only for the sample)."""
    mk = g._mk
    g._mk = lambda path: path
    try:
        raw = g.edge_cover(rng, max_len=max_len, tail=tail)
    finally:
        del g._mk
    if limit is not None and len(raw) > limit:
        raw = rng.sample(raw, limit)
    return [mk(p) for p in raw]


class Check(core.PropertyCheck):
    ID = "C54"
    SPEC_DIR = "StickyCookie"
    MODEL = "StickyCookie"
    MON = "Mon_StickyCookie"
    REQUIRED_WITNESSES = ("stored", "attach", "attach_subdomain", "attach_subpath", "skip_domain", "skip_port", "skip_path",
                          "skip_filter", "foreign_set", "foreign_rejected", "expire_live", "expired_removed")
    REQUIRED_ACTIONS = ("Response", "Request")
    PROCS = 4
    ASSUMPTIONS = (
        "hosts, Domain and Path values are passed to the monitor as character sequences; host and Domain are lower-cased "
        "by the harness (RFC 6265 5.1.2 canonicalisation), the request path is the target without its query",
        "every Set-Cookie value is a unique token; a token found anywhere inside StickyCookie.jar (generic walk over "
        "nested containers) counts as stored, a token found as a value in the Cookie header after the request hook counts "
        "as attached (header read by the harness's own splitter)",
        "`expired` is known by construction of the attribute text (Max-Age <= 0 / Expires in the past; classes where "
        "Max-Age and Expires disagree are not generated)",
        "a cookie without Path attribute is treated as matching every path (the RFC default-path is not demanded)",
    )

    def mon_constants(self, tier):
        return {}

    def _tables(self, tier):
        if tier == "quick":
            return SET_QUICK, REQ_QUICK
        return SET_THOROUGH, REQ_THOROUGH

    def model_constants(self, tier):
        s, r = self._tables(tier)
        return {"SetOps": tuple(tla_set_op(o) for o in s), "ReqOps": tuple(tla_req_op(o) for o in r),
                "Filters": frozenset({"all", "get"}), "MaxOps": 3 if tier == "quick" else 4,
                "MaxSets": 2 if tier == "quick" else 3, "DomainRule": "dotsuffix_and_rfind", "PathRule": "rfc"}

    def model_runs(self, ctx):
        # generous timeouts: the sandbox is shared, TLC slows down by an order of magnitude under load
        runs = [ctx.model_check(self.MODEL, self.model_constants("quick"), dump=True, timeout=1200)]
        if not ctx.quick:
            runs.append(ctx.model_check(self.MODEL, self.model_constants("thorough"), dump=False, tag="_big", timeout=3000, workers=4))
        return runs

    # ------------------------------------------------------------------------------------------------
    def _from_behaviour(self, b, tables, rng):
        sets, reqs = tables
        flt = str(b[0][2].get("flt", "all"))
        ops = []
        for name, args, _st in b[1:]:
            if name == "Response":
                ops.append(["resp", sets[args[0] - 1], rng.randrange(1 << 16)])
            elif name == "Request":
                ops.append(["req", reqs[args[0] - 1], rng.randrange(1 << 16)])
        return {"flt": flt, "ops": ops}

    def scenarios(self, ctx, models):
        rng = random.Random(ctx.seed + 54)
        g = models[0].graph
        tq = self._tables("quick")
        behs = _edge_cover_sample(g, rng, 6, 2, 2500 if ctx.quick else None)
        ctx.notes["edge_cover_paths_replayed"] = len(behs)
        if not ctx.quick:
            behs += g.random_walks(rng, 1500, 4)
        for b in behs:
            yield core.Scenario(self._from_behaviour(b, tq, rng), predicted=core.predicted_events(b), source="model")
        if not ctx.quick:
            tt = self._tables("thorough")
            sims, _ = ctx.simulate(self.MODEL, self.model_constants("thorough"), num=3000, depth=5, timeout=1500)
            for b in sims:
                yield core.Scenario(self._from_behaviour(b, tt, rng), predicted=core.predicted_events(b), source="simulate")
        for i in range(400 if ctx.quick else 4000):
            yield core.Scenario(self._random(rng), source="random")

    # seeded random driver: longer histories over a small per-scenario universe (so that cookies collide, get replaced
    # and re-issued as expired), more hosts/ports/paths, mixed case, queries, several cookies per response
    def _random(self, rng):
        if rng.random() < 0.2:
            return self._random_ip(rng)
        stem = rng.choice([EX, "example.org", "ex.co"])
        good = [stem, "a." + stem, "b.a." + stem, stem.upper(), "A." + stem]
        odd = ["a." + stem + ".evil.org", stem + ".evil.org", "not" + stem, "evil-" + stem, "a." + stem + "munity",
               "a." + stem + ".not" + stem, "b." + stem + ".x" + stem,
               "a." + stem + "-x.org", OTHER, IP, IP3, IP2]
        hosts = rng.sample(good, 2) + rng.sample(odd, 2)
        doms = [None, rng.choice([stem, "." + stem]), rng.choice(["a." + stem, ".a." + stem, "." + stem.upper()]),
                rng.choice([OTHER, "." + OTHER, ".com", "com", ".2.3", "2.3", IP, "evil.org", ".evil.org", stem + ".evil.org"])]
        paths = ["/", "/foo", "/foo/", "/foo/bar", "/foobar", "/fo", "/foo/barbaz", "/Foo", "/foo.html", "/bar", "/foobar/x",
                 "/foo/bar/", "/foo/barbaz/y"]
        cpaths = [None, rng.choice(["/", "/foo", "/foo/"]), rng.choice(["/foo/bar", "/bar", "foo", "/foo"])]
        ports = rng.sample([80, 8080, 443], 2)
        names = ["a", "sid"]
        flt = rng.choice(["all", "all", "get"])
        ops, issued = [], []
        for _ in range(rng.randint(4, 14)):
            x = rng.random()
            if x < 0.12 and issued:
                # the same host re-issues an earlier cookie as expired (possibly together with a fresh one)
                host, port, ck = rng.choice(issued)
                cookies = [_ck(ck["name"], ck["dom"], ck["path"], True)]
                if rng.random() < 0.3:
                    cookies.insert(rng.randrange(2), _ck(rng.choice(names), rng.choice(doms), rng.choice(cpaths)))
                ops.append(["resp", _set(host, port, *cookies), rng.randrange(1 << 16)])
            elif x < 0.45:
                host = rng.choice(hosts[:2] if rng.random() < 0.85 else hosts)
                port = rng.choice(ports)
                cookies = [_ck(rng.choice(names), rng.choice(doms), rng.choice(cpaths), rng.random() < 0.1)
                           for _ in range(rng.choice([1, 1, 1, 2, 3]))]
                issued.extend((host, port, c) for c in cookies if not c["expired"])
                ops.append(["resp", _set(host, port, *cookies), rng.randrange(1 << 16)])
            else:
                ops.append(["req", _req(rng.choice(hosts + good), rng.choice(ports), rng.choice(paths), rng.random() < 0.85),
                            rng.randrange(1 << 16)])
        return {"flt": flt, "ops": ops}

    # the same kind of history among servers addressed by IP literals (addresses sharing dotted / undotted suffixes)
    def _random_ip(self, rng):
        a, b, c, d = (rng.choice(["10", "192", "8"]), rng.choice(["1", "168"]), rng.choice(["2", "0"]), rng.choice(["3", "5"]))
        base = ".".join([a, b, c, d])
        hosts = [base, ".".join([rng.choice(["172", "16"]), "9", c, d]), base + "0", "1" + base,
                 ".".join([a, b, c, "1" + d]), "[::1]", "host." + c + "." + d]
        doms = [None, None, base, "." + base, c + "." + d, "." + c + "." + d, "." + d, d, "." + b + "." + c + "." + d, "0." + d]
        paths = ["/", "/foo", "/foo/bar", "/foobar"]
        cpaths = [None, None, "/", "/foo"]
        ports = rng.sample([80, 8080, 443], 2)
        ops, issued = [], []
        for _ in range(rng.randint(4, 12)):
            x = rng.random()
            if x < 0.1 and issued:
                host, port, ck = rng.choice(issued)
                ops.append(["resp", _set(host, port, _ck(ck["name"], ck["dom"], ck["path"], True)), rng.randrange(1 << 16)])
            elif x < 0.45:
                host = rng.choice(hosts[:2] if rng.random() < 0.8 else hosts)
                port = rng.choice(ports)
                cookies = [_ck(rng.choice(["a", "sid"]), rng.choice(doms), rng.choice(cpaths), rng.random() < 0.1)
                           for _ in range(rng.choice([1, 1, 2]))]
                issued.extend((host, port, ck) for ck in cookies if not ck["expired"])
                ops.append(["resp", _set(host, port, *cookies), rng.randrange(1 << 16)])
            else:
                ops.append(["req", _req(rng.choice(hosts), rng.choice(ports), rng.choice(paths), rng.random() < 0.85),
                            rng.randrange(1 << 16)])
        return {"flt": rng.choice(["all", "all", "get"]), "ops": ops}

    # ------------------------------------------------------------------------------------------------
    def execute(self, sc):
        from mitmproxy import http
        from mitmproxy.addons import stickycookie
        from mitmproxy.test import taddons, tflow, tutils

        trace: list[dict] = []
        addon = stickycookie.StickyCookie()
        ntok = 0
        tokens: dict[str, int] = {}
        with taddons.context(addon) as tctx:
            tctx.configure(addon, stickycookie=".*" if sc["flt"] == "all" else "~m GET")
            for kind, op, salt in sc["ops"]:
                r = random.Random(salt)
                if kind == "resp":
                    hdrs = []
                    evs = []
                    for ck in op["cookies"]:
                        ntok += 1
                        val = "tok%dx" % ntok
                        tokens[val] = ntok
                        txt = "%s=%s" % (ck["name"], val)
                        if ck["dom"] is not None:
                            txt += "; %s=%s" % (r.choice(["Domain", "domain"]), ck["dom"])
                        if ck["path"] is not None:
                            txt += "; %s=%s" % (r.choice(["Path", "path"]), ck["path"])
                        txt += r.choice(EXP_DEAD if ck["expired"] else EXP_LIVE)
                        if r.random() < 0.3:
                            txt += "; HttpOnly"
                        hdrs.append(txt)
                        evs.append({"k": "set", "c": ntok, "name": ck["name"], "host": chars(op["host"].lower()),
                                    "hostid": op["host"], "domid": ck["dom"] or "",
                                    "port": op["port"], "hasdom": ck["dom"] is not None,
                                    "dom": chars((ck["dom"] or "").lower()), "haspath": ck["path"] is not None,
                                    "path": chars(ck["path"] or ""), "expired": bool(ck["expired"])})
                    req = tutils.treq(host=op["host"], port=op["port"], path=r.choice([b"/", b"/login", b"/foo/x"]))
                    f = tflow.tflow(req=req, resp=True)
                    f.response.headers = http.Headers([(b"set-cookie", h.encode()) for h in hdrs])
                    trace.extend(evs)
                    try:
                        addon.response(f)
                    except Exception as e:  # an observation, judged by the monitor
                        trace.append({"k": "raised", "exc": type(e).__name__, "at": "response"})
                        return trace
                    found: set[str] = set()
                    _leaves(addon.jar, found)
                    trace.append({"k": "jar", "held": sorted(tokens[v] for v in found if v in tokens)})
                else:
                    target = op["path"] + r.choice(["", "", "?q=1", "?next=/foo/bar"])
                    req = tutils.treq(host=op["host"], port=op["port"], path=target.encode(),
                                      method=b"GET" if op["get"] else b"POST",
                                      headers=http.Headers([(b"host", op["host"].encode())]))
                    f = tflow.tflow(req=req, resp=False)
                    try:
                        addon.request(f)
                    except Exception as e:
                        trace.append({"k": "raised", "exc": type(e).__name__, "at": "request"})
                        return trace
                    att = [tokens[v] for _n, v in _cookie_pairs(f.request.headers.get_all("cookie")) if v in tokens]
                    trace.append({"k": "req", "host": chars(op["host"].lower()), "port": op["port"], "path": chars(op["path"]),
                                  "flt": sc["flt"] == "all" or bool(op["get"]), "att": att})
        return trace
