"""C27 -- DNS replies correspond to client queries; TCP framing ignores segmentation.

Model: spec/DnsLayer/DnsLayer.tla   Monitor: Mon_DnsLayer.tla
Real code: mitmproxy.proxy.layers.dns.DNSLayer driven sans-io over udp and tcp contexts (hooks, upstream connect and
their completions are environment actions); DNSMessage.fail for the synthesised SERVFAIL.
Everything written to a peer is read back with the independent decoder lib/vf/dnsref.py.
"""
from __future__ import annotations

import random
import struct

from vf import core, dnsref

# question sections of the model: (name class, spelling, kind) -> concrete question.  Spellings of one name differ
# only in letter case (what a DNS 0x20 client sends); "same question section" is judged on the exact spelling.
QUESTIONS = {
    ("A", 1, "ascii"): ((b"a", b"example", b"com"), 1),
    ("A", 2, "ascii"): ((b"A", b"eXaMple", b"COM"), 1),
    ("A", 3, "ascii"): ((b"a", b"EXAMPLE", b"cOm"), 1),
    ("B", 1, "ascii"): ((b"b", b"example", b"org"), 28),
    ("B", 2, "ascii"): ((b"B", b"Example", b"ORG"), 28),
    ("C", 1, "idn"): ((b"xn--bcher-kva", b"example"), 16),
    ("C", 2, "idn"): ((b"xn--BCHER-kva", b"EXAMPLE"), 16),  # lower-case ACE prefix: goes through the idna codec
    ("C", 3, "idn"): ((b"xn--bcher-kva", b"EXAMPLE"), 16),  # ... and comes back like this
    ("C", 4, "idn"): ((b"XN--bcher-KVA", b"example"), 16),  # upper-case prefix: treated as plain ASCII
    ("D", 1, "ascii"): ((b"_sip", b"_tcp", b"d", b"example", b"net"), 33),
    ("D", 2, "ascii"): ((b"_SIP", b"_tcp", b"D", b"Example", b"NET"), 33),
}
_OPTS = None
NOQ = ("", 0, "")


def qt(q):
    return (str(q[0]), int(q[1]), str(q[2]))


def q_bytes(mid, q, rd=1, op=0) -> bytes:
    name, qtype = QUESTIONS[qt(q)]
    return dnsref.Builder(mid & 0xFFFF, dnsref.flags(rd=rd, opcode=op)).question(name, qtype=qtype).bytes()


def r_bytes(mid, q, rng: random.Random | None = None) -> bytes:
    name, qtype = QUESTIONS[qt(q)]
    b = dnsref.Builder(mid & 0xFFFF, dnsref.flags(qr=1, rd=1, ra=1)).question(name, qtype=qtype)
    b.rr(1, ptr=12, rtype=1, ttl=60, rdata=bytes([10, 0, 0, (mid % 250) + 1]))
    return b.bytes()


def exact_qsection(m: dnsref.Msg):
    """question section as written on the wire, letter case included"""
    return tuple((tuple(n), t, c) for n, t, c in m.questions)


def echo_reply(query: bytes) -> bytes:
    """an upstream answer that echoes id and question section of the forwarded query byte for byte"""
    m = dnsref.decode(query)
    b = dnsref.Builder(m.id, dnsref.flags(qr=1, rd=1, ra=1))
    for name, t, c in m.questions:
        b.question(name, qtype=t, qclass=c)
    b.rr(1, ptr=12, rtype=1, ttl=60, rdata=bytes([10, 0, 0, (m.id % 250) + 1]))
    return b.bytes()


def frame_tokens(msg: bytes, cut: int) -> list[bytes]:
    """A TCP frame as four pieces: the two bytes of the length prefix and the body cut at `cut`."""
    p = struct.pack("!H", len(msg))
    cut = max(1, min(len(msg) - 1, cut))
    return [p[:1], p[1:], msg[:cut], msg[cut:]]


class Run:
    """One real DNSLayer plus the environment's books for it."""

    def __init__(self, tr: str, upstream: bool, auto: bool, trace: list, seed: int, byte_tokens: bool = False):
        from mitmproxy.proxy.layers import dns as dnslayer
        from vf import sansio

        global _OPTS
        if _OPTS is None:
            _OPTS = sansio.make_options()
        self.tr, self.auto, self.trace = tr, auto, trace
        self.rng = random.Random(seed)
        self.ctx = sansio.make_context(_OPTS, transport=tr, mode="dns")
        if upstream:
            self.ctx.server.address = ("9.9.9.9", 53)
        self.layer = dnslayer.DNSLayer(self.ctx)
        self.snaps: dict[int, dict] = {}
        self.d = sansio.Driver(self.ctx, self.layer, on_hook=self._on_hook)
        self.qlabel: dict = {}  # question section (exact reading, case included) -> [name, spelling, kind]
        self.qfold: dict = {}  # case-folded section -> (name, kind)
        for lbl, (name, qtype) in QUESTIONS.items():
            self.qlabel[((tuple(name), qtype, 1),)] = list(lbl)
            self.qfold[((dnsref.lower(name), qtype, 1),)] = (lbl[0], lbl[2])
        self.addon_objs: set[int] = set()
        self.seen_resp: set[int] = set()
        self.keep: list = []
        self.cwire: list[bytes] = []
        self.swire: list[bytes] = []
        self.delivered = {"client": b"", "server": b""}
        self.last_hook = ""
        self.last_hook_origin = ""
        self.byte_tokens = byte_tokens
        self.pos = 0
        self.dead = False
        self.d.start()
        self.pos = len(self.d.log)

    # -- projections ---------------------------------------------------------------------------------
    def _label(self, qsection) -> list:
        """[name class, spelling, kind] of a question section; spellings not in the table are numbered from 100"""
        lbl = self.qlabel.get(qsection)
        if lbl is None:
            try:
                fold = tuple((dnsref.lower(n), t, c) for n, t, c in qsection)
            except Exception:
                fold = None
            known = self.qfold.get(fold)
            if known:
                n = 100 + sum(1 for v in self.qlabel.values() if v[0] == known[0] and v[1] >= 100)
                lbl = [known[0], n, known[1]]
            else:
                lbl = [f"X{len(self.qlabel)}", 1, "other"]
            self.qlabel[qsection] = lbl
        return list(lbl)

    def _msg_q(self, m) -> list:
        """question section of a mitmproxy DNSMessage, read from its fields (not through its encoder)"""
        try:
            sect = tuple((tuple(l.encode("idna") for l in q.name.split(".") if l), q.type, q.class_)
                         for q in m.questions)
        except Exception:
            sect = (("unreadable", repr(m.questions), 0),)
        return self._label(sect)

    def _on_hook(self, d, cmd):
        flow = cmd.args()[0]
        req = getattr(flow, "request", None)
        resp = getattr(flow, "response", None)
        snap = {"k": "hook", "name": cmd.name, "has_req": req is not None, "rid": 0, "rq": list(NOQ), "rrd": 0,
                "rop": 0, "has_resp": resp is not None, "pid": 0, "pq": list(NOQ), "porigin": "", "fresh": False}
        if req is not None:
            snap.update(rid=req.id, rq=self._msg_q(req), rrd=int(bool(req.recursion_desired)), rop=req.op_code)
        if resp is not None:
            snap.update(pid=resp.id, pq=self._msg_q(resp),
                        porigin="addon" if id(resp) in self.addon_objs else "upstream",
                        fresh=id(resp) not in self.seen_resp)
            self.seen_resp.add(id(resp))
            self.keep.append(resp)
        self.snaps[id(cmd)] = snap

    def _drain_log(self):
        """Turn what the layer did since the last call into event records."""
        log = self.d.log
        while self.pos < len(log):
            e = log[self.pos]
            self.pos += 1
            if e["t"] == "hook":
                snap = self.snaps.pop(id(e["cmd"]))
                self.last_hook = snap["name"]
                self.last_hook_origin = snap["porigin"]
                self.trace.append(snap)
            elif e["t"] == "send":
                data = e["data"]
                if self.tr == "tcp":
                    data = data[2:]
                m = dnsref.try_decode(data)
                if e["c"] == "client":
                    origin = "synth" if self.last_hook == "dns_error" else (self.last_hook_origin or "upstream")
                    if m is None:
                        self.trace.append({"k": "to_client", "id": -1, "q": ["undecodable", 0, ""], "qr": 0, "rcode": 0, "op": 0,
                                           "rd": 0, "origin": origin})
                    else:
                        self.trace.append({"k": "to_client", "id": m.id, "q": self._label(exact_qsection(m)), "qr": m.qr,
                                           "rcode": m.rcode, "op": m.opcode, "rd": m.rd, "origin": origin})
                else:
                    if m is None:
                        self.trace.append({"k": "to_server", "id": -1, "q": ["undecodable", 0, ""]})
                    else:
                        ql = self._label(exact_qsection(m))
                        self.trace.append({"k": "to_server", "id": m.id, "q": ql})
                        if self.auto:  # segmentation runs: the upstream answers every forwarded query, echoing it
                            self._put("server", echo_reply(data), m.id, ql)
            elif e["t"] == "close":
                self.trace.append({"k": "close", "c": "client" if e["c"] == "client" else "server"})

    def _feed(self, fn):
        if self.dead:
            return
        try:
            fn()
            if self.auto:
                for _ in range(200):
                    self._drain_log()
                    pend = self.d.hooks_pending() + self.d.opens_pending()
                    if not pend:
                        break
                    self.d.complete(pend[0])
        except Exception as e:  # the layer crashed: an observation
            self.trace.append({"k": "raised", "exc": type(e).__name__})
            self.dead = True
        self._drain_log()

    # -- environment actions -------------------------------------------------------------------------
    def _put(self, side: str, msg: bytes, mid: int, q: str):
        if self.tr == "udp":
            conn = self.ctx.client if side == "client" else self.ctx.server
            self._feed(lambda: self.d.data(conn, msg))
        else:
            wire = self.cwire if side == "client" else self.swire
            if self.byte_tokens:
                wire.extend(bytes([b]) for b in struct.pack("!H", len(msg)) + msg)
            else:
                wire.extend(frame_tokens(msg, self.rng.randint(1, len(msg) - 1)))

    def query(self, mid, q, rd, op=0) -> bool:
        if not self.ctx.client.connected:
            return False
        self.trace.append({"k": "query", "id": mid, "q": list(qt(q)), "rd": rd, "op": op})
        self._put("client", q_bytes(mid, q, rd, op), mid, q)
        return True

    def reply(self, mid, q) -> bool:
        if not self.ctx.server.connected:
            return False
        self.trace.append({"k": "reply", "id": mid, "q": list(qt(q))})
        self._put("server", r_bytes(mid, q), mid, q)
        return True

    def bad(self, side="client") -> bool:
        """a message that is not DNS (udp datagram / tcp frame with a valid length)"""
        if not self.ctx.client.connected:
            return False
        self.trace.append({"k": "bad", "side": side})
        self._put(side, b"\x00\x07not-dns\xff\xff\xff", 0, "")
        return True

    def zero(self, side="client"):
        (self.cwire if side == "client" else self.swire).extend([b"\x00", b"\x00"])

    def seg(self, side: str, n: int) -> bool:
        wire = self.cwire if side == "client" else self.swire
        conn = self.ctx.client if side == "client" else self.ctx.server
        if n < 1 or n > len(wire) or not conn.connected:
            return False
        if side == "server" and self.ctx.server not in self.d.transports:
            return False
        data = b"".join(wire[:n])
        del wire[:n]
        self.delivered[side] += data
        _frames, malformed, _rest = dnsref.split_tcp(self.delivered[side])
        self.trace.append({"k": "deliver", "side": side, "malformed": malformed})
        self._feed(lambda: self.d.data(conn, data))
        return True

    def hook_done(self, policy: str) -> bool:
        from mitmproxy import flow as mflow

        hooks = self.d.hooks_pending()
        if not hooks:
            return False
        cmd = hooks[0]
        flow = cmd.args()[0]
        if cmd.name == "dns_request" and policy == "respond":
            flow.response = flow.request.succeed([])
            self.addon_objs.add(id(flow.response))
            self.keep.append(flow.response)
        elif cmd.name == "dns_request" and policy == "error":
            flow.error = mflow.Error("addon says no")
        self.trace.append({"k": "hook_done", "policy": policy})
        self._feed(lambda: self.d.complete(cmd))
        return True

    def open_done(self, ok: bool) -> bool:
        opens = self.d.opens_pending()
        if not opens:
            return False
        self.trace.append({"k": "open_done", "ok": bool(ok)})
        self._feed(lambda: self.d.complete(opens[0], None if ok else "connection refused"))
        return True

    def complete(self) -> bool:
        """everything put on the wires was delivered, or cannot be (connection closed)"""
        return (not self.dead and (not self.cwire or not self.ctx.client.connected)
                and (not self.swire or not self.ctx.server.connected))

    def quiescent(self) -> bool:
        return not self.d.hooks_pending() and not self.d.opens_pending() and not getattr(self.layer, "_paused", None)


def run_scenario(sc: dict) -> list[dict]:
    """ops: ["run", cls] | ["query", id, q, rd(, op)] | ["reply", id, q] | ["cseg", n] | ["sseg", n] | ["hook", policy]
            | ["open", ok] | ["zero"] | ["bad"] | ["run_end"] | ["end"]"""
    trace: list[dict] = []
    run = None
    r = 0
    for op in sc["ops"]:
        k = op[0]
        if k == "run":
            r += 1
            trace.append({"k": "run", "r": r, "cls": op[1]})
            run = Run(sc["tr"], sc.get("upstream", True), sc.get("auto", False), trace, sc.get("seed", 0) + 0 * r)
            continue
        if run is None or k == "end":
            break
        ok = True
        if sc.get("lenient") and k in ("cseg", "sseg"):
            wire = run.cwire if k == "cseg" else run.swire
            op = [k, min(op[1], len(wire))]
        if k == "query":
            ok = run.query(op[1], op[2], op[3], op[4] if len(op) > 4 else 0)
        elif k == "reply":
            ok = run.reply(op[1], op[2])
        elif k == "cseg":
            ok = run.seg("client", op[1])
        elif k == "sseg":
            ok = run.seg("server", op[1])
        elif k == "sall":
            ok = run.seg("server", len(run.swire)) if run.swire else True
        elif k == "hook":
            ok = run.hook_done(op[1])
        elif k == "open":
            ok = run.open_done(op[1])
        elif k == "zero":
            run.zero()
        elif k == "bad":
            ok = run.bad()
        elif k == "run_end":
            trace.append({"k": "run_end", "quiescent": run.quiescent(), "complete": run.complete()})
            run = None
        if not ok and sc.get("lenient"):
            continue  # random driver: an action that is not enabled right now is skipped
        if not ok or (run is not None and run.dead):
            break  # the model asked for something the real layer does not offer (or it crashed): judge what we saw
    if run is not None:
        trace.append({"k": "run_end", "quiescent": run.quiescent() and not run.dead,
                      "complete": k == "end" and not run.dead})
    trace.append({"k": "end"})
    return trace


def run_byte_seg(sc: dict) -> list[dict]:
    """The same client stream (and the upstream's answers to it) under byte-level segmentations: run 1 unsegmented,
    later runs cut anywhere, client and upstream pieces interleaved at random."""
    trace: list[dict] = []
    rng = random.Random(sc["seed"])
    for r in range(1, sc["nruns"] + 1):
        trace.append({"k": "run", "r": r, "cls": sc["cls"]})
        run = Run("tcp", True, True, trace, sc["seed"], byte_tokens=True)
        for i, kind in enumerate(sc["plan"]):
            if kind == "q":
                run.query(sc["ids"][i], sc["qs"][i], 1)
            elif kind == "zero":
                run.zero()
            else:
                run.bad()
        for _ in range(100000):
            sides = [s for s, w, c in (("client", run.cwire, run.ctx.client), ("server", run.swire, run.ctx.server))
                     if w and c.connected]
            if not sides or run.dead:
                break
            side = sides[0] if r == 1 else rng.choice(sides)
            wire = run.cwire if side == "client" else run.swire
            n = len(wire) if r == 1 else min(len(wire), rng.choice((1, 1, 2, 3, 5, 17, 40, 1000)))
            if not run.seg(side, n):
                break
        trace.append({"k": "run_end", "quiescent": run.quiescent() and not run.dead, "complete": run.complete()})
    trace.append({"k": "end"})
    return trace


def _tail(st) -> list:
    """events the harness appends when a behaviour does not end with Finish / the second EndRun"""
    if str(st["phase"]) == "finished":
        return []
    if str(st["phase"]) == "running":
        return [{"k": "run_end", "quiescent": str(st["L"]["pc"]["st"]) == "idle", "complete": False}, {"k": "end"}]
    return [{"k": "end"}]


def beh_to_scenario(beh, seed=0):
    st0 = beh[0][2]
    tr, up = str(st0["tr"]), bool(st0["up"])
    plan = [str(x) for x in st0["plan"]]
    ops = []
    auto = False
    for name, args, st in beh[1:]:
        if name == "StartRun":
            ev = st["obs"][0]
            ops.append(["run", str(ev["cls"])])
            if str(ev["cls"]) != "flow":
                auto = True
                for i, kind in enumerate(plan, 1):
                    pq = (("A", 1, "ascii"), ("B", 1, "ascii"), ("A", 2, "ascii"))[(i - 1) % 3]
                    ops.append(["query", i, list(pq), 1 if pq[0] == "A" else 0] if kind == "q" else [kind])
        elif name == "ClientQuery":
            ops.append(["query", args[0], list(qt(args[1])), 1 if str(args[1][0]) == "A" else 0])
        elif name == "UpstreamReply":
            ops.append(["reply", args[0], list(qt(args[1]))])
        elif name == "ClientBad":
            ops.append(["bad"])
        elif name == "ClientZero":
            ops.append(["zero"])
        elif name == "CSeg":
            ops.append(["cseg", args[0]])
        elif name == "SSeg":
            ops.append(["sseg", args[0]])
        elif name == "HookDone":
            ops.append(["hook", str(args[0])])
        elif name == "OpenDone":
            ops.append(["open", bool(args[0])])
        elif name == "EndRun":
            ops.append(["run_end"])
        elif name == "Finish":
            ops.append(["end"])
    pred = core.predicted_events(beh) + _tail(beh[-1][2])
    return core.Scenario({"tr": tr, "upstream": up, "auto": auto, "seed": seed, "ops": ops}, predicted=pred, source="model")


def compositions(n: int, rng: random.Random):
    """a random composition of n (segment lengths)"""
    out = []
    while n > 0:
        k = rng.randint(1, n) if rng.random() < 0.5 else rng.randint(1, min(n, 3))
        out.append(k)
        n -= k
    return out


class Check(core.PropertyCheck):
    ID = "C27"
    SPEC_DIR = "DnsLayer"
    MODEL = "DnsLayer"
    MON = "Mon_DnsLayer"
    REQUIRED_WITNESSES = ("dns_request", "dns_response", "dns_error", "to_client_upstream", "to_client_addon",
                          "to_client_synth", "matching_reply", "id_reused", "tcp_segment", "malformed_prefix",
                          "second_segmentation", "compared_multi_message_stream", "duplicate_reply_after_exchange")
    REQUIRED_ACTIONS = ("StartRun",)
    ASSUMPTIONS = (
        "hooks, the upstream connect and their completions are driven through the sans-io Driver (lib/vf/sansio.py); "
        "addon policies are: leave the flow alone, set flow.response = flow.request.succeed([]), set flow.error",
        "bytes written to the client / upstream are read with lib/vf/dnsref.py; flows passed to hooks are projected "
        "from their fields (request present?, id, question section, RD, opcode)",
        "which messages the layer extracted from a stream is seen through the hooks it fires (one dns_request per "
        "client message, one dns_response with a new upstream response object per upstream message)",
        "a reply written right after a dns_error hook is the synthesised SERVFAIL; 'malformed length prefix' is "
        "decided by the harness's reference framer (zero length at a frame boundary)",
    )

    A1, A2, B1, C2 = ("A", 1, "ascii"), ("A", 2, "ascii"), ("B", 1, "ascii"), ("C", 2, "idn")
    BASE = {"Ids": frozenset({1, 2}), "Qs": frozenset({A1, B1}), "BadKinds": frozenset({"bad", "zero"}),
            "Policies": frozenset({"none", "respond", "error"}), "Streams": frozenset({("q",)}), "SWhole": True, "MaxSeg": 16}

    def mon_constants(self, tier):
        return {}

    def model_constants(self, tier):
        return self._consts(tier)["udp"]

    def _consts(self, tier):
        q = tier == "quick"
        B = self.BASE
        streams = frozenset({("q", "q"), ("q", "zero"), ("q", "q", "zero"), ("zero", "q"), ("q", "bad"), ("q", "zero", "q")}
                            if q else
                            {("q", "q"), ("q", "q", "q"), ("q", "zero"), ("q", "q", "zero"), ("zero", "q"), ("q", "bad"),
                             ("q", "zero", "q"), ("bad", "q"), ("q", "bad", "q"), ("q", "q", "bad")})
        return {
            "udp": {**B, "Mode": "flow", "Trs": frozenset({"udp"}), "Ups": frozenset({True, False}),
                    "MaxQ": 2 if q else 3, "MaxR": 1 if q else 2, "MaxBad": 1},
            # duplicate / late upstream replies after an exchange has completed
            "udp2": {**B, "Mode": "flow", "Trs": frozenset({"udp"}), "Ups": frozenset({True}), "MaxQ": 2, "MaxR": 2,
                     "MaxBad": 0, "Ids": frozenset({1}) if q else frozenset({1, 2}),
                     # one name in two spellings (0x20 client) and an IDN name whose ACE label the codec re-spells
                     "Qs": frozenset({self.A1, self.A2, self.C2}) if q else frozenset({self.A1, self.A2, self.B1, self.C2}),
                     "Policies": frozenset({"none", "respond", "error"})},
            "tcp": {**B, "Mode": "flow", "Ids": frozenset({1}) if q else frozenset({1, 2}),
                    "Trs": frozenset({"tcp"}), "Ups": frozenset({True}), "MaxQ": 2, "MaxR": 1,
                    "MaxBad": 1, "BadKinds": frozenset({"zero"}), "Qs": frozenset({self.A1}) if q else frozenset({self.A1, self.A2}),
                    "Policies": frozenset({"none"}) if q else frozenset({"none", "respond"}), "MaxSeg": 3 if q else 16},
            "seg": {**B, "Mode": "seg", "Ids": frozenset({1, 2, 3}), "Trs": frozenset({"tcp"}), "Ups": frozenset({True}),
                    "MaxQ": 0, "MaxR": 0,
                    "MaxBad": 0, "Streams": streams, "SWhole": q},
        }

    TAGS = ("udp", "udp2", "tcp", "seg")

    def model_runs(self, ctx):
        small = self._consts("quick")
        small["seg"] = self._consts(ctx.tier)["seg"]  # the segmentation model stays small: always dumped
        from concurrent.futures import ThreadPoolExecutor

        with ThreadPoolExecutor(4) as ex:  # four independent single-worker TLC runs side by side
            out = list(ex.map(lambda tag: ctx.model_check(self.MODEL, small[tag], dump=True, tag="_" + tag), self.TAGS))
        for tag, m in zip(self.TAGS, out):
            need = {"udp": ("ClientQuery", "UpstreamReply", "HookDone", "OpenDone", "ClientBad", "Finish"),
                    "udp2": ("ClientQuery", "UpstreamReply", "HookDone"),
                    "tcp": ("CSeg", "SSeg", "ClientZero", "HookDone"), "seg": ("CSeg", "SSeg", "EndRun")}[tag]
            for a in need:
                if not m.coverage.get(a):
                    raise core.MachineryError(f"vacuous model run {tag}: action {a} never taken")
        self.sim = []
        if not ctx.quick:
            # larger instances: exhaustive statistics without a dump, behaviours by simulation
            big = self._consts("thorough")
            for tag in ("udp", "tcp"):
                out.append(ctx.model_check(self.MODEL, big[tag], dump=False, tag="_big_" + tag, timeout=2400))
                behs, _r = ctx.simulate(self.MODEL, big[tag], num=2500, depth=40, tag="sim_" + tag, timeout=900)
                self.sim += behs
        return out

    def scenarios(self, ctx, models):
        rng = random.Random(ctx.seed + 27)
        nwalk = ({"udp": 600, "udp2": 400, "tcp": 400, "seg": 400} if ctx.quick else
                 {"udp": 20000, "udp2": 8000, "tcp": 12000, "seg": 6000})
        seen = set()

        def emit(b, source):
            sc = beh_to_scenario(b, seed=rng.randrange(1 << 20))
            sc.source = source
            key = (sc.data["tr"], sc.data["upstream"], repr(sc.data["ops"]))
            if key in seen or len(sc.data["ops"]) < 2:
                return None
            seen.add(key)
            return sc

        for tag, m in zip(self.TAGS, models[:4]):
            g = m.graph
            for b in g.edge_cover(ctx.rng, max_len=40, tail=14) + g.random_walks(ctx.rng, nwalk[tag], 40):
                sc = emit(b, "model")
                if sc:
                    yield sc
        for b in self.sim:
            sc = emit(b, "simulate")
            if sc:
                yield sc
        yield from self._random(ctx, rng)

    # --- beyond the model's bounds: many ids / questions / opcodes, long streams, byte-level cuts -----------------
    def _random(self, ctx, rng):
        qs = list(QUESTIONS)
        for _ in range(250 if ctx.quick else 4000):  # flow histories
            tr = rng.choice(("udp", "tcp"))
            up = rng.random() < 0.8
            ids = [rng.randrange(65536) for _ in range(rng.randint(1, 4))]
            ops = [["run", "flow"]]
            outstanding = []
            for _ in range(rng.randint(3, 25)):
                c = rng.random()
                if c < 0.3:
                    i, q = rng.choice(ids), rng.choice(qs)
                    ops.append(["query", i, q, rng.randrange(2), rng.choice((0, 0, 0, 2, 4, 5))])
                    outstanding.append((i, q))
                elif c < 0.5 and outstanding:
                    i, q = rng.choice(outstanding)
                    ops.append(["reply", i, q])
                elif c < 0.8:
                    ops.append(["hook", rng.choice(("none", "none", "none", "respond", "error"))])
                elif c < 0.9:
                    ops.append(["open", rng.random() < 0.8])
                elif tr == "tcp":
                    ops.append([rng.choice(("cseg", "sseg")), rng.randint(1, 6)])
                if tr == "tcp" and rng.random() < 0.6:
                    ops.append([rng.choice(("cseg", "cseg", "sseg")), rng.randint(1, 9)])
            ops.append(["end"])
            yield core.Scenario({"tr": tr, "upstream": up, "auto": False, "seed": rng.randrange(1 << 20), "ops": ops,
                                 "lenient": True}, source="random")
        for _ in range(250 if ctx.quick else 4000):  # segmentation experiments with byte-level cuts
            n = rng.randint(1, 6)
            plan = ["q"] * n
            r = rng.random()
            if r < 0.25:
                plan.insert(rng.randint(0, n), "zero")
            elif r < 0.4:
                plan.insert(rng.randint(0, n), "bad")
            cls = ("all_valid" if all(k == "q" for k in plan) else
                   "malformed_first" if plan[0] != "q" else "valid_then_malformed")
            names = rng.sample(("A", "B", "C", "D"), 2)
            yield core.Scenario({"tr": "tcp", "upstream": True, "auto": True, "seed": rng.randrange(1 << 20),
                                 "bytes": True, "plan": plan, "cls": cls, "nruns": rng.randint(2, 3),
                                 "qs": [list(rng.choice([k for k in QUESTIONS if k[0] in names and k != ("C", 2, "idn")]))
                                        for _ in plan],
                                 "ids": [rng.randrange(65536) for _ in plan]}, source="random")

    def execute(self, sc):
        if sc.get("bytes"):
            return run_byte_seg(sc)
        return run_scenario(sc)
