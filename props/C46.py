"""C46 -- mitmweb requires authentication and blocks cross-site state changes.

Model: spec/WebAuth/WebAuth.tla   Monitor: Mon_WebAuth.tla
Real code: the tornado Application of mitmproxy.tools.web (app.py: AuthRequestHandler._require_auth / get_current_user,
RequestHandler.prepare, every handler of the route table incl. the /updates WebSocket and the static file routes;
webaddons.py: WebAuth.is_valid_password) behind a real tornado HTTPServer on a loopback socket, XSRF checks enabled,
driven by a hand-written HTTP client (lib/vf/webdrv.py).

The route table (names, implemented methods, concrete paths) is read from the running Application, so new routes are
enumerated too.  Whether a credential is the valid password, whether a cookie was issued by the server and whether a
matching XSRF pair is carried are fixed by the scenario's construction, not read from the code.
"""
from __future__ import annotations

import base64
import os
import itertools
import random
import re
import urllib.parse

from vf import core

# RequestHandler.prepare used to raise tornado.httpclient.HTTPError(403), which tornado.web answers with 500; repaired
# in /repo commit 94d6b06b5 (tornado.web.HTTPError).  The MODEL constant PrepareStatus follows: 403 (repaired, default)
# or 500 (VERIF_C46_REPAIRED=0, to replay the old behaviour; drift bookkeeping only, the monitor is unaffected).
REPAIRED = os.environ.get("VERIF_C46_REPAIRED", "1") == "1"

STD = ("GET", "HEAD", "POST", "DELETE", "PATCH", "PUT", "OPTIONS")
SAFE = ("GET", "HEAD", "OPTIONS")
METHODS_ALL = STD + ("FOO",)
CANARY = "kanarienvogel"
XSRF_COOKIE = "_mitmproxy_xsrf"

CRED_YES = ("bearer_valid", "query_valid", "form_valid", "bearer_empty_query_valid")
CRED_AMB = ("scheme_lower_valid", "basic_valid", "bearer_wrong_query_valid")
CRED_NO = ("none", "bearer_wrong", "bearer_empty", "bearer_hash", "query_wrong", "query_empty", "form_wrong",
           "bearer_old", "query_old")
XSRF_OK = ("pair_hdr", "pair_arg", "pair_form", "pair_remask", "pair_csrfhdr")
XSRF_BAD = ("none", "hdr_only", "cookie_only", "mismatch", "empty", "old_name")
CK_FORGED = {"plain": -1, "garbage": -2, "tampered": -3, "forged": -4, "forged_v1": -5, "xsrf_only": -6}
SFS = ("", "same-origin", "none", "same-site", "cross-site")


def cred_ok(c):
    return "yes" if c in CRED_YES else "amb" if c in CRED_AMB else "no"


# ------------------------------------------------------------------------------------------------------
# route table of the running application
try:
    import re._parser as _sre  # py311+
except ImportError:  # pragma: no cover
    import sre_parse as _sre


def _gen_path(pattern: str, samples: dict, variant: int) -> str:
    """A string matching `pattern`: named groups take samples[name], optional parts appear iff variant is odd."""
    tree = _sre.parse(pattern)
    names = {idx: name for name, idx in tree.state.groupdict.items()}

    def g(items):
        out = ""
        for op, av in items:
            o = str(op)
            if o == "LITERAL":
                out += chr(av)
            elif o == "NOT_LITERAL":
                out += "x" if av != ord("x") else "y"
            elif o == "ANY":
                out += "."
            elif o == "IN":
                ch = "x"
                for iop, iav in av:
                    if str(iop) == "LITERAL":
                        ch = chr(iav)
                        break
                    if str(iop) == "RANGE":
                        ch = chr(iav[0])
                        break
                    if str(iop) == "CATEGORY":
                        ch = "1" if "DIGIT" in str(iav) else "a"
                        break
                out += ch
            elif o == "SUBPATTERN":
                grp, _a, _d, p = av
                nm = names.get(grp)
                if nm is not None and nm in samples:
                    out += samples[nm]
                else:
                    s = g(p)
                    if grp is not None and nm is None and s == "" and "*" in samples:
                        s = samples["*"]
                    out += s
            elif o in ("MAX_REPEAT", "MIN_REPEAT"):
                lo, hi, p = av
                cnt = lo if variant % 2 == 0 else max(lo, 1)
                out += g(p) * cnt
            elif o == "BRANCH":
                _x, alts = av
                out += g(alts[variant % len(alts)])
            elif o == "AT":
                pass
            elif o == "CATEGORY":
                out += "1" if "DIGIT" in str(av) else "a"
            else:
                out += "x"
        return out

    return g(tree)


FLOW_IDS = ("c0ffee00-0000-4000-8000-0000000000a1", "c0ffee00-0000-4000-8000-0000000000a2",
            "c0ffee00-0000-4000-8000-0000000000a3")
SAMPLES = (
    {"flow_id": FLOW_IDS[0], "message": "request", "content_view": "auto", "cmd": "view.clear", "*": "favicon.ico"},
    {"flow_id": "00000000-0000-0000-0000-00000000dead", "message": "response", "content_view": "raw",
     "cmd": "no.such.command", "*": "../templates/login.html"},
    {"flow_id": FLOW_IDS[1], "message": "response", "content_view": "auto", "cmd": "view.flows.resolve", "*": "nope.js"},
    {"flow_id": FLOW_IDS[2], "message": "messages", "content_view": "auto", "cmd": "view.clear", "*": "favicon.ico"},
)


def route_table(app):
    """[{name, kind, impl, targets, pattern}] for every rule of the application's router."""
    import tornado.web
    import tornado.websocket

    out, seen = [], {}
    unimpl = tornado.web.RequestHandler._unimplemented_method
    for rule in app.wildcard_router.rules:
        cls = rule.target
        pat = rule.matcher.regex.pattern
        base = getattr(cls, "__name__", "Handler")
        seen[base] = seen.get(base, 0) + 1
        name = base if seen[base] == 1 else f"{base}_{seen[base]}"
        if isinstance(cls, type) and issubclass(cls, tornado.web.StaticFileHandler):
            kind = "static"
        elif isinstance(cls, type) and issubclass(cls, tornado.websocket.WebSocketHandler):
            kind = "ws"
        elif base == "IndexHandler":
            kind = "index"
        else:
            kind = "api"
        impl = [m for m in STD if getattr(cls, m.lower(), unimpl) is not unimpl
                and getattr(getattr(cls, m.lower()), "__func__", getattr(cls, m.lower())) is not unimpl]
        targets = []
        for v, smp in enumerate(SAMPLES):
            for optv in (0, 1):
                try:
                    p = _gen_path(pat, smp, optv)
                except Exception:
                    continue
                if re.fullmatch(pat if not pat.endswith("$") else pat[:-1], p) and p not in targets:
                    targets.append(p)
        if not targets:
            continue
        out.append({"name": name, "kind": kind, "impl": impl, "targets": targets, "pattern": pat})
    return out


# ------------------------------------------------------------------------------------------------------
def pairwise(dims, rng, tries=40):
    """Greedy all-pairs covering array over the value lists `dims`."""
    unc = set()
    for i, j in itertools.combinations(range(len(dims)), 2):
        for a in dims[i]:
            for b in dims[j]:
                unc.add((i, a, j, b))
    rows = []
    while unc:
        seed = next(iter(unc)) if rng.random() < 0.5 else rng.choice(sorted(unc)[:50])
        best, best_n = None, -1
        for _ in range(tries):
            cand = [rng.choice(d) for d in dims]
            cand[seed[0]], cand[seed[2]] = seed[1], seed[3]
            n = sum(1 for i, j in itertools.combinations(range(len(dims)), 2) if (i, cand[i], j, cand[j]) in unc)
            if n > best_n:
                best, best_n = cand, n
        rows.append(tuple(best))
        for i, j in itertools.combinations(range(len(dims)), 2):
            unc.discard((i, best[i], j, best[j]))
    return rows


REP_ROUTES = ("IndexHandler", "Flows", "ClearAll", "FlowHandler", "ClientConnection", "Options", "StaticFileHandler")


class Check(core.PropertyCheck):
    ID = "C46"
    SPEC_DIR = "WebAuth"
    MODEL = "WebAuth"
    MON = "Mon_WebAuth"
    REQUIRED_WITNESSES = ("unauth_on_authenticated_connection", "unauth_on_kept_connection", "unauth_endpoint", "unauth_unimplemented", "unauth_ws", "unauth_static", "forged_cookie",
                          "stale_cookie", "wrong_credential", "cookie_session_ok", "password_ok", "session_granted",
                          "authorised_state_change", "authorised_sees_flows", "authorised_ws", "authorised_no_xsrf",
                          "authorised_cross_site", "restart", "newpw")
    REQUIRED_ACTIONS = ("Login", "Restart", "NewPw", "Probe")
    ASSUMPTIONS = (
        "state projection = flows of the view (full Flow.get_state), all option values, event-log length, number of "
        "subscribed WebSocket clients; disclosure = planted canary strings in status line, headers, body or pushed "
        "frames (responses are requested uncompressed)",
        "validity of a password, of a session cookie (issued by this instance to an authenticated request) and of an "
        "XSRF pair is decided by the scenario's construction and by the monitor's bookkeeping, never by asking the code",
        "tornado (routing, HTTP parsing, signed cookies, XSRF double submit) and the loopback socket are trusted; "
        "tornado's own access/error logging is silenced and therefore not part of the event-log projection",
        "a method a route does not implement is not an endpoint (must be refused, 405 accepted); static assets are "
        "only required not to change state or disclose flow data",
    )

    # ---- route table / constants ------------------------------------------------------------------------
    _routes = None

    def routes(self):
        if self._routes is None:
            from vf import webdrv

            drv = webdrv.driver()
            self._routes = route_table(drv.app)
        return self._routes

    def mon_constants(self, tier):
        return {}

    def _rows(self, tier, rng):
        rts = self.routes()
        names = [r["name"] for r in rts]
        reps = [n for n in REP_ROUTES if n in names]
        if tier == "quick":
            full = list(itertools.product(
                reps[:5], ("GET", "POST", "PUT", "DELETE", "HEAD"), ("none", "bearer_wrong", "bearer_valid"),
                ("none", "forged", "plain"), ("none", "pair_hdr", "mismatch"), ("", "cross-site", "same-site")))
            pw = pairwise([names, list(METHODS_ALL), list(CRED_NO[:7] + CRED_YES + CRED_AMB),
                           ["none"] + list(CK_FORGED), list(XSRF_OK + XSRF_BAD), list(SFS)], rng)
            sess = list(itertools.product(
                reps[:5], ("GET", "POST", "DELETE"), ("none", "bearer_wrong", "bearer_old"),
                ("jar", "jar_first", "tampered"), ("none", "pair_hdr"), ("", "cross-site")))
            return full + pw, sess
        full = list(itertools.product(
            names, METHODS_ALL, ("none", "bearer_wrong", "query_wrong", "bearer_valid"),
            ("none", "forged", "plain"), ("none", "pair_hdr", "mismatch"), ("", "cross-site", "same-origin")))
        pw = pairwise([names, list(METHODS_ALL), list(CRED_NO[:7] + CRED_YES + CRED_AMB),
                       ["none"] + list(CK_FORGED), list(XSRF_OK + XSRF_BAD), list(SFS)], rng)
        sess = list(itertools.product(
            reps, ("GET", "POST", "PUT", "DELETE"), ("none", "bearer_wrong", "bearer_old", "query_old"),
            ("jar", "jar_first", "tampered"), ("none", "pair_hdr"), ("", "cross-site")))
        return full + pw, sess

    def model_constants(self, tier, rows=(), sess=(), logins=("bearer_valid", "form_valid"), max_pre=2):
        rts = self.routes()
        return {
            "Routes": frozenset(r["name"] for r in rts),
            "Kind": {r["name"]: r["kind"] for r in rts},
            "Impl": {r["name"]: frozenset(r["impl"]) for r in rts},
            "Rows": frozenset(rows), "SessRows": frozenset(sess),
            "Logins": frozenset(logins), "MaxPre": max_pre, "PrepareStatus": 403 if REPAIRED else 500,
        }

    def model_runs(self, ctx):
        rng = random.Random(ctx.seed + 46)
        rows, sess = self._rows("quick", rng)
        small = ctx.model_check(self.MODEL, self.model_constants("quick", rows, sess), dump=True, timeout=1200)
        if ctx.quick:
            return [small]
        rows2, sess2 = self._rows("thorough", rng)
        self._big = self.model_constants("thorough", rows2, sess2, ("bearer_valid", "query_valid", "form_valid"), 2)
        big = ctx.model_check(self.MODEL, self._big, dump=False, tag="_big", timeout=3000, workers=4)
        return [small, big]

    # ---- scenarios ----------------------------------------------------------------------------------------
    @staticmethod
    def _steps(beh, rng):
        pre, probes, pred = [], [], []
        for name, args, st in beh[1:]:
            if name == "Login":
                pre.append(["login", args[0]])
            elif name == "Restart":
                pre.append(["restart"])
            elif name == "NewPw":
                pre.append(["newpw"])
            elif name == "Probe":
                pre.append(["probe", list(args[0]) + [rng.randrange(64)], bool(args[1])])
            for ev in core.tlaval.to_py(st.get("obs", ())):
                if isinstance(ev, dict) and ev.get("k") == "req":
                    pred.append(ev.get("pred", ""))
        return pre, pred

    def scenarios(self, ctx, models):
        rng = random.Random(ctx.seed + 1046)
        g = models[0].graph
        behs = g.edge_cover(ctx.rng, max_len=6, tail=0)
        cap = 1200 if ctx.quick else 14000
        if len(behs) > cap:
            # keep every behaviour with a prefix, sample the single-probe ones
            long_ = [b for b in behs if len(b) > 2]
            short = [b for b in behs if len(b) <= 2]
            ctx.rng.shuffle(long_)
            ctx.rng.shuffle(short)
            long_ = long_[: cap * 2 // 3]
            behs = long_ + short[: cap - len(long_)]
        modes = ("plain", "argon2", "token")
        for i, b in enumerate(behs):
            steps, pred = self._steps(b, rng)
            yield core.Scenario({"mode": modes[i % 3], "seed": rng.randrange(1 << 30), "steps": steps, "pred": pred},
                                predicted=core.predicted_events(b), source="model")
        if not ctx.quick:
            sims, _r = ctx.simulate(self.MODEL, self._big, num=4000, depth=5, timeout=1800)
            for i, b in enumerate(sims):
                steps, pred = self._steps(b, rng)
                yield core.Scenario({"mode": modes[i % 3], "seed": rng.randrange(1 << 30), "steps": steps, "pred": pred},
                                    predicted=core.predicted_events(b), source="simulate")
        # table: every route x every method, all unauthenticated credential / cookie classes (not bounded by Rows)
        rts = self.routes()
        unauth_creds = [c for c in CRED_NO if c not in ("bearer_old", "query_old")]
        cks = ["none"] + list(CK_FORGED)
        rows = []
        for r in rts:
            for m in METHODS_ALL:
                combos = list(itertools.product(unauth_creds, cks, XSRF_OK[:2] + XSRF_BAD[:2], ("", "same-origin", "cross-site")))
                rng.shuffle(combos)
                k = (6 if ctx.quick else 60)
                for c in combos[:k]:
                    rows.append([r["name"], m, c[0], c[1], c[2], c[3], rng.randrange(64)])
        rng.shuffle(rows)
        per = 24
        for i in range(0, len(rows), per):
            yield core.Scenario({"mode": modes[(i // per) % 3], "seed": rng.randrange(1 << 30),
                                 "steps": [["probe", r, rng.random() < 0.5] for r in rows[i:i + per]], "pred": []},
                                source="table")
        # random sessions: logins, restarts, password changes and probes of every class in any order
        allcreds = list(CRED_NO + CRED_YES + CRED_AMB)
        for i in range(150 if ctx.quick else 2500):
            steps = []
            for _ in range(rng.randint(4, 16)):
                x = rng.random()
                if x < 0.12:
                    steps.append(["login", rng.choice(("bearer_valid", "query_valid", "form_valid"))])
                elif x < 0.17:
                    steps.append(["restart"])
                elif x < 0.21:
                    steps.append(["newpw"])
                else:
                    r = rng.choice(rts)
                    meth = rng.choice(r["impl"] or ["GET"]) if rng.random() < 0.6 else rng.choice(METHODS_ALL)
                    steps.append(["probe", [r["name"], meth, rng.choice(allcreds),
                                            rng.choice(["none", "jar", "jar", "jar_first"] + list(CK_FORGED)),
                                            rng.choice(XSRF_OK + XSRF_BAD), rng.choice(SFS), rng.randrange(64)],
                                  rng.random() < 0.5])
            yield core.Scenario({"mode": modes[i % 3], "seed": rng.randrange(1 << 30), "steps": steps, "pred": []},
                                source="random")

    def drift_view(self, trace):
        out = []
        for ev in trace:
            if ev.get("k") == "req" and ev.get("pred") == "handler":
                ev = dict(ev, status=0, changed=False, leak=False)
            out.append(ev)
        return out

    # ---- execution ----------------------------------------------------------------------------------------
    def execute(self, sc):
        return _Run(self, sc).run()


class _Run:
    def __init__(self, check, sc):
        from vf import webdrv

        self.check = check
        self.sc = sc
        self.rng = random.Random(sc["seed"])
        self.drv = webdrv.driver()
        self.master = self.drv.master
        self.routes = {r["name"]: r for r in check.routes()}
        self.trace: list[dict] = []
        self.jar: list[str] = []  # auth cookie values received, in order
        self.xsrf_cookie = None  # server-issued XSRF cookie value
        self.pw = ""
        self.oldpw = ""
        self.hash = ""

    # -- environment --
    def _mkpw(self):
        alphabet = "abcdefghijklmnopqrstuvwxyzABCDEFGHIJKLMNOPQRSTUVWXYZ0123456789-_.~+%&=:/?#"
        return "".join(self.rng.choice(alphabet) for _ in range(self.rng.randint(6, 18))) + self.rng.choice("aZ9")

    def _set_password(self, mode):
        if mode == "token":
            self.drv.set_password("")
            q = urllib.parse.urlparse(self.master.web_url).query
            self.pw = urllib.parse.parse_qs(q)["token"][0]
            self.hash = self.pw + "-hash"
        elif mode == "argon2":
            import argon2

            self.pw = self._mkpw()
            self.hash = argon2.PasswordHasher(time_cost=1, memory_cost=8, parallelism=1).hash(self.pw)
            self.drv.set_password(self.hash)
        else:
            self.pw = self._mkpw()
            self.hash = "$argon2id$" + self.pw
            self.drv.set_password(self.pw)

    def _make_flows(self):
        from mitmproxy.test import tflow, tutils

        fl = []
        for i, fid in enumerate(FLOW_IDS):
            req = tutils.treq(host=f"{CANARY}-host{i}.example", path=f"/{CANARY}-path{i}".encode(),
                              headers=((b"x-secret", f"{CANARY}-header{i}".encode()), (b"content-length", b"19")),
                              content=f"{CANARY}-reqbody-{i:03d}".encode())
            resp = tutils.tresp(content=f"{CANARY}-respbody-{i:03d}".encode())
            f = tflow.tflow(req=req, resp=resp, ws=(i == 2))
            f.id = fid
            f.comment = f"{CANARY}-comment{i}"
            if i == 1:
                f.intercept()
            fl.append(f)
        return fl

    def _reset_state(self, first=False):
        from mitmproxy.tools.web import app as webapp

        m = self.master

        async def go():
            m.view.clear()
            self.flows = self._make_flows()
            m.view.add(self.flows)
            if not first:
                cur = {k: o.current() for k, o in m.options.items()}
                diff = {k: v for k, v in self.opt_snapshot.items() if cur.get(k) != v}
                if diff:
                    m.options.update(**diff)
            for c in list(webapp.ClientConnection.connections):
                try:
                    c.close()
                except Exception:
                    pass
            webapp.ClientConnection.connections.clear()

        self.drv.run(go())
        if first:
            self.opt_snapshot = {k: o.current() for k, o in m.options.items()}

    def _project(self):
        from mitmproxy.tools.web import app as webapp

        m = self.master
        flows = []
        for f in m.view:
            try:
                st = f.get_state()
                st.pop("backup", None)
                flows.append((f.id, repr(st), bool(f._backup)))
            except Exception as e:  # a corrupted flow is a state change as well
                flows.append((f.id, "unprojectable " + type(e).__name__))
        opts = tuple((k, repr(o.current())) for k, o in sorted(m.options.items()))
        return (tuple(flows), opts, len(m.events.data), len(webapp.ClientConnection.connections))

    # -- request construction --
    def _cookie_name(self):
        return "mitmproxy-auth-%d" % self.master.options.web_port

    def _cred(self, c, hdrs, query, form):
        pw, wrongs = self.pw, None
        wrongs = [pw + "x", pw[:-1], pw.swapcase() if pw.swapcase() != pw else pw + "0", "wrong", pw * 2, "x" + pw]
        wrong = wrongs[self.var % len(wrongs)]
        if c == "bearer_valid":
            hdrs.append(("Authorization", "Bearer " + pw))
        elif c == "bearer_wrong":
            hdrs.append(("Authorization", "Bearer " + wrong))
        elif c == "bearer_empty":
            hdrs.append(("Authorization", ["Bearer", "Bearer ", "Bearer\t"][self.var % 3]))
        elif c == "bearer_hash":
            hdrs.append(("Authorization", "Bearer " + self.hash))
        elif c == "query_valid":
            query.append(("token", pw))
        elif c == "query_wrong":
            query.append(("token", wrong))
        elif c == "query_empty":
            query.append(("token", ""))
        elif c == "form_valid":
            form.append(("token", pw))
        elif c == "form_wrong":
            form.append(("token", wrong))
        elif c == "bearer_empty_query_valid":
            hdrs.append(("Authorization", "Bearer"))
            query.append(("token", pw))
        elif c == "bearer_wrong_query_valid":
            hdrs.append(("Authorization", "Bearer " + wrong))
            query.append(("token", pw))
        elif c == "scheme_lower_valid":
            hdrs.append(("Authorization", ["bearer ", "BEARER ", "Token "][self.var % 3] + pw))
        elif c == "basic_valid":
            hdrs.append(("Authorization", "Basic " + base64.b64encode(b"user:" + pw.encode()).decode()))
        elif c == "bearer_old":
            hdrs.append(("Authorization", "Bearer " + (self.oldpw or wrong)))
        elif c == "query_old":
            query.append(("token", self.oldpw or wrong))

    def _cookie(self, ck, cookies):
        """-> cookie number for the event"""
        import tornado.web

        name = self._cookie_name()
        if ck == "none" or ck == "xsrf_only":
            return CK_FORGED.get(ck, 0)
        if ck in ("jar", "jar_first"):
            if not self.jar:
                return 0
            idx = len(self.jar) - 1 if ck == "jar" else 0
            cookies.append((name, self.jar[idx]))
            return idx + 1
        if ck == "plain":
            cookies.append((name, ["y", '"y"', "eQ=="][self.var % 3]))
        elif ck == "garbage":
            cookies.append((name, ["2|1:0|10:1790000000|%d:%s|4:eQ==|%s" % (len(name), name, "0" * 64), "2|", "|||||", "x" * 200][self.var % 4]))
        elif ck == "tampered":
            if self.jar:
                v = self.jar[-1]
                if self.var % 2 == 0:
                    v = v[:-1] + ("0" if v[-1] != "0" else "1")  # signature
                else:
                    v = v.replace("|4:eQ==|", "|4:eg==|")  # value
                    if v == self.jar[-1]:
                        v = v[:-2] + "ff"
                cookies.append((name, v))
            else:
                cookies.append((name, "2|1:0|10:1790000000|%d:%s|4:eQ==|%s" % (len(name), name, "f" * 64)))
        elif ck == "forged":
            sv = tornado.web.create_signed_value([b"not-the-secret-not-the-secret-32b", b"\x00" * 32, b"mitmproxy"][self.var % 3], name, b"y")
            cookies.append((name, sv.decode()))
        elif ck == "forged_v1":
            sv = tornado.web.create_signed_value(b"not-the-secret-not-the-secret-32b", name, b"y", version=1)
            cookies.append((name, sv.decode()))
        return CK_FORGED[ck]

    def _xsrf(self, x, hdrs, query, form, cookies):
        t = self.xsrf_cookie or "5e1fmade0123456789abcdef5e1fmade"
        other = "0123456789abcdef0123456789abcdef"
        if x == "pair_hdr":
            cookies.append((XSRF_COOKIE, t)); hdrs.append(("X-XSRFToken", t))
        elif x == "pair_csrfhdr":
            cookies.append((XSRF_COOKIE, t)); hdrs.append(("X-CSRFToken", t))
        elif x == "pair_arg":
            cookies.append((XSRF_COOKIE, t)); query.append(("_xsrf", t))
        elif x == "pair_form":
            cookies.append((XSRF_COOKIE, t)); form.append(("_xsrf", t))
        elif x == "pair_remask":
            cookies.append((XSRF_COOKIE, t)); hdrs.append(("X-XSRFToken", _remask(t, self.rng)))
        elif x == "hdr_only":
            hdrs.append(("X-XSRFToken", t))
        elif x == "cookie_only":
            cookies.append((XSRF_COOKIE, t))
        elif x == "mismatch":
            cookies.append((XSRF_COOKIE, t)); hdrs.append(("X-XSRFToken", other))
        elif x == "empty":
            cookies.append((XSRF_COOKIE, "")); hdrs.append(("X-XSRFToken", ""))
        elif x == "old_name":
            cookies.append(("_xsrf", t)); hdrs.append(("X-XSRFToken", t))

    _BODIES = {("Options", "PUT"): b'{"anticache": true}', ("FlowHandler", "PUT"): b'{"comment": "edited"}',
               ("ExecuteCommand", "POST"): b'{"arguments": []}', ("FlowContent", "POST"): b"new content"}

    def _probe(self, route, method, cred, ck, xsrf, sfs, var, pred="", keep=False):
        self.var = var
        r = self.routes.get(route)
        if r is None:
            return False
        hdrs, query, form, cookies = [], [], [], []
        self._cred(cred, hdrs, query, form)
        ckno = self._cookie(ck, cookies)
        self._xsrf(xsrf, hdrs, query, form, cookies)
        if sfs:
            hdrs.append(("Sec-Fetch-Site", sfs))
        target = r["targets"][var % len(r["targets"])]
        if query:
            target += "?" + urllib.parse.urlencode(query)
        body = b""
        if form:
            body = urllib.parse.urlencode(form).encode()
            hdrs.append(("Content-Type", "application/x-www-form-urlencoded"))
        elif (route, method) in self._BODIES:
            body = self._BODIES[(route, method)]
            hdrs.append(("Content-Type", "application/json"))
        if cookies:
            hdrs.append(("Cookie", "; ".join(f"{k}={v}" for k, v in cookies)))
        if r["kind"] == "ws" and var % 4 != 3:
            hdrs += [("Upgrade", "websocket"), ("Connection", "Upgrade"), ("Sec-WebSocket-Version", "13"),
                     ("Sec-WebSocket-Key", base64.b64encode(b"0123456789abcdef").decode())]
        before = self._project()

        def poke():
            try:
                self.master.view.update([self.flows[0]])
            except Exception:
                pass

        # every request goes over a keep-alive connection: the one that carried the previous request, or a fresh one
        resp = self.drv.request(method, target, hdrs, body, after_upgrade=poke, conn="keep" if keep else "new")
        if resp.status == 101:
            self._wait_conns(before[3])
        after = self._project()
        changed = before != after
        blob = resp.body + resp.after + " ".join(f"{k}: {v}" for k, v in resp.headers).encode("latin-1", "replace")
        leak = CANARY.encode() in blob
        setck = 0
        for n, v in resp.cookies().items():
            if n.startswith("mitmproxy-auth"):
                self.jar.append(v)
                setck = len(self.jar)
            elif n == XSRF_COOKIE and v:
                self.xsrf_cookie = v
        self.trace.append({
            "k": "req", "route": route, "cls": r["kind"], "method": method, "impl": method in r["impl"],
            "cred": cred, "credok": cred_ok(cred), "kept": bool(resp.reused), "ck": ckno, "setck": setck, "xsrf": xsrf,
            "xsrfok": xsrf in XSRF_OK, "sfs": sfs, "status": resp.status, "changed": changed, "leak": leak,
            "pred": pred})
        if changed:
            self._reset_state()
        return True

    def _wait_conns(self, n):
        import asyncio

        from mitmproxy.tools.web import app as webapp

        async def go():
            for _ in range(40):
                if len(webapp.ClientConnection.connections) <= n:
                    return
                await asyncio.sleep(0.002)

        self.drv.run(go())

    def run(self):
        sc = self.sc
        self.drv.restart()
        self._set_password(sc["mode"])
        self._reset_state(first=True)
        preds = list(sc.get("pred") or [])

        def next_pred():
            return preds.pop(0) if preds else ""

        for st in sc["steps"]:
            if st[0] == "login":
                c = st[1]
                if c == "form_valid":
                    self._probe("IndexHandler", "POST", c, "none", "pair_form", "same-origin", 0, next_pred())
                else:
                    self._probe("IndexHandler", "GET", c, "none", "none", "", 0, next_pred())
            elif st[0] == "restart":
                self.drv.restart()
                self.trace.append({"k": "restart"})
            elif st[0] == "newpw":
                self.oldpw = self.pw
                self._set_password("argon2" if sc["mode"] == "argon2" else "plain")
                self.opt_snapshot = {k: o.current() for k, o in self.master.options.items()}
                self.trace.append({"k": "newpw"})
            elif st[0] == "probe":
                route, method, cred, ck, xsrf, sfs, var = st[1]
                if ck in ("jar", "jar_first") and not self.jar:
                    ck = "none"
                keep = bool(st[2]) if len(st) > 2 else False
                if not self._probe(route, method, cred, ck, xsrf, sfs, var, next_pred(), keep):
                    break
        self.drv.drop_connection()
        return self.trace


def _remask(token: str, rng) -> str:
    """An equivalent version-2 XSRF token with a different mask (own transcription of the documented format
    2|mask|masked_token|timestamp with masked = token XOR mask); other formats are returned unchanged."""
    parts = token.split("|")
    if len(parts) != 4 or parts[0] != "2":
        return token
    try:
        mask = bytes.fromhex(parts[1])
        masked = bytes.fromhex(parts[2])
    except ValueError:
        return token
    tok = bytes(a ^ b for a, b in zip(masked, itertools.cycle(mask)))
    new_mask = bytes(rng.randrange(256) for _ in range(4))
    new_masked = bytes(a ^ b for a, b in zip(tok, itertools.cycle(new_mask)))
    return "|".join(["2", new_mask.hex(), new_masked.hex(), parts[3]])
