------------------------------ MODULE ModeStack ------------------------------
(* Implementation-shaped model of what a new client connection gets from its proxy mode:
     mitmproxy/proxy/mode_servers.py   *Instance.make_top_layer (+ the address handle_stream puts into the context)
     mitmproxy/proxy/layers/modes.py   HttpProxy, HttpUpstreamProxy, ReverseProxy, TransparentProxy, Socks5Proxy
                                       (state_connect tail), DestinationKnown.finish_start / done
     mitmproxy/proxy/layer.py          Layer.handle_event (pause on a blocking command, _paused_event_queue),
                                       NextLayer._handle_event / _ask (ask_on_start for the child of a QUIC layer)
     mitmproxy/addons/next_layer.py    NextLayer._next_layer, _ignore_connection (class level), _setup_reverse_proxy,
                                       _setup_explicit_http_proxy, _starts_like_quic
     layer constructors                TLSLayer / QuicLayer.__init__ (conn.tls = True), HttpLayer Start (server.via)
   One action per event the proxy core feeds to the top layer (Start, DataReceived, ConnectionClosed,
   OpenConnectionCompleted); the scenario (a row of Cases) is chosen in Init.  Every action emits exactly the step
   record the harness logs for it. *)
EXTENDS Mon_ModeStack, TLC
CONSTANTS Cases,      \* sequence of case records (fields of NoCase)
          TcpCls,     \* classes of a TCP client's first segment: tls http bin short ssh nospace latespace
          UdpCls,     \* classes of a UDP client's first datagram: dtls quic noise tiny tlsrec
          GlueCls,    \* classes of payload glued to the SOCKS5 request
          MoreCls     \* classes of a second client segment that queues behind the first while the connection is pending
VARIABLES ci, pc, q, fd, srv, mon, obs
vars == <<ci, pc, q, fd, srv, mon, obs>>
C == Cases[ci]
AllCls == TcpCls \cup UdpCls \cup {"greet"}

ConnEv(c) == [k |-> "conn"] @@ c
Srv0(c) == [addr |-> IF c.mode \in {"transparent", "wireguard", "inner"} THEN "dest" ELSE "none",   \* handle_stream
            sni |-> "none", stls |-> c.mode = "inner", via |-> "none", conn |-> FALSE]

Emit(evs) == obs' = evs /\ mon' = FoldEvents(MonStep, mon, evs)
Live == mon.bad = <<>>

StepEv(op, ok, from, cls, opened, closed, reply, asked, stack, s) ==
  [k |-> "step", op |-> op, ok |-> ok, from |-> from, cls |-> cls, opened |-> opened,
   oaddr |-> IF opened THEN "dest" ELSE "none", closed |-> closed, reply |-> reply, asked |-> asked, stack |-> stack,
   addr |-> s.addr, sni |-> s.sni, stls |-> s.stls, via |-> s.via, exc |-> ""]

\* ---- addons/next_layer.py on the class level -------------------------------------------------------------------
IsTlsRec(dc) == dc = "tls"                      \* starts_like_tls_record
IsDtlsRec(dc) == dc = "dtls"                    \* starts_like_dtls_record
\* _starts_like_quic: >= 18 bytes, not DTLS, long header with a known version, else a typical port
QuicLike(dc, port) == dc = "quic" \/ (dc \in {"noise", "tlsrec"} /\ port = "web")
\* probably_no_http
Pnh(dc, ds) == ds \/ dc \in {"", "short", "bin", "ssh", "nospace", "latespace"}
\* _ignore_connection with ignore_hosts = [".+"]: every connection with a known address, except WireGuard's DNS
Ignored(c) == c.ign = "all" /\ ~Explicit(c) /\ ~(c.mode = "wireguard" /\ c.wgdns)
Raw(c, ignore) == (IF c.tr = "tcp" THEN "TCP" ELSE "UDP") \o (IF ignore THEN ":ignore" ELSE "")
Opt(b, x) == IF b THEN <<x>> ELSE <<>>

SetupReverse(c, dc) ==
  CASE c.scheme = "http" -> Opt(IsTlsRec(dc), "CTLS") \o <<"HTTP:transparent">>
    [] c.scheme = "https" -> IF c.tr = "udp" THEN <<"SQUIC", "CQUIC", "HTTP:transparent">>
                             ELSE <<"STLS">> \o Opt(IsTlsRec(dc), "CTLS") \o <<"HTTP:transparent">>
    [] c.scheme = "tcp" -> Opt(IsTlsRec(dc), "CTLS") \o <<"TCP">>
    [] c.scheme = "tls" -> <<"STLS">> \o Opt(IsTlsRec(dc), "CTLS") \o <<"TCP">>
    [] c.scheme = "udp" -> Opt(IsDtlsRec(dc), "CTLS") \o <<"UDP">>
    [] c.scheme = "dtls" -> <<"STLS">> \o Opt(IsDtlsRec(dc), "CTLS") \o <<"UDP">>
    [] c.scheme = "dns" -> <<"DNS">>
    [] c.scheme = "http3" -> <<"SQUIC", "CQUIC", "HTTP:transparent">>
    [] c.scheme = "quic" -> <<"SQUIC", "CQUIC", "RAWQUIC">>
    [] OTHER -> <<"?">>

SetupExplicit(c, dc) ==
  (IF c.tr = "udp" THEN <<"CQUIC">> ELSE Opt(IsTlsRec(dc), "CTLS"))
  \o <<IF c.mode = "upstream" THEN "HTTP:upstream" ELSE "HTTP:regular">>

\* _next_layer(context, data_client, data_server)
Decide(c, f) ==
  LET dc == IF f.from = "client" THEN f.cls ELSE ""
      ds == f.from = "server"
      tcp == c.tr = "tcp" IN
  IF Ignored(c) THEN <<Raw(c, ~c.show)>>                                      \* 1)
  ELSE IF c.mode = "reverse" THEN SetupReverse(c, dc)                          \* 2a)
  ELSE IF Explicit(c) THEN SetupExplicit(c, dc)                                \* 2b)
  ELSE IF (tcp /\ IsTlsRec(dc)) \/ (~tcp /\ IsDtlsRec(dc)) THEN <<"STLS", "CTLS", "NEXT">>   \* 3a)
  ELSE IF ~tcp /\ QuicLike(dc, c.port) THEN <<"SQUIC", "CQUIC", "NEXT">>      \* 3b)
  ELSE IF c.hosts # "none" THEN <<Raw(c, FALSE)>>                              \* 4)
  ELSE IF c.alpn \in {"h2", "http11", "h3"} THEN <<"HTTP:transparent">>        \* 5a)
  ELSE IF c.alpn # "none" /\ c.tlsver = "quic" THEN <<"RAWQUIC">>
  ELSE IF c.port = "dns" THEN <<"DNS">>                                        \* 5b)
  ELSE IF ~tcp THEN <<"UDP">>                                                  \* 5c)
  ELSE IF c.rawtcp /\ Pnh(dc, ds) THEN <<"TCP">>                               \* 5d)
  ELSE <<"HTTP:transparent">>

\* constructors of the chosen layers: TLSLayer/QuicLayer set conn.tls; HttpLayer(upstream) sets server.via on Start
\* (the replayed Start reaches it at once unless a ClientTLSLayer above it is still waiting for the handshake)
Built(s, st) == [s EXCEPT !.stls = @ \/ ServerSec(st), !.via = IF st[1] = "HTTP:upstream" THEN "spec" ELSE @]

\* DestinationKnown.finish_start opens first iff eager, address known and the server transport is TCP
EagerOpen(c) == c.eager /\ c.tr = "tcp"

Init == /\ ci \in 1..Len(Cases)
        /\ pc = "new" /\ q = <<>> /\ fd = NoData /\ srv = Srv0(Cases[ci])
        /\ mon = MonStep(MonInit, ConnEv(Cases[ci])) /\ obs = <<ConnEv(Cases[ci])>>

\* events.Start to the top layer made by make_top_layer
Start ==
  /\ Live /\ pc = "new" /\ UNCHANGED <<ci, q, fd>>
  /\ LET c == C IN
     CASE Explicit(c) ->                       \* HttpProxy / HttpUpstreamProxy: a NextLayer, nothing else
            /\ pc' = "wait" /\ srv' = srv
            /\ Emit(<<StepEv("start", FALSE, "", "", FALSE, FALSE, "none", FALSE, <<>>, srv)>>)
       [] c.mode = "socks5" ->                 \* Socks5Proxy: Start is ignored, the handshake comes first
            /\ pc' = "socks" /\ srv' = srv
            /\ Emit(<<StepEv("start", FALSE, "", "", FALSE, FALSE, "none", FALSE, <<>>, srv)>>)
       [] c.mode = "inner" ->                  \* the NextLayer below a TLS layer waits; below a QUIC layer it asks on Start
            IF c.tlsver = "quic"
            THEN LET st == Decide(c, NoData) IN
                 /\ pc' = "decided" /\ srv' = Built(srv, st)
                 /\ Emit(<<StepEv("start", FALSE, "", "", FALSE, FALSE, "none", TRUE, st, srv')>>)
            ELSE /\ pc' = "wait" /\ srv' = srv
                 /\ Emit(<<StepEv("start", FALSE, "", "", FALSE, FALSE, "none", FALSE, <<>>, srv)>>)
       [] OTHER ->                             \* ReverseProxy / TransparentProxy: address (+ SNI), then finish_start
            /\ srv' = IF c.mode = "reverse"
                      THEN [srv EXCEPT !.addr = "dest", !.sni = IF Secure(c.scheme) /\ ~c.keep THEN "dest" ELSE "none"]
                      ELSE srv
            /\ pc' = IF EagerOpen(c) THEN "opening" ELSE "wait"
            /\ Emit(<<StepEv("start", FALSE, "", "", EagerOpen(c), FALSE, "none", FALSE, <<>>, srv')>>)

\* SOCKS5 greeting + CONNECT request in the client's segments, optionally with the first payload glued to the request
\* (Socks5Proxy.state_connect: address, NextLayer child, finish_start, reply, buffered rest to the child)
Socks(g) ==
  /\ Live /\ pc = "socks" /\ UNCHANGED <<ci, q>>
  /\ g \in GlueCls \cup {""}
  /\ LET c == C  s1 == [srv EXCEPT !.addr = "dest"]
         f == IF g = "" THEN NoData ELSE [from |-> "client", cls |-> g] IN
     /\ fd' = f
     /\ IF EagerOpen(c)
        THEN /\ pc' = "opening" /\ srv' = s1
             /\ Emit(<<StepEv("socks", FALSE, f.from, g, TRUE, FALSE, "none", FALSE, <<>>, s1)>>)
        ELSE IF g = ""
        THEN /\ pc' = "wait" /\ srv' = s1
             /\ Emit(<<StepEv("socks", FALSE, "", "", FALSE, FALSE, "ok", FALSE, <<>>, s1)>>)
        ELSE LET st == Decide(c, f) IN
             /\ pc' = "decided" /\ srv' = Built(s1, st)
             /\ Emit(<<StepEv("socks", FALSE, "client", g, FALSE, FALSE, "ok", TRUE, st, srv')>>)

\* events.DataReceived: the first data of the connection (client segment, or the server's greeting once connected);
\* while the eager connection is pending one more client segment may queue up behind it
Data(from, cls) ==
  /\ Live /\ pc \in {"wait", "opening"} /\ ~In(q, "c") /\ UNCHANGED ci
  /\ \/ fd = NoData /\ from = "client" /\ cls \in (IF C.tr = "tcp" THEN TcpCls ELSE UdpCls)
     \/ fd = NoData /\ from = "server" /\ cls = "greet" /\ srv.conn /\ pc = "wait"
     \/ fd # NoData /\ pc = "opening" /\ Len(q) < 2 /\ from = "client"
        /\ cls \in MoreCls \cap (IF C.tr = "tcp" THEN TcpCls ELSE UdpCls)
  /\ fd' = IF fd = NoData THEN [from |-> from, cls |-> cls] ELSE fd
  /\ IF pc = "opening"
     THEN \* the mode layer is paused on OpenConnection: Layer.handle_event queues the event
          /\ q' = Append(q, "d") /\ pc' = pc /\ srv' = srv
          /\ Emit(<<StepEv("data", FALSE, from, cls, FALSE, FALSE, "none", FALSE, <<>>, srv)>>)
     ELSE \* NextLayer._handle_event -> _ask -> next_layer hook -> NextLayer addon (data_client = this segment)
          LET st == Decide(C, fd') IN
          /\ q' = q /\ pc' = "decided" /\ srv' = Built(srv, st)
          /\ Emit(<<StepEv("data", FALSE, from, cls, FALSE, FALSE, "none", TRUE, st, srv')>>)

\* events.ConnectionClosed(client) before a decision
CClose ==
  /\ Live /\ pc \in {"wait", "opening"} /\ ~In(q, "c") /\ UNCHANGED <<ci, fd, srv>>
  /\ IF pc = "opening"
     THEN /\ q' = Append(q, "c") /\ pc' = pc
          /\ Emit(<<StepEv("cclose", FALSE, "", "", FALSE, FALSE, "none", FALSE, <<>>, srv)>>)
     ELSE \* NextLayer: "we abort everything"
          /\ q' = q /\ pc' = "closed"
          /\ Emit(<<StepEv("cclose", FALSE, "", "", FALSE, TRUE, "none", FALSE, <<>>, srv)>>)

\* events.OpenConnectionCompleted for the eager connection; then the queued events are replayed
OpenDone(ok) ==
  /\ Live /\ pc = "opening" /\ UNCHANGED <<ci, fd>>
  /\ q' = <<>>
  /\ LET c == C  socks == c.mode = "socks5" IN
     IF ~ok
     THEN \* finish_start: _handle_event = done, err returned; the mode layer closes the client (SOCKS: reply 04 first)
          /\ pc' = "failed" /\ srv' = srv
          /\ Emit(<<StepEv("open", FALSE, "", "", FALSE, TRUE, IF socks THEN "fail" ELSE "none", FALSE, <<>>, srv)>>)
     ELSE LET s1 == [srv EXCEPT !.conn = TRUE]  rep == IF socks THEN "ok" ELSE "none" IN
          IF fd # NoData
          THEN LET st == Decide(c, fd) IN                 \* glued / first queued segment reaches the NextLayer child: it decides on that segment alone
               /\ pc' = "decided" /\ srv' = Built(s1, st)
               /\ Emit(<<StepEv("open", TRUE, "", "", FALSE, FALSE, rep, TRUE, st, srv')>>)
          ELSE IF In(q, "c")
          THEN /\ pc' = "closed" /\ srv' = s1
               /\ Emit(<<StepEv("open", TRUE, "", "", FALSE, TRUE, rep, FALSE, <<>>, s1)>>)
          ELSE /\ pc' = "wait" /\ srv' = s1
               /\ Emit(<<StepEv("open", TRUE, "", "", FALSE, FALSE, rep, FALSE, <<>>, s1)>>)

Next == \/ Start
        \/ \E g \in GlueCls \cup {""} : Socks(g)
        \/ \E f \in {"client", "server"}, cl \in AllCls : Data(f, cl)
        \/ CClose
        \/ \E ok \in BOOLEAN : OpenDone(ok)
Spec == Init /\ [][Next]_vars

Report == mon.bad # <<>> => PrintT(<<"BAD", mon.bad>>)
NoBad == mon.bad = <<>>
\* design-level facts
LazyNeverOpens == ~C.eager => pc # "opening"
OpeningHasDest == pc = "opening" => srv.addr = "dest" /\ C.tr = "tcp"
FailedNeverBuilds == pc \in {"failed", "closed"} => srv.via = "none" /\ srv.stls = (C.mode = "inner")
=============================================================================
