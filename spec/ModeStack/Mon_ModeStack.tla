--------------------------- MODULE Mon_ModeStack ---------------------------
(* X04 (coverage extension, not one of the 54 given properties): the layer stack, server address and TLS settings a
   new client connection gets from its proxy mode, and when the upstream connection is opened.

   Statement judged here (sources: docs/src/content/concepts/modes.md -- the reverse proxy scheme table, "Upstream
   Proxy"; concepts/protocols.md -- "Generic TCP/TLS Proxy", "Generic UDP/DTLS Proxy", HTTP/3; the help texts of
   connection_strategy, keep_host_header, rawtcp, tcp_hosts, udp_hosts; the module docstring of addons/next_layer.py;
   the comments of ReverseProxy / DestinationKnown / layer.NextLayer; the WireGuard client configuration "DNS =
   10.0.0.53"):
     1. reverse:<scheme>://target -- the connection's server address is the target from the moment the connection
        starts; for the secure schemes (https, tls, dtls, http3, quic) the server SNI is the target host unless
        keep_host_header is set; the stack is the row of the scheme table: client side (D)TLS is autodetected
        (present iff the client's first bytes start a (D)TLS record) for http, https, tcp, tls, udp, dtls, QUIC for
        http3 and quic; server side TLS/QUIC iff the scheme is secure; application layer HTTP (http, https, http3),
        raw TCP (tcp, tls), raw UDP (udp, dtls), DNS (dns), raw QUIC (quic).
     2. regular / upstream -- the client speaks HTTP to the proxy, optionally inside TLS (autodetected); the HTTP layer
        is in regular resp. upstream mode; no server-side TLS layer and no upstream connection exist before a request;
        in upstream mode the server connection is routed via the configured proxy (scheme, address) as soon as
        the HTTP layer has started (at the decision for a plain client; after the handshake for a TLS client).
     3. connection_strategy -- lazy: no upstream connection is opened before the client has sent data;
        eager: for modes whose destination is known up front (reverse, transparent, wireguard/local, socks5 after the
        request) a TCP upstream connection to that destination is opened before the client's data is interpreted;
        if that connection fails the client connection is closed and no protocol layer is ever started.
        The destination a transparent / socks5 connection carries is never changed by the mode layer.
     4. destination-known modes without a fixed protocol (transparent, wireguard, socks5, and the decision taken
        inside an intercepted TLS/QUIC session) -- a client that starts with a TLS (TCP) / DTLS (UDP) record is
        intercepted (server TLS layer above client TLS layer); tcp_hosts / udp_hosts destinations without (D)TLS get
        the raw TCP / UDP layer; a negotiated HTTP ALPN gives the HTTP layer; rawtcp off never yields a raw TCP
        layer; a clear HTTP/1 request head gives HTTP; with rawtcp on, binary client data or a server-side
        greeting (eager) gives raw TCP; UDP that is nothing else is relayed by the raw UDP layer; QUIC long-header
        packets in wireguard mode are intercepted; the WireGuard DNS address 10.0.0.53:53 is served by the DNS
        layer even under ignore_hosts / allow_hosts.
     5. a client that closes before any protocol was chosen is disconnected; a clear first flight is decided at once
        (no rules configured); nothing crashes.
   Everything else the records carry (UDP is never opened eagerly, SOCKS reply bytes, DNS on port 53, QUIC guesses by
   port, the heuristics for short / ambiguous client data, the ignore relay and its show_ignored_hosts flag, when the
   next_layer hook is asked) is a prediction of ModeStack.tla: compared for drift only.

   Records.  First: [k |-> "conn", mode, scheme, tr, eager, keep, rawtcp, show, hosts, port, ign, wgdns, alpn, tlsver].
   Then one per step: [k |-> "step", op |-> "start"|"socks"|"open"|"data"|"cclose", ok, from, cls   (the input)
        opened, oaddr, closed, reply, asked, stack   (what happened BEFORE / AT the layer decision of this step)
        addr, sni, stls, via, exc]                   (context.server after the step; escaped exception class)
   stack: names from the decided layer down its child chain: STLS CTLS SQUIC CQUIC HTTP:<mode> TCP TCP:ignore UDP
   UDP:ignore DNS RAWQUIC NEXT (an undecided NextLayer).  addr / sni / oaddr / via are classes: none | dest | spec | other. *)
EXTENDS Verif

NoCase == [mode |-> "", scheme |-> "", tr |-> "tcp", eager |-> FALSE, keep |-> FALSE, rawtcp |-> TRUE, show |-> FALSE,
           hosts |-> "none", port |-> "other", ign |-> "none", wgdns |-> FALSE, alpn |-> "none", tlsver |-> "none"]
NoData == [from |-> "", cls |-> ""]
MonInit == [bad |-> <<>>, wit |-> {}, c |-> NoCase, ph |-> "new", fd |-> NoData]

In(st, x) == \E i \in 1..Len(st) : st[i] = x
ClientSec(st) == In(st, "CTLS") \/ In(st, "CQUIC")
ServerSec(st) == In(st, "STLS") \/ In(st, "SQUIC")
App(st) == IF st = <<>> THEN "" ELSE st[Len(st)]
Secure(s) == s \in {"https", "tls", "dtls", "http3", "quic"}
Explicit(c) == c.mode \in {"regular", "upstream"}
Generic(c) == c.mode \in {"transparent", "wireguard", "socks5", "inner"}
\* the client's first bytes start a TLS record (TCP) / DTLS record (UDP)
TlsFirst(c, fd) == fd.from = "client" /\ ((c.tr = "tcp" /\ fd.cls = "tls") \/ (c.tr = "udp" /\ fd.cls = "dtls"))
\* UDP payloads the QUIC guess may claim (long header, or anything big enough on a typical port): statement silent
MaybeQuic(c, fd) == c.tr = "udp" /\ fd.from = "client" /\ fd.cls \in {"quic", "noise", "tlsrec"}
\* excluded by the ignore rules (C19's subject), except the WireGuard DNS address
Excluded(c) == c.ign = "all" /\ ~(c.mode = "wireguard" /\ c.wgdns)
Clear(fd) == fd.from = "server" \/ fd.cls \in {"tls", "http", "bin", "dtls", "quic"}

RevApp(s) == CASE s \in {"http", "https", "http3"} -> "HTTP:transparent"
               [] s \in {"tcp", "tls"} -> "TCP"
               [] s \in {"udp", "dtls"} -> "UDP"
               [] s = "dns" -> "DNS"
               [] s = "quic" -> "RAWQUIC"
               [] OTHER -> "?"
AutoTls(c) == c.scheme \in {"http", "tcp", "tls", "udp", "dtls"} \/ (c.scheme = "https" /\ c.tr = "tcp")

RevBad(c, fd, st) ==
  LET B(w) == <<"X04.reverse_stack", c.scheme, w>> IN
  IF AutoTls(c) /\ TlsFirst(c, fd) /\ ~In(st, "CTLS") THEN B("client_tls_missing")
  ELSE IF AutoTls(c) /\ ~TlsFirst(c, fd) /\ ClientSec(st) THEN B("client_tls_unexpected")
  ELSE IF c.scheme \in {"http3", "quic"} /\ ~In(st, "CQUIC") THEN B("client_quic_missing")
  ELSE IF c.scheme = "dns" /\ ClientSec(st) THEN B("client_tls_unexpected")
  ELSE IF Secure(c.scheme) /\ ~ServerSec(st) THEN B("server_tls_missing")
  ELSE IF ~Secure(c.scheme) /\ ServerSec(st) THEN B("server_tls_unexpected")
  ELSE IF App(st) # RevApp(c.scheme) THEN B("app")
  ELSE <<>>

ExpBad(c, fd, st, via) ==
  LET B(w) == <<"X04.explicit_stack", c.mode, w>> IN
  IF App(st) # (IF c.mode = "upstream" THEN "HTTP:upstream" ELSE "HTTP:regular") THEN B("app")
  ELSE IF c.tr = "tcp" /\ TlsFirst(c, fd) /\ ~In(st, "CTLS") THEN B("client_tls_missing")
  ELSE IF c.tr = "tcp" /\ ~TlsFirst(c, fd) /\ ClientSec(st) THEN B("client_tls_unexpected")
  ELSE IF ServerSec(st) THEN B("server_tls_unexpected")
  ELSE IF c.mode = "upstream" /\ st[1] = "HTTP:upstream" /\ via # "spec" THEN <<"X04.upstream_via", via>>
  ELSE <<>>

GenBad(c, fd, st) ==
  LET tf == TlsFirst(c, fd)
      raw == IF c.tr = "tcp" THEN "TCP" ELSE "UDP"
      plain == ~tf /\ ~MaybeQuic(c, fd)
      free == plain /\ c.hosts = "none"
  IN
  IF tf /\ ~(In(st, "STLS") /\ In(st, "CTLS") /\ IndexOf(st, "STLS") < IndexOf(st, "CTLS"))
    THEN <<"X04.tls_not_intercepted", c.tr>>
  ELSE IF c.mode = "wireguard" /\ c.tr = "udp" /\ fd.cls = "quic" /\ c.hosts = "none" /\ ~(In(st, "SQUIC") /\ In(st, "CQUIC"))
    THEN <<"X04.quic_not_intercepted">>
  ELSE IF c.wgdns /\ plain /\ App(st) # "DNS" THEN <<"X04.wg_dns_not_dns", c.ign>>
  ELSE IF plain /\ c.hosts # "none" /\ App(st) # raw THEN <<"X04.raw_hosts_not_raw", c.tr, c.hosts>>
  ELSE IF free /\ c.alpn \in {"h2", "http11", "h3"} /\ App(st) # "HTTP:transparent" THEN <<"X04.alpn_http_not_http", c.alpn>>
  ELSE IF free /\ c.tr = "tcp" /\ ~c.rawtcp /\ App(st) = "TCP" THEN <<"X04.rawtcp_disabled_but_raw">>
  ELSE IF free /\ c.tr = "tcp" /\ c.alpn \in {"none", "other"} /\ c.port # "dns" /\ fd.from = "client" /\ fd.cls = "http"
          /\ App(st) # "HTTP:transparent" THEN <<"X04.http_not_detected">>
  ELSE IF free /\ c.tr = "tcp" /\ c.rawtcp /\ c.alpn \in {"none", "other"} /\ c.port # "dns" /\ fd.from = "client"
          /\ fd.cls = "bin" /\ App(st) # "TCP" THEN <<"X04.raw_not_detected", "binary">>
  ELSE IF free /\ c.tr = "tcp" /\ c.rawtcp /\ c.alpn \in {"none", "other"} /\ c.port # "dns" /\ fd.from = "server"
          /\ App(st) # "TCP" THEN <<"X04.raw_not_detected", "server_greeting">>
  ELSE IF free /\ c.tr = "udp" /\ c.alpn = "none" /\ c.port # "dns" /\ App(st) # "UDP" THEN <<"X04.udp_fallback">>
  ELSE <<>>

StackBad(c, fd, ev) ==
  IF Excluded(c) THEN <<>>
  ELSE IF c.mode = "reverse" THEN RevBad(c, fd, ev.stack)
  ELSE IF Explicit(c) THEN ExpBad(c, fd, ev.stack, ev.via)
  ELSE IF Generic(c) THEN GenBad(c, fd, ev.stack)
  ELSE <<>>

\* first data of the connection as known after this step
Fd2(m, ev) == IF ev.cls # "" /\ m.fd.from = "" THEN [from |-> ev.from, cls |-> ev.cls] ELSE m.fd
\* the destination is known (to the mode layer) after this step
Known(m, ev) == m.c.mode \in {"reverse", "transparent", "wireguard", "inner"}
                \/ (m.c.mode = "socks5" /\ (ev.op = "socks" \/ m.ph \notin {"new", "socks"}))
\* this step hands the first data to a live, undecided next-layer
Delivered(m, ev) == \/ ev.op = "data" /\ m.ph = "wait" /\ m.fd.from = ""
                    \/ ev.op = "open" /\ ev.ok /\ m.ph = "opening" /\ m.fd.from # ""
                    \/ ev.op = "socks" /\ ev.cls # "" /\ ~ev.opened /\ ~ev.closed
ShouldOpen(m, ev) == /\ m.c.eager /\ m.c.tr = "tcp"
                     /\ \/ ev.op = "start" /\ m.c.mode \in {"reverse", "transparent", "wireguard"}
                        \/ ev.op = "socks" /\ m.c.mode = "socks5"

StepBad(m, ev) ==
  LET c == m.c  fd == Fd2(m, ev)  decided == ev.stack # <<>> IN
  IF ev.exc # "" THEN <<"X04.crashed", ev.exc>>
  ELSE IF m.ph = "failed" THEN (IF decided THEN <<"X04.decided_after_connect_failure", c.mode>> ELSE <<>>)
  ELSE IF m.ph \in {"decided", "closed"} THEN <<>>
  ELSE IF ev.opened /\ ~c.eager THEN <<"X04.lazy_opened_early", c.mode>>
  ELSE IF ev.opened /\ ~Known(m, ev) THEN <<"X04.opened_without_destination", c.mode>>
  ELSE IF ev.opened /\ ev.oaddr # "dest" THEN <<"X04.opened_wrong_address", c.mode>>
  ELSE IF ShouldOpen(m, ev) /\ ~ev.opened THEN <<"X04.eager_not_opened", c.mode>>
  ELSE IF Known(m, ev) /\ ev.addr # "dest"
    THEN (IF c.mode = "reverse" THEN <<"X04.reverse_target", c.scheme>> ELSE <<"X04.destination_changed", c.mode>>)
  ELSE IF c.mode = "reverse" /\ Secure(c.scheme) /\ ~c.keep /\ ev.sni # "dest" THEN <<"X04.reverse_sni", c.scheme>>
  ELSE IF ev.op = "open" /\ ~ev.ok /\ ~ev.closed THEN <<"X04.connect_failed_client_kept", c.mode>>
  ELSE IF ev.op = "open" /\ ~ev.ok /\ decided THEN <<"X04.decided_after_connect_failure", c.mode>>
  ELSE IF ev.op = "cclose" /\ m.ph = "wait" /\ ~ev.closed THEN <<"X04.client_close_not_aborted", c.mode>>
  ELSE IF decided /\ StackBad(c, fd, ev) # <<>> THEN StackBad(c, fd, ev)
  ELSE IF Delivered(m, ev) /\ ~decided /\ c.ign = "none" /\ Clear(fd) THEN <<"X04.undecided", c.mode>>
  ELSE <<>>

StepWit(m, ev) ==
  LET c == m.c  fd == Fd2(m, ev)  st == ev.stack  decided == ev.stack # <<>>
      plain == ~TlsFirst(c, fd) /\ ~MaybeQuic(c, fd)  free == plain /\ c.hosts = "none" IN
  IF m.ph \in {"decided", "closed", "failed"} THEN {} ELSE
  (IF ev.op \in {"start", "socks"} /\ ~c.eager /\ Known(m, ev) THEN {"lazy_start"} ELSE {})
  \cup (IF ShouldOpen(m, ev) THEN {"eager_open_" \o c.mode} ELSE {})
  \cup (IF ev.op = "start" /\ c.mode = "reverse" THEN {"reverse_target"} ELSE {})
  \cup (IF ev.op = "start" /\ c.mode = "reverse" /\ Secure(c.scheme) THEN {IF c.keep THEN "reverse_keep" ELSE "reverse_sni"} ELSE {})
  \cup (IF ev.op = "open" /\ ~ev.ok THEN {IF m.fd.from # "" THEN "connect_failed_queued_data" ELSE "connect_failed"} ELSE {})
  \cup (IF ev.op = "open" /\ ev.ok /\ m.fd.from # "" /\ decided THEN {"queued_data_decided"} ELSE {})
  \cup (IF ev.op = "cclose" /\ m.ph = "wait" THEN {"client_close"} ELSE {})
  \cup (IF ev.op = "socks" /\ ev.cls # "" THEN {"socks_glue"} ELSE {})
  \cup (IF decided /\ ~Excluded(c) THEN
          (IF c.mode = "reverse" THEN {"rev_" \o c.scheme} \cup (IF AutoTls(c) THEN {IF TlsFirst(c, fd) THEN "reverse_client_tls" ELSE "reverse_plain"} ELSE {})
           ELSE IF Explicit(c) THEN {c.mode \o (IF TlsFirst(c, fd) THEN "_tls" ELSE "_plain")}
           ELSE IF Generic(c) THEN
             (IF TlsFirst(c, fd) THEN {"generic_" \o fd.cls} ELSE {})
             \cup (IF c.mode = "wireguard" /\ c.tr = "udp" /\ fd.cls = "quic" /\ c.hosts = "none" THEN {"wg_quic"} ELSE {})
             \cup (IF c.wgdns /\ plain THEN {"wg_dns_" \o c.ign} ELSE {})
             \cup (IF plain /\ c.hosts # "none" THEN {"raw_hosts_" \o c.tr \o "_" \o c.hosts} ELSE {})
             \cup (IF free /\ c.alpn \in {"h2", "http11", "h3"} THEN {"alpn_http"} ELSE {})
             \cup (IF free /\ c.tr = "tcp" /\ ~c.rawtcp THEN {"rawtcp_off"} ELSE {})
             \cup (IF free /\ c.tr = "tcp" /\ c.alpn \in {"none", "other"} /\ c.port # "dns" /\ fd.from = "client" /\ fd.cls = "http" THEN {"http_detected"} ELSE {})
             \cup (IF free /\ c.tr = "tcp" /\ c.rawtcp /\ c.alpn \in {"none", "other"} /\ c.port # "dns" /\ fd.from = "client" /\ fd.cls = "bin" THEN {"raw_detected"} ELSE {})
             \cup (IF free /\ c.tr = "tcp" /\ c.rawtcp /\ c.alpn \in {"none", "other"} /\ c.port # "dns" /\ fd.from = "server" THEN {"server_greeting"} ELSE {})
             \cup (IF free /\ c.tr = "udp" /\ c.alpn = "none" /\ c.port # "dns" THEN {"udp_fallback"} ELSE {})
             \cup (IF c.mode = "inner" THEN {"inner_" \o c.tlsver} ELSE {})
           ELSE {})
        ELSE {})

NextPh(m, ev) ==
  LET decided == ev.stack # <<>> IN
  IF m.ph \in {"decided", "failed", "closed"} THEN m.ph
  ELSE IF ev.op = "open" /\ ~ev.ok THEN "failed"
  ELSE IF decided THEN "decided"
  ELSE IF ev.closed THEN "closed"
  ELSE IF ev.opened THEN "opening"
  ELSE IF ev.op = "open" THEN "wait"
  ELSE IF ev.op = "start" THEN (IF m.c.mode = "socks5" THEN "socks" ELSE "wait")
  ELSE IF ev.op = "socks" THEN "wait"
  ELSE m.ph

MonStep(m, ev) ==
  IF m.bad # <<>> THEN m ELSE
  CASE ev.k = "conn" ->
         [m EXCEPT !.c = [f \in DOMAIN NoCase |-> Get(ev, f, NoCase[f])]]
    [] ev.k = "step" ->
         [m EXCEPT !.bad = StepBad(m, ev), !.wit = @ \cup StepWit(m, ev), !.ph = NextPh(m, ev), !.fd = Fd2(m, ev)]
    [] OTHER -> m

Wit(m) == m.wit
=============================================================================
