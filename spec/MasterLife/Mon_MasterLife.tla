--------------------------- MODULE Mon_MasterLife ---------------------------
(* X08 (coverage extension, not one of the 54 given properties): life cycle of the master / event loop of a
   mitmdump-like tool (Master.run, KeepServing, ErrorCheck, ReadFile).

   Statement judged here.  Sources: docstrings of hooks.RunningHook / hooks.DoneHook, the comments of Master.run
   ("if running() was called, we also always want to call done()"), Master.shutdown ("Shut down the proxy"), the help
   text of option keepserving ("Continue serving after client playback, server playback or file read"), the
   docstring of ErrorCheck ("Monitor startup for error log entries, and terminate immediately if there are some").
     S1 running is delivered to an addon at most once, only after the proxy servers are up, and never once an error
        has been logged during startup; flows read from a file or replayed are not announced before it.
     S2 an error logged during startup (before the running phase is over) ends the run with exit status 1; an exit
        status is never produced without such an error; an error logged later never ends the run.
     S3 whenever running was delivered, done is delivered before run() is over, exactly once to every addon that
        got running, and it is the last event that addon sees -- also after run() has returned and the loop
        cancels what is left (asyncio.run).
     S4 shutdown() (and cancellation of run()) ends the run promptly.
     S5 the run never ends by itself (normal return without shutdown) when keepserving is on or when none of
        rfile / client_replay / server_replay is set; with keepserving off and one of them set it ends by itself
        only when the file has been read, every queued client replay has finished, every recorded response has
        been served and no client connection is open -- and then it does end (within two ticks of 105 ms).
     S6 (readfile: "Read flows from file", "Read only matching flows", '"-" for reading from stdin') the flows of the
        file (HTTP and TCP flows) are announced once each, in file order, only those matching readfile_filter; in reverse proxy mode
        (a single mode) they are announced with the reverse target as host ("we adjust the target host to the
        reverse proxy destination for all flows we load"), in regular mode with their own host.
     S7 (ErrorCheck) the exit with status 1 is explained on stderr ("Error(s) logged during startup"), and with
        repeat_errors_on_stderr every logged error is repeated there; (DoneHook: "log handlers are shut down at
        this point") once the done phase is over the master's log handlers are no longer installed; the code
        itself logs no error unless the file is unreadable/corrupt, an addon failed or a task crashed; an exception
        nobody handles (the loop's exception handler) is logged as an error and never ends the run by itself.

   Events (JSON records written by props/X08.py):
     [k |-> "cfg", ks, rk (none|ok|missing|corrupt), rn, fh (sync|gate), cn, conc (1|-1), sn, setup, err,
                   rs (path|stdin), rf (""|odd), mode (regular|reverse|two), rep, rt (""|mixed)]
     [k |-> "op", op |-> start|setup_ok|setup_fail|shutdown|cancel|release|dial_ok|dial_fail|respond|conn_open|
                         conn_req|conn_close|logerr|crash|crash_msg|tick|burst, ok |-> BOOLEAN,
                   b |-> inside a burst]                                                  environment action
     [k |-> "setup", ph |-> begin|end]        proxyserver.setup_servers entered / returned successfully
     [k |-> "hook", a |-> 1|2, h |-> running|done|request|response|error, src |-> ""|r|c|s, i |-> n,
                    host |-> o (the flow's own host) | v (the reverse target) | x | "", p |-> http|tcp|""]
                    (for a TCP flow request / response / error stand for tcp_start / tcp_end / tcp_error)
     [k |-> "err", by |-> env|code]           an ERROR log entry (seen by an independent log handler)
     [k |-> "served", i |-> n]                the request was answered from recording n (0: not from a recording)
     [k |-> "exit", how |-> returned|SystemExit|cancelled|<exception class>, code |-> n, said |-> stderr names
                    the startup errors, rep |-> every logged error text is on stderr]                run() is over
     [k |-> "end", exited |-> BOOLEAN, handlers |-> <<class names of mitmproxy log handlers still installed>>]
                                              last record; what was left has been cancelled as asyncio.run does
   op records are written at quiescent points (the loop has nothing left to run), except inside a burst. *)
EXTENDS Verif

NoCfg == [ks |-> FALSE, rk |-> "none", rn |-> 0, fh |-> "sync", cn |-> 0, conc |-> 1, sn |-> 0, setup |-> "ok",
          err |-> "none", rs |-> "path", rf |-> "", mode |-> "regular", rep |-> FALSE, rt |-> ""]
MonInit == [bad |-> <<>>, wit |-> {}, cfg |-> NoCfg, started |-> FALSE, setupEnd |-> FALSE, shutReq |-> FALSE,
            cancelReq |-> FALSE, ran |-> {}, dn |-> {}, exited |-> FALSE, post |-> FALSE, serr |-> FALSE,
            rdone |-> 0, cfin |-> {}, served |-> 0, conns |-> 0, idle |-> 0, late |-> 0, kt |-> 0, rlast |-> 0,
            crashes |-> 0, unlogged |-> FALSE]

WorkOpts(c) == c.rk # "none" \/ c.cn > 0 \/ c.sn > 0
IsTcp(c, i) == c.rt = "mixed" /\ i % 3 = 2                  \* mixed files: flows 2, 5, .. are TCP flows
\* readfile_filter of the scenarios ("odd"): a URL filter matching the odd-numbered HTTP flows
Match(c, i) == c.rf = "" \/ (i % 2 = 1 /\ ~IsTcp(c, i))
ExpCount(c) == Cardinality({i \in 1..c.rn : Match(c, i)})
\* what the run still has to wait for (independent of the code's own counters: what the addons and the environment saw)
PendKind(m) == IF m.cfg.rk \in {"ok", "corrupt"} /\ m.rdone < ExpCount(m.cfg) THEN "read"
               ELSE IF Cardinality(m.cfin) < m.cfg.cn THEN "client"
               ELSE IF m.served < m.cfg.sn THEN "server"
               ELSE IF m.conns > 0 THEN "conn" ELSE "none"
PendSig(m) == <<PendKind(m), IF PendKind(m) = "client" THEN (IF m.cfg.conc = 1 THEN "serial" ELSE "concurrent") ELSE "-">>
Waiting(m) == m.ran # {} /\ ~m.exited
AskedToEnd(m) == (m.shutReq \/ m.cancelReq) /\ m.started

\* checks made whenever the loop is quiescent (op / end records)
Quiescent(m) ==
  IF m.exited THEN <<>>
  ELSE IF m.unlogged THEN <<"X08.crash_not_logged">>
  ELSE IF m.ran # {} /\ m.ran # {1, 2} THEN <<"X08.running_missing">>
  ELSE IF m.ran # {} /\ m.serr THEN <<"X08.startup_error_ignored", "still_running">>
  ELSE IF m.late >= 1 THEN <<"X08.shutdown_ignored", IF m.ran = {} THEN "during_setup" ELSE "running">>
  ELSE IF m.idle >= 2 THEN <<"X08.no_exit_after_work_done">>
  ELSE <<>>

OnHook(m, ev) ==
  LET flowhook == ev.h \in {"request", "response", "error"}
      b == IF m.exited THEN <<"X08.hook_after_exit", ev.h, ev.src>>
           ELSE IF ev.a \in m.dn THEN (IF ev.h = "done" THEN <<"X08.done_twice">> ELSE <<"X08.hook_after_done", ev.h, ev.src, IF m.dn # m.ran THEN "done_phase" ELSE "all_done">>)
           ELSE IF ev.h = "running" /\ ev.a \in m.ran THEN <<"X08.running_twice">>
           ELSE IF ev.h = "running" /\ ~m.setupEnd THEN <<"X08.running_before_servers_up">>
           ELSE IF ev.h = "running" /\ m.ran = {} /\ m.serr THEN <<"X08.running_despite_startup_error">>
           ELSE IF flowhook /\ m.ran = {} /\ ev.src \in {"r", "c"} THEN <<"X08.flow_before_running", ev.src>>
           ELSE IF ev.src = "r" /\ ev.a = 1 /\ ev.h = "request" /\ ~Match(m.cfg, ev.i)
                THEN <<"X08.read_unexpected_flow", "filtered_out">>
           ELSE IF ev.src = "r" /\ ev.a = 1 /\ ev.h = "request"
                   /\ (ev.i <= m.rlast \/ ev.i > m.cfg.rn \/ \E j \in (m.rlast + 1)..(ev.i - 1) : Match(m.cfg, j))
                THEN <<"X08.read_unexpected_flow", IF ev.i <= m.rlast THEN "repeated_or_reordered" ELSE "skipped">>
           ELSE IF ev.src = "r" /\ ev.a = 1 /\ ev.h = "request" /\ (Get(ev, "p", "http") = "tcp") # IsTcp(m.cfg, ev.i)
                THEN <<"X08.read_unexpected_flow", "wrong_type">>
           ELSE IF ev.src = "r" /\ flowhook /\ Get(ev, "p", "http") = "http" /\ m.cfg.mode = "reverse" /\ Get(ev, "host", "v") # "v"
                THEN <<"X08.loaded_flow_host", "reverse", ev.host>>
           ELSE IF ev.src = "r" /\ flowhook /\ Get(ev, "p", "http") = "http" /\ m.cfg.mode = "regular" /\ Get(ev, "host", "o") # "o"
                THEN <<"X08.loaded_flow_host", "regular", ev.host>>
           ELSE <<>>
      w == (IF ev.h = "running" THEN {"running"} ELSE {})
           \cup (IF ev.h = "done" /\ ev.a \in m.ran THEN {"done"} ELSE {})
           \cup (IF flowhook /\ ev.a \notin m.ran /\ m.ran # {} THEN {"flow_before_own_running"} ELSE {})
           \cup (IF flowhook /\ m.post THEN {"flow_hook_after_startup_" \o ev.src} ELSE {})
           \cup (IF ev.src = "r" /\ ev.h = "request" /\ ev.a = 1
                 THEN (IF m.cfg.rf # "" /\ ev.i > m.rlast + 1 THEN {"read_skipped_filtered_flow"} ELSE {})
                      \cup (IF m.cfg.mode = "reverse" THEN {"read_in_reverse_mode"} ELSE {})
                      \cup (IF m.cfg.rs = "stdin" THEN {"read_from_stdin"} ELSE {})
                      \cup (IF Get(ev, "p", "http") = "tcp" THEN {"read_tcp_flow"} ELSE {})
                 ELSE {})
  IN [m EXCEPT !.bad = b, !.wit = @ \cup w,
               !.ran = IF ev.h = "running" THEN @ \cup {ev.a} ELSE @,
               !.dn = IF ev.h = "done" THEN @ \cup {ev.a} ELSE @,
               !.rlast = IF ev.src = "r" /\ ev.a = 1 /\ ev.h = "request" THEN ev.i ELSE @,
               !.rdone = IF ev.a = 1 /\ ev.h = "response" /\ ev.src = "r" THEN @ + 1 ELSE @,
               !.cfin = IF ev.a = 1 /\ ev.h \in {"response", "error"} /\ ev.src = "c" THEN @ \cup {ev.i} ELSE @]

OnExit(m, ev) ==
  LET b == IF m.exited THEN <<"X08.exit_twice">>
           ELSE IF ev.how \notin {"returned", "SystemExit", "cancelled"} THEN <<"X08.run_raised", ev.how>>
           ELSE IF m.unlogged THEN <<"X08.crash_not_logged">>
           ELSE IF m.ran # {} /\ m.ran # {1, 2} THEN <<"X08.running_missing">>
           ELSE IF m.ran # {} /\ m.dn # m.ran THEN <<"X08.done_missing", ev.how>>
           ELSE IF ev.how = "SystemExit" THEN
                  (IF ~m.serr THEN <<"X08.exit_status_without_startup_error">>
                   ELSE IF ev.code # 1 THEN <<"X08.startup_error_exit_status">>
                   ELSE IF ~Get(ev, "said", TRUE) THEN <<"X08.startup_error_not_explained">>
                   ELSE IF m.cfg.rep /\ ~Get(ev, "rep", TRUE) THEN <<"X08.startup_errors_not_repeated">> ELSE <<>>)
           ELSE IF ev.how = "cancelled" THEN
                  (IF ~m.cancelReq THEN <<"X08.exit_unrequested", "cancelled">> ELSE <<>>)
           ELSE IF m.serr /\ m.ran # {} THEN <<"X08.startup_error_ignored", "returned">>
           ELSE IF AskedToEnd(m) THEN <<>>
           ELSE IF m.ran = {} THEN <<"X08.exit_unrequested", "before_running">>
           ELSE IF m.cfg.ks THEN <<"X08.exit_unrequested", "keepserving">>
           ELSE IF ~WorkOpts(m.cfg) THEN <<"X08.exit_unrequested", "nothing_to_wait_for">>
           ELSE IF PendKind(m) # "none" THEN <<"X08.exit_with_pending_work">> \o PendSig(m)
           ELSE <<>>
      w == IF ev.how = "SystemExit" THEN {IF m.ran = {} THEN "exit_startup_error_before_running" ELSE "exit_startup_error_in_running"}
                                          \cup (IF m.cfg.rep THEN {"startup_errors_repeated"} ELSE {})
           ELSE IF ev.how = "cancelled" THEN {IF m.ran = {} THEN "cancelled_during_setup" ELSE "cancelled_while_running"}
           ELSE IF AskedToEnd(m) THEN {IF m.ran = {} THEN "shutdown_during_setup" ELSE "exit_on_shutdown"}
                                       \cup (IF m.ran # {} /\ PendKind(m) # "none" THEN {"shutdown_with_pending_work"} ELSE {})
           ELSE {"exit_after_work_done"}
  IN [m EXCEPT !.bad = b, !.wit = IF b = <<>> THEN @ \cup w ELSE @, !.exited = TRUE]

OnOp(m, ev) ==
  LET q == IF Get(ev, "b", FALSE) THEN <<>> ELSE Quiescent(m)   \* inside a burst the loop has not run yet
      ok == Get(ev, "ok", TRUE)
      pk == PendKind(m)
      idleNow == Waiting(m) /\ ~m.cfg.ks /\ WorkOpts(m.cfg) /\ pk = "none" /\ ~m.serr
      keptNow == Waiting(m) /\ ~AskedToEnd(m) /\ (m.cfg.ks \/ ~WorkOpts(m.cfg)) /\ pk = "none"
      w == IF ev.op # "tick" \/ ~Waiting(m) THEN {}
           ELSE (IF ~m.cfg.ks /\ WorkOpts(m.cfg) /\ pk # "none" THEN {"waited_for_" \o pk} ELSE {})
                \cup (IF keptNow /\ m.kt >= 1 THEN {IF m.cfg.ks THEN "kept_serving" ELSE "nothing_to_wait_for_keeps_running"} ELSE {})
  IN IF q # <<>> THEN [m EXCEPT !.bad = q]
     ELSE [m EXCEPT !.wit = @ \cup w,
                    !.post = @ \/ m.ran # {},
                    !.started = @ \/ (ev.op = "start" /\ ok),
                    !.crashes = IF ev.op \in {"crash", "crash_msg"} THEN @ + 1 ELSE @,
                    !.unlogged = @ \/ (ev.op \in {"crash", "crash_msg"} /\ ~m.exited),
                    !.shutReq = @ \/ (ev.op = "shutdown" /\ m.started /\ ~m.exited),
                    !.cancelReq = @ \/ (ev.op = "cancel" /\ ok /\ m.started /\ ~m.exited),
                    !.conns = IF ev.op = "conn_open" /\ ok THEN @ + 1
                              ELSE IF ev.op = "conn_close" /\ ok /\ @ > 0 THEN @ - 1 ELSE @,
                    !.idle = IF ev.op = "tick" THEN (IF idleNow THEN @ + 1 ELSE 0) ELSE @,
                    !.kt = IF ev.op = "tick" THEN (IF keptNow THEN @ + 1 ELSE 0) ELSE @,
                    !.late = IF ev.op = "tick" THEN (IF AskedToEnd(m) /\ ~m.exited THEN @ + 1 ELSE 0) ELSE @]

OnEnd(m, ev) ==
  LET q == Quiescent(m) IN
  [m EXCEPT !.bad = IF q # <<>> THEN q
                    ELSE IF AskedToEnd(m) /\ ~m.exited
                         THEN <<"X08.shutdown_ignored", IF m.ran = {} THEN "during_setup" ELSE "running">>
                    ELSE IF m.exited /\ m.dn # {} /\ \E x \in ToSet(Get(ev, "handlers", <<>>)) : x \in {"LegacyLogEvents", "TermLogHandler"}
                         THEN <<"X08.log_handler_left_after_done">>
                    ELSE <<>>,
            !.wit = IF m.exited /\ m.dn # {} THEN @ \cup {"done_phase_over"} ELSE @]

MonStep(m, ev) ==
  IF m.bad # <<>> THEN m ELSE
  CASE ev.k = "cfg" -> [m EXCEPT !.cfg = [ks |-> ev.ks, rk |-> ev.rk, rn |-> ev.rn, fh |-> ev.fh, cn |-> ev.cn,
                                          conc |-> ev.conc, sn |-> ev.sn, setup |-> ev.setup, err |-> ev.err,
                                          rs |-> Get(ev, "rs", "path"), rf |-> Get(ev, "rf", ""),
                                          mode |-> Get(ev, "mode", "regular"), rep |-> Get(ev, "rep", FALSE),
                                          rt |-> Get(ev, "rt", "")]]
    [] ev.k = "op" -> OnOp(m, ev)
    [] ev.k = "setup" -> [m EXCEPT !.setupEnd = @ \/ ev.ph = "end"]
    [] ev.k = "hook" -> OnHook(m, ev)
    [] ev.k = "err" -> [m EXCEPT !.serr = @ \/ (~m.post /\ ~m.exited),
                                 !.unlogged = @ /\ Get(ev, "by", "env") # "code",
                                 !.bad = IF Get(ev, "by", "env") = "code" /\ ~m.exited /\ m.crashes = 0
                                            /\ m.cfg.rk \notin {"missing", "corrupt"} /\ m.cfg.err # "running"
                                         THEN <<"X08.unexplained_error">> ELSE <<>>,
                                 !.wit = @ \cup (IF m.post /\ ~m.exited THEN {"error_after_startup"} ELSE {})
                                           \cup (IF Get(ev, "by", "env") = "code" /\ ~m.exited THEN {"error_logged_by_code"} ELSE {})]
    [] ev.k = "served" -> [m EXCEPT !.served = IF ev.i > 0 THEN @ + 1 ELSE @,
                                    !.wit = @ \cup {IF ev.i > 0 THEN "served_from_recording" ELSE "request_not_from_recording"}]
    [] ev.k = "exit" -> OnExit(m, ev)
    [] ev.k = "end" -> OnEnd(m, ev)
    [] OTHER -> m

Wit(m) == m.wit
=============================================================================
