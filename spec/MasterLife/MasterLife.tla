----------------------------- MODULE MasterLife -----------------------------
(* Implementation-shaped model of the master life cycle of a mitmdump-like tool:
     mitmproxy/master.py            Master.run (three ErrorCheck.shutdown_if_errored calls, the wait on
                                    setup_servers / should_exit, running(), should_exit.wait(), finally: done()),
                                    Master.shutdown, Master._asyncio_exception_handler
     mitmproxy/addons/keepserving.py  KeepServing.running (spawns watch), watch (every 0.1 s), keepgoing
     mitmproxy/addons/errorcheck.py   ErrorCheck (has_errored while installed, sys.exit(1), finish)
     mitmproxy/addons/readfile.py     ReadFile.running -> doread task, readfile.reading
     mitmproxy/addons/clientplayback.py  running -> playback task, replay.client.count (queue + inflight)
     mitmproxy/addons/serverplayback.py  replay.server.count;  proxyserver.active_connections
   One action per environment event; each action runs the code to its next blocking point (the harness lets the loop
   run until nothing is runnable) and emits exactly the records the harness logs for that step.
   Addon chain: core, rec1, keepserving, readfile, clientplayback, serverplayback, proxyserver, rec2, errorcheck.
   The eager task factory (Python >= 3.12) makes the tasks spawned by running handlers run inside the handler up to
   their first real suspension: a file is read between running(rec1) and running(rec2) unless a hook blocks. *)
EXTENDS Mon_MasterLife, TLC
CONSTANTS Cfgs,         \* sequence of scenario classes: the cfg fields of the monitor + feat (enabled env actions) + maxops
          CountsConcurrent  \* TRUE: replay.client.count also counts len(replay_tasks) (repair 24c0b3842, finding X08 F1);
                            \* FALSE: the code before it (concurrency -1: count is 0 once the tasks are spawned)
VARIABLES cfg,          \* the scenario class (chosen in Init)
          pc,           \* where run() is blocked: new | setup | wait | over (run() finished or scenario ended)
          ecOn,         \* ErrorCheck's log handler is installed (until finish())
          errs,         \* ErrorCheck.logger.has_errored is non-empty
          watch,        \* KeepServing.watch task exists
          rd,           \* [st |-> off | held | fin, at |-> position in ExpSeq of the flow whose request hook blocks in rec2]
          cst,          \* client replay: per flow q (queued) | dial | open | fin
          srv,          \* recorded responses served so far (ServerPlayback.flowmap shrinks)
          conns,        \* len(proxyserver.connections)
          nreq,         \* requests the environment has sent on proxy connections
          nops, mon, obs
vars == <<cfg, pc, ecOn, errs, watch, rd, cst, srv, conns, nreq, nops, mon, obs>>

Op(o) == [k |-> "op", op |-> o, ok |-> TRUE, b |-> FALSE]
\* Master.load_flow: with a single reverse mode the flows read from the file get the reverse target as host
\* (HTTP flows only); TCP flows have no host
Tcp(s, i) == s = "r" /\ IsTcp(cfg, i)
HostOf(s, i) == IF s = "" \/ Tcp(s, i) THEN "" ELSE IF s = "r" /\ cfg.mode = "reverse" THEN "v" ELSE "o"
Hk(a, h, s, i) == [k |-> "hook", a |-> a, h |-> h, src |-> s, i |-> i, host |-> HostOf(s, i),
                   p |-> IF s = "" THEN "" ELSE IF Tcp(s, i) THEN "tcp" ELSE "http"]
Both(h, s, i) == <<Hk(1, h, s, i), Hk(2, h, s, i)>>
ErrEv == [k |-> "err", by |-> "code"]
EnvErrEv == [k |-> "err", by |-> "env"]
SetupEv(ph) == [k |-> "setup", ph |-> ph]
\* ErrorCheck.shutdown_if_errored: message on stderr, the errors themselves only with repeat_errors_on_stderr
ExitEv(how, code) == [k |-> "exit", how |-> how, code |-> code, said |-> how = "SystemExit",
                      rep |-> how = "SystemExit" /\ cfg.rep]
\* log handlers on the root logger: ErrorCheck until finish(); LegacyLogEvents and TermLog until Master.done()
Handlers(ec, ms) == (IF ec THEN <<"ErrorCheckHandler">> ELSE <<>>) \o (IF ms THEN <<"LegacyLogEvents", "TermLogHandler">> ELSE <<>>)
EndEv(x, hs) == [k |-> "end", exited |-> x, handlers |-> hs]
CfgEv(c) == [k |-> "cfg", ks |-> c.ks, rk |-> c.rk, rn |-> c.rn, fh |-> c.fh, cn |-> c.cn, conc |-> c.conc,
             sn |-> c.sn, setup |-> c.setup, err |-> c.err, rs |-> c.rs, rf |-> c.rf, mode |-> c.mode, rep |-> c.rep,
             rt |-> c.rt]
\* ReadFile.load_flows: the flows of the file that pass readfile_filter, in file order
ExpSeq == SelectSeq([i \in 1..cfg.rn |-> i], LAMBDA i : Match(cfg, i))

RECURSIVE Cat(_)
Cat(ss) == IF ss = <<>> THEN <<>> ELSE Head(ss) \o Cat(Tail(ss))

\* ReadFile.load_flows from the k-th matching flow on, up to the point where the task suspends (the slow addon holds
\* the request hook of an HTTP flow) or the file ends ("corrupted": warning + error, two errors if nothing was loaded)
RECURSIVE ReadFrom(_)
ReadFrom(k) ==
  IF k > Len(ExpSeq)
  THEN [evs |-> IF cfg.rk # "corrupt" THEN <<>> ELSE IF ExpSeq = <<>> THEN <<ErrEv, ErrEv>> ELSE <<ErrEv>>,
        st |-> "fin", at |-> 0]
  ELSE LET i == ExpSeq[k] IN
       IF cfg.fh = "gate" /\ ~IsTcp(cfg, i) THEN [evs |-> Both("request", "r", i), st |-> "held", at |-> k]
       ELSE LET r == ReadFrom(k + 1) IN [r EXCEPT !.evs = Both("request", "r", i) \o Both("response", "r", i) \o @]
\* ReadFile.running -> doread (eager): what happens before the task first suspends
ReadStart ==
  IF cfg.rk = "none" THEN [evs |-> <<>>, st |-> "off", at |-> 0, err |-> FALSE]
  ELSE IF cfg.rk = "missing"
       THEN [evs |-> <<ErrEv, ErrEv>>, st |-> "fin", at |-> 0, err |-> TRUE]   \* "Cannot load flows" + "Failed to read"
  ELSE LET r == ReadFrom(1) IN [evs |-> r.evs, st |-> r.st, at |-> r.at, err |-> r.st = "fin" /\ cfg.rk = "corrupt"]

\* ClientPlayback.running -> playback task: first flow (concurrency 1) or all of them (-1) reach open_connection
ClientStart == IF cfg.conc = 1 THEN [i \in 1..cfg.cn |-> IF i = 1 THEN "dial" ELSE "q"] ELSE [i \in 1..cfg.cn |-> "dial"]
ClientStartEvs == IF cfg.conc = 1 THEN (IF cfg.cn > 0 THEN Both("request", "c", 1) ELSE <<>>)
                  ELSE Cat([i \in 1..cfg.cn |-> Both("request", "c", i)])
InFlight(c) == {i \in 1..Len(c) : c[i] \in {"dial", "open"}}
\* asyncio.run cancels what is left: every replay in flight fails with an error hook (by flow index)
Teardown(c) == Cat([i \in 1..Len(c) |-> IF i \in InFlight(c) THEN Both("error", "c", i) ELSE <<>>])
\* playback(): after a replay finished, the next queued flow is taken (concurrency 1)
Lowest(S) == CHOOSE x \in S : \A y \in S : x <= y
FinishOne(c, i) ==
  LET c1 == [c EXCEPT ![i] = "fin"]
      qs == {j \in 1..Len(c) : c[j] = "q"} IN
  IF cfg.conc = 1 /\ qs # {} THEN [c |-> [c1 EXCEPT ![Lowest(qs)] = "dial"], evs |-> Both("request", "c", Lowest(qs))]
  ELSE [c |-> c1, evs |-> <<>>]

\* replay.client.count(): queue.qsize() + bool(inflight) + len(replay_tasks); with concurrency -1 the queue is drained
\* into tasks at once and inflight is reset right after each spawn, so only replay_tasks keeps the count up
CpCount == IF cfg.conc = 1 \/ CountsConcurrent THEN Cardinality({i \in 1..Len(cst) : cst[i] # "fin"}) ELSE 0
KeepGoing == rd.st = "held" \/ CpCount > 0 \/ srv < cfg.sn \/ conns > 0
WatchWanted == ~cfg.ks /\ (cfg.rk # "none" \/ cfg.cn > 0 \/ cfg.sn > 0)

Emit(evs) == obs' = evs /\ mon' = FoldEvents(MonStep, mon, evs)
Live == mon.bad = <<>> /\ pc # "over"
Can(a) == a \in cfg.feat /\ nops < cfg.maxops

\* run() finishes: the exit record, then what the cancellation of the remaining tasks makes addons see, then end
Over(evs, how, code, c, dn) ==
  /\ pc' = "over"
  /\ Emit(evs \o <<ExitEv(how, code)>> \o Teardown(c) \o <<EndEv(TRUE, Handlers(ecOn, ~dn))>>)
DoneEvs == <<Hk(1, "done", "", 0), Hk(2, "done", "", 0)>>

\* Master.run from "servers are up" on: second error check, running(), third error check + finish, should_exit.wait()
RunPhase(pre) ==
  IF errs THEN /\ Over(pre, "SystemExit", 1, cst, FALSE) /\ UNCHANGED <<ecOn, errs, watch, rd, cst>>
  ELSE LET r == ReadStart
           evs == pre \o <<Hk(1, "running", "", 0)>> \o r.evs \o <<Hk(2, "running", "", 0)>>
                  \o (IF cfg.err = "running" THEN <<ErrEv>> ELSE <<>>) \o ClientStartEvs
           failed == r.err \/ cfg.err = "running" IN
       /\ rd' = [st |-> r.st, at |-> r.at]
       /\ cst' = ClientStart
       /\ watch' = WatchWanted
       /\ errs' = failed
       /\ IF failed THEN /\ Over(evs \o DoneEvs, "SystemExit", 1, ClientStart, TRUE) /\ UNCHANGED ecOn
          ELSE /\ pc' = "wait" /\ ecOn' = FALSE /\ Emit(evs)

Init == /\ \E c \in 1..Len(Cfgs) : cfg = Cfgs[c]
        /\ pc = "new" /\ ecOn = TRUE /\ errs = (cfg.err = "pre") /\ watch = FALSE
        /\ rd = [st |-> "off", at |-> 0] /\ cst = <<>> /\ srv = 0 /\ conns = 0 /\ nreq = 0 /\ nops = 0
        /\ obs = <<CfgEv(cfg)>> \o (IF cfg.err = "pre" THEN <<EnvErrEv>> ELSE <<>>)
        /\ mon = FoldEvents(MonStep, MonInit, obs)

Start ==   \* asyncio.run(main()) reaches master.run()
  /\ Live /\ pc = "new" /\ nops' = nops + 1
  /\ UNCHANGED <<cfg, srv, conns, nreq>>
  /\ IF errs THEN /\ Over(<<Op("start")>>, "SystemExit", 1, cst, FALSE) /\ UNCHANGED <<ecOn, errs, watch, rd, cst>>
     ELSE IF cfg.setup = "slow"
          THEN /\ pc' = "setup" /\ Emit(<<Op("start"), SetupEv("begin")>>) /\ UNCHANGED <<ecOn, errs, watch, rd, cst>>
     ELSE IF cfg.setup = "fail"
          THEN /\ errs' = TRUE /\ Over(<<Op("start"), SetupEv("begin"), EnvErrEv>>, "SystemExit", 1, cst, FALSE)
               /\ UNCHANGED <<ecOn, watch, rd, cst>>
     ELSE RunPhase(<<Op("start"), SetupEv("begin"), SetupEv("end")>>)

SetupOk ==   \* setup_servers returns True
  /\ Live /\ pc = "setup" /\ Can("setup") /\ nops' = nops + 1
  /\ UNCHANGED <<cfg, srv, conns, nreq>>
  /\ RunPhase(<<Op("setup_ok"), SetupEv("end")>>)

SetupFail ==   \* a server cannot be started: logged as an error, setup_servers returns False
  /\ Live /\ pc = "setup" /\ Can("setup") /\ nops' = nops + 1
  /\ errs' = TRUE
  /\ UNCHANGED <<cfg, srv, conns, nreq, ecOn, watch, rd, cst>>
  /\ Over(<<Op("setup_fail"), EnvErrEv>>, "SystemExit", 1, cst, FALSE)

Shutdown ==   \* Master.shutdown(): should_exit is set
  /\ Live /\ pc \in {"setup", "wait"} /\ Can("shutdown") /\ nops' = nops + 1
  /\ UNCHANGED <<cfg, srv, conns, nreq, ecOn, errs, watch, rd, cst>>
  /\ Over(<<Op("shutdown")>> \o (IF pc = "wait" THEN DoneEvs ELSE <<>>), "returned", 0, cst, pc = "wait")

Cancel ==   \* the task running run() is cancelled (KeyboardInterrupt / sys.exit elsewhere): finally: done()
  /\ Live /\ pc \in {"setup", "wait"} /\ Can("cancel") /\ nops' = nops + 1
  /\ UNCHANGED <<cfg, srv, conns, nreq, ecOn, errs, watch, rd, cst>>
  /\ Over(<<Op("cancel")>> \o (IF pc = "wait" THEN DoneEvs ELSE <<>>), "cancelled", 0, cst, pc = "wait")

LogErr ==   \* some addon logs an error
  /\ Live /\ pc \in {"new", "setup", "wait"} /\ Can("logerr") /\ nops' = nops + 1
  /\ errs' = (errs \/ ecOn)
  /\ UNCHANGED <<cfg, pc, srv, conns, nreq, ecOn, watch, rd, cst>>
  /\ Emit(<<Op("logerr"), EnvErrEv>>)

Crash ==   \* an unhandled exception reaches Master._asyncio_exception_handler: logged, nothing else
  /\ Live /\ pc \in {"setup", "wait"} /\ Can("crash") /\ nops' = nops + 1
  /\ errs' = (errs \/ ecOn)
  /\ UNCHANGED <<cfg, pc, srv, conns, nreq, ecOn, watch, rd, cst>>
  /\ Emit(<<Op("crash"), ErrEv>>)

CrashMsg ==   \* ... the same for a context without an exception ("Unhandled asyncio error")
  /\ Live /\ pc \in {"setup", "wait"} /\ Can("crash") /\ nops' = nops + 1
  /\ errs' = (errs \/ ecOn)
  /\ UNCHANGED <<cfg, pc, srv, conns, nreq, ecOn, watch, rd, cst>>
  /\ Emit(<<Op("crash_msg"), ErrEv>>)

Tick ==   \* 105 ms pass: KeepServing.watch wakes once; not keepgoing() -> shutdown()
  /\ Live /\ pc \in {"setup", "wait"} /\ Can("tick") /\ nops' = nops + 1
  /\ UNCHANGED <<cfg, srv, conns, nreq, ecOn, errs, watch, rd, cst>>
  /\ IF pc = "wait" /\ watch /\ ~KeepGoing THEN Over(<<Op("tick")>> \o DoneEvs, "returned", 0, cst, TRUE)
     ELSE /\ Emit(<<Op("tick")>>) /\ UNCHANGED pc

Release ==   \* the slow addon lets the flow go on: rest of its hooks, then the next flow or the end of the file
  /\ Live /\ pc = "wait" /\ rd.st = "held" /\ Can("release") /\ nops' = nops + 1
  /\ UNCHANGED <<cfg, pc, srv, conns, nreq, ecOn, errs, watch, cst>>
  /\ LET r == ReadFrom(rd.at + 1) IN
     /\ rd' = [st |-> r.st, at |-> r.at]
     /\ Emit(<<Op("release")>> \o Both("response", "r", ExpSeq[rd.at]) \o r.evs)

DialOk ==   \* the oldest pending upstream connection attempt succeeds: the request is sent
  /\ Live /\ pc = "wait" /\ Can("dial") /\ nops' = nops + 1
  /\ {i \in 1..Len(cst) : cst[i] = "dial"} # {}
  /\ cst' = [cst EXCEPT ![Lowest({i \in 1..Len(cst) : cst[i] = "dial"})] = "open"]
  /\ UNCHANGED <<cfg, pc, srv, conns, nreq, ecOn, errs, watch, rd>>
  /\ Emit(<<Op("dial_ok")>>)

DialFail ==   \* ... is refused: error hook, the replay is over
  /\ Live /\ pc = "wait" /\ Can("dial") /\ nops' = nops + 1
  /\ {i \in 1..Len(cst) : cst[i] = "dial"} # {}
  /\ LET i == Lowest({j \in 1..Len(cst) : cst[j] = "dial"})  f == FinishOne(cst, i) IN
     /\ cst' = f.c
     /\ Emit(<<Op("dial_fail")>> \o Both("error", "c", i) \o f.evs)
  /\ UNCHANGED <<cfg, pc, srv, conns, nreq, ecOn, errs, watch, rd>>

Respond ==   \* the server answers on the oldest open connection: response hook, the replay is over
  /\ Live /\ pc = "wait" /\ Can("respond") /\ nops' = nops + 1
  /\ {i \in 1..Len(cst) : cst[i] = "open"} # {}
  /\ LET i == Lowest({j \in 1..Len(cst) : cst[j] = "open"})  f == FinishOne(cst, i) IN
     /\ cst' = f.c
     /\ Emit(<<Op("respond")>> \o Both("response", "c", i) \o f.evs)
  /\ UNCHANGED <<cfg, pc, srv, conns, nreq, ecOn, errs, watch, rd>>

ConnOpen ==   \* a client connects: Proxyserver.register_connection
  /\ Live /\ pc = "wait" /\ Can("conn") /\ conns < 2 /\ nops' = nops + 1
  /\ conns' = conns + 1
  /\ UNCHANGED <<cfg, pc, srv, nreq, ecOn, errs, watch, rd, cst>>
  /\ Emit(<<Op("conn_open")>>)

ConnReq ==   \* a request on an open connection: ServerPlayback.request serves the next recording, if any is left
  /\ Live /\ pc = "wait" /\ Can("conn") /\ conns > 0 /\ nops' = nops + 1
  /\ nreq' = nreq + 1
  /\ srv' = IF srv < cfg.sn THEN srv + 1 ELSE srv
  /\ UNCHANGED <<cfg, pc, conns, ecOn, errs, watch, rd, cst>>
  /\ Emit(<<Op("conn_req")>> \o Both("request", "s", nreq + 1)
          \o <<[k |-> "served", i |-> IF srv < cfg.sn /\ nreq + 1 = srv + 1 THEN srv + 1 ELSE 0]>>)

ConnClose ==
  /\ Live /\ pc = "wait" /\ Can("conn") /\ conns > 0 /\ nops' = nops + 1
  /\ conns' = conns - 1
  /\ UNCHANGED <<cfg, pc, srv, nreq, ecOn, errs, watch, rd, cst>>
  /\ Emit(<<Op("conn_close")>>)

End ==   \* the scenario stops observing while the master is still up
  /\ Live /\ pc \in {"setup", "wait"} /\ nops' = nops
  /\ pc' = "over"
  /\ UNCHANGED <<cfg, srv, conns, nreq, ecOn, errs, watch, rd, cst>>
  /\ Emit(<<EndEv(FALSE, Handlers(ecOn, TRUE))>>)

Next == \/ Start \/ SetupOk \/ SetupFail \/ Shutdown \/ Cancel \/ LogErr \/ Crash \/ CrashMsg \/ Tick \/ Release
        \/ DialOk \/ DialFail \/ Respond \/ ConnOpen \/ ConnReq \/ ConnClose \/ End
Spec == Init /\ [][Next]_vars

Report == mon.bad # <<>> => PrintT(<<"BAD", mon.bad>>)
\* design-level facts about the model itself
WatchOnlyWhenWanted == watch => WatchWanted
ErrorCheckOffWhileWaiting == pc = "wait" => ~ecOn /\ ~errs
=============================================================================
