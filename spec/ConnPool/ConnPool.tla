------------------------------ MODULE ConnPool ------------------------------
(* Implementation-shaped model of the upstream connection pool of one client connection:
   mitmproxy/proxy/layers/http/__init__.py  HttpLayer.get_connection / register_connection / HttpClient,
   GetHttpConnection.connection_spec_matches, HttpStream.make_server_connection,
   mitmproxy/proxy/tunnel.py + layers/http/_upstream_proxy.py + layers/tls.py (who gets .error on which failure),
   mitmproxy/connection.py Server.__setattr__.

   conns is HttpLayer.connections restricted to Server objects, in dict (insertion) order.  An entry is either a
   logical HTTP connection ("log": the Server that GetHttpConnection creates; key of waiting_for_establishment) or
   the TCP connection to an upstream proxy ("phys": the http_proxy Server that HttpUpstreamProxy.make creates and
   that event_to_child registers when it sees its OpenConnection).  Both kinds are Server objects, so both are
   candidates of the reuse scan.

   One client request = Request (request line .. request hook .. GetHttpConnection handled synchronously).
   Establishment of a connection (TCP, proxy TLS, CONNECT, TLS) is one environment action Estab with its outcome.  *)
EXTENDS Mon_ConnPool
CONSTANTS Configs,      \* sequence of configurations of the client connection (one is chosen in Init), each a record:
                        \*   dests     sequence of destinations [addr, tls, via, tp] a request can have
                        \*   inflight  1: HTTP/1 client (no pipelining); >1: HTTP/2 client
                        \*   h2        client speaks HTTP/2 (context.client.alpn = h2)
                        \*   upstream  HTTPMode.upstream (plain requests go to the proxy without CONNECT, absolute-form)
                        \*   ctxdest   0, or the index of the destination equal to the spec of the context connection
                        \*             (transparent mode, connection_strategy=eager: connected, physical connection 1)
                        \*   h2addrs   addresses whose TLS servers select h2 when it is offered
          MaxReq,       \* requests per client connection
          Outcomes,     \* establishment outcomes the environment may choose
          MaxClose, MaxSetAttr
VARIABLES cfg, conns, reqs, nphys, ctx, closes, sets, over, mon, obs
vars == <<cfg, conns, reqs, nphys, ctx, closes, sets, over, mon, obs>>

Dests == Configs[cfg].dests
MaxInflight == Configs[cfg].inflight
ClientH2 == Configs[cfg].h2
Upstream == Configs[cfg].upstream
CtxDest == Configs[cfg].ctxdest
H2Addrs == Configs[cfg].h2addrs

Init == /\ cfg \in 1..Len(Configs)
        /\ conns = <<>> /\ reqs = <<>>
        /\ nphys = IF CtxDest # 0 THEN 1 ELSE 0
        /\ ctx = IF CtxDest # 0 THEN "open" ELSE "none"
        /\ closes = 0 /\ sets = 0 /\ over = "no" /\ mon = MonInit /\ obs = <<>>

Live == mon.bad = <<>> /\ over = "no"
Emit(evs) == obs' = evs /\ mon' = FoldEvents(MonStep, mon, evs)

IsVia(x) == x.via.s # "none"
SendConnect(x) == x.tls \/ ~Upstream              \* get_connection: send_connect = event.tls or mode != upstream
SpecOf(x) == [addr |-> x.addr, tls |-> x.tls, via |-> x.via, tp |-> x.tp]   \* connection_spec_matches compares these

\* the route a head written to logical connection x takes, as the peers see it
HeadRec(w, r, x) ==
  LET d == Dests[w.reqs[r].d] IN
  [k |-> "head", r |-> r, c |-> x.c, live |-> TRUE, proto |-> IF x.h2 THEN "h2" ELSE "h1",
   tcp |-> IF IsVia(x) THEN x.via.a ELSE x.addr,
   tp |-> IF IsVia(x) THEN "tcp" ELSE x.tp,
   tls0 |-> IF IsVia(x) THEN x.via.s = "https" ELSE x.tls,
   connect |-> IF IsVia(x) /\ SendConnect(x) THEN x.addr ELSE "none",
   tls1 |-> IsVia(x) /\ x.tls,
   url |-> IF Upstream /\ ~x.h2 THEN d.addr ELSE "none"]     \* upstream mode keeps the absolute-form target

\* w = [conns, reqs, nphys, ctx, over, out]: what one feed changes, plus the records it emits
ReplyOk(w, r, i) ==       \* GetHttpConnectionCompleted(cmd, (connection, None)); the stream writes the request head
  LET j == IF w.conns[i].k = "phys" THEN w.conns[i].own ELSE i IN
  [w EXCEPT !.reqs[r].st = "sent", !.reqs[r].at = j, !.out = Append(@, HeadRec(w, r, w.conns[j]))]
ReplyErr(w, r) ==         \* GetHttpConnectionCompleted(cmd, (None, err)) -> 502 to the client
  [w EXCEPT !.reqs[r].st = "failed", !.out = Append(@, [k |-> "fail", r |-> r, sent |-> FALSE]),
            !.over = IF ClientH2 THEN @ ELSE "client_closed"]      \* Http1Server closes the client after an error page

NewConn(w, r) ==          \* tail of get_connection: new Server, layer stack, Start -> OpenConnection
  LET d == Dests[w.reqs[r].d]
      n == Len(w.conns)
      c == w.nphys + 1
      log == [k |-> "log", addr |-> d.addr, tls |-> d.tls, via |-> d.via, tp |-> d.tp, st |-> "pending", err |-> FALSE,
              h2 |-> FALSE, c |-> c, wait |-> <<r>>, own |-> IF IsVia(d) THEN n + 2 ELSE 0]
      phys == [k |-> "phys", addr |-> d.via.a, tls |-> d.via.s = "https", via |-> NoVia, tp |-> "tcp", st |-> "pending",
               err |-> FALSE, h2 |-> FALSE, c |-> c, wait |-> <<>>, own |-> n + 1]
  IN [w EXCEPT !.conns = IF IsVia(d) THEN @ \o <<log, phys>> ELSE Append(@, log), !.nphys = c,
               !.out = Append(@, [k |-> "open", c |-> c, tcp |-> IF IsVia(d) THEN d.via.a ELSE d.addr,
                                  tp |-> IF IsVia(d) THEN "tcp" ELSE d.tp, live |-> TRUE])]

NoReuse(w, r) ==          \* context_connection_matches / can_use_context_connection
  IF CtxDest # 0 /\ w.ctx = "open" /\ w.reqs[r].d = CtxDest
    THEN LET d == Dests[CtxDest]
             e == [k |-> "log", addr |-> d.addr, tls |-> d.tls, via |-> d.via, tp |-> d.tp, st |-> "open", err |-> FALSE,
                   h2 |-> FALSE, c |-> 1, wait |-> <<>>, own |-> 0]
         IN ReplyOk([w EXCEPT !.conns = Append(@, e), !.ctx = "used"], r, Len(w.conns) + 1)
    ELSE NewConn(w, r)

RECURSIVE Scan(_, _, _)
Scan(w, r, i) ==          \* for connection in self.connections: ...
  IF i > Len(w.conns) THEN NoReuse(w, r)
  ELSE LET x == w.conns[i] IN
    IF SpecOf(x) # Dests[w.reqs[r].d] THEN Scan(w, r, i + 1)
    ELSE IF x.k = "log" /\ x.st = "pending"      \* connection in self.waiting_for_establishment
      THEN [w EXCEPT !.conns[i].wait = Append(@, r)]
    ELSE IF x.err THEN ReplyErr(w, r)            \* elif connection.error
    ELSE IF x.st = "open"                        \* elif connection.connected
      THEN IF ClientH2 /\ ~x.h2 THEN Scan(w, r, i + 1) ELSE ReplyOk(w, r, i)
    ELSE Scan(w, r, i + 1)                       \* at least half-closed: we want a new one
GetConn(w, r, reuse) == IF reuse THEN Scan(w, r, 1) ELSE NoReuse(w, r)

RECURSIVE ReplyAll(_, _, _), Again(_, _), FailAll(_, _)
ReplyAll(w, rs, j) == IF rs = <<>> THEN w ELSE ReplyAll(ReplyOk(w, Head(rs), j), Tail(rs), j)
Again(w, rs) == IF rs = <<>> THEN w ELSE Again(GetConn(w, Head(rs), FALSE), Tail(rs))
FailAll(w, rs) == IF rs = <<>> THEN w ELSE FailAll(ReplyErr(w, Head(rs)), Tail(rs))

W0(first) == [conns |-> conns, reqs |-> reqs, nphys |-> nphys, ctx |-> ctx, over |-> over, out |-> first]
Commit(w) == /\ UNCHANGED cfg /\ conns' = w.conns /\ reqs' = w.reqs /\ nphys' = w.nphys /\ ctx' = w.ctx /\ over' = w.over
             /\ Emit(w.out)

Inflight == Cardinality({r \in 1..Len(reqs) : reqs[r].st \in {"wait", "sent"}})

\* the client sends request r; the addon leaves it with destination Dests[di]; make_server_connection
Request(di) ==
  /\ Live /\ di <= Len(Dests) /\ Len(reqs) < MaxReq /\ Inflight < MaxInflight
  /\ LET r == Len(reqs) + 1
         d == Dests[di]
         w == [W0(<<[k |-> "req", r |-> r],
                    [k |-> "dest", r |-> r, addr |-> d.addr, tls |-> d.tls, via |-> d.via, tp |-> d.tp]>>)
               EXCEPT !.reqs = Append(@, [d |-> di, st |-> "wait", at |-> 0])]
     IN Commit(GetConn(w, r, TRUE))
  /\ UNCHANGED <<closes, sets>>

Applicable(x, o) ==
  CASE o \in {"ok", "tcp_fail"} -> TRUE
    [] o = "tls0_fail" -> IF IsVia(x) THEN x.via.s = "https" ELSE x.tls
    [] o = "refused" -> IsVia(x) /\ SendConnect(x)
    [] o = "tls1_fail" -> IsVia(x) /\ x.tls
    [] OTHER -> FALSE

\* the attempt for physical connection c ends: HttpClient gets OpenConnectionCompleted, yields RegisterHttpConnection
Estab(c, o) ==
  /\ Live /\ o \in Outcomes
  /\ \E j \in 1..Len(conns) :
       LET x == conns[j] IN
       /\ x.k = "log" /\ x.c = c /\ x.st = "pending" /\ Applicable(x, o)
       /\ LET first == <<[k |-> "estab", c |-> c, out |-> o]>>
              isH2 == ClientH2 /\ x.tls /\ x.addr \in H2Addrs        \* ALPN: offered iff the client is h2
              \* who carries .error afterwards: server.py sets it on the Server of a failed OpenConnection,
              \* TLSLayer.on_handshake_error on the connection whose TLS failed; a refused CONNECT sets none
              logErr == IF IsVia(x) THEN o = "tls1_fail" ELSE o \in {"tcp_fail", "tls0_fail"}
              physErr == IsVia(x) /\ o \in {"tcp_fail", "tls0_fail"}
              st2 == IF o = "ok" THEN "open" ELSE "closed"
              cs1 == [conns EXCEPT ![j].st = st2, ![j].err = logErr, ![j].h2 = (o = "ok" /\ isH2), ![j].wait = <<>>]
              cs2 == IF IsVia(x) THEN [cs1 EXCEPT ![x.own].st = st2, ![x.own].err = physErr] ELSE cs1
              w == [W0(first) EXCEPT !.conns = cs2]
          IN IF o # "ok" THEN Commit(FailAll(w, x.wait))
             ELSE IF ClientH2 /\ ~isH2     \* register_connection: the tricky multiplexing edge case
               THEN Commit(Again(ReplyOk(w, Head(x.wait), j), Tail(x.wait)))
             ELSE Commit(ReplyAll(w, x.wait, j))
  /\ UNCHANGED <<closes, sets>>

CloseEntry(cs, j) ==
  LET cs1 == [cs EXCEPT ![j].st = "closed"] IN
  IF cs[j].own # 0 THEN [cs1 EXCEPT ![cs[j].own].st = "closed"] ELSE cs1

\* the server answers request r completely (Content-Length: 0, keep-alive)
Respond(r) ==
  /\ Live /\ r \in 1..Len(reqs) /\ reqs[r].st = "sent" /\ conns[reqs[r].at].st = "open"
  /\ LET j == reqs[r].at IN
     /\ reqs' = [reqs EXCEPT ![r].st = "done"]
     \* Http1Client.mark_done: an upstream HTTP/1 connection serves one request of an h2 client, then is closed
     /\ conns' = IF ClientH2 /\ ~conns[j].h2 THEN CloseEntry(conns, j) ELSE conns
  /\ Emit(<<[k |-> "resp", r |-> r]>>)
  /\ UNCHANGED <<cfg, nphys, ctx, closes, sets, over>>

RECURSIVE FailSent(_, _, _)
FailSent(w, j, r) ==      \* ResponseProtocolError for every request in flight on j, in stream order
  IF r > Len(w.reqs) THEN w
  ELSE IF w.reqs[r].st = "sent" /\ w.reqs[r].at = j
    THEN FailSent([w EXCEPT !.reqs[r].st = "failed", !.out = Append(@, [k |-> "fail", r |-> r, sent |-> TRUE]),
                            !.over = IF ClientH2 THEN @ ELSE "client_closed"], j, r + 1)
  ELSE FailSent(w, j, r + 1)

\* the peer of physical connection c closes it
PeerClose(c) ==
  /\ Live /\ closes < MaxClose /\ closes' = closes + 1
  /\ \/ \E j \in 1..Len(conns) :
          /\ conns[j].k = "log" /\ conns[j].c = c /\ conns[j].st = "open"
          /\ Commit(FailSent([W0(<<[k |-> "close", c |-> c]>>) EXCEPT !.conns = CloseEntry(conns, j)], j, 1))
     \/ /\ c = 1 /\ ctx = "open"      \* HttpLayer: the peer closed a context connection we never used
        /\ ctx' = "closed" /\ Emit(<<[k |-> "close", c |-> c]>>) /\ UNCHANGED <<cfg, conns, reqs, nphys, over>>
  /\ UNCHANGED sets

\* an addon assigns to server_conn.address / .via of the connection request r was written to
SetAttr(r, attr) ==
  /\ Live /\ sets < MaxSetAttr /\ sets' = sets + 1
  /\ r \in 1..Len(reqs) /\ reqs[r].st \in {"sent", "done"} /\ conns[reqs[r].at].st = "open"
  /\ Emit(<<[k |-> "setattr", c |-> conns[reqs[r].at].c, attr |-> attr, open |-> TRUE, changed |-> FALSE,
             raised |-> TRUE]>>)      \* Server.__setattr__ refuses
  /\ UNCHANGED <<cfg, conns, reqs, nphys, ctx, closes, over>>

\* (constant bounds: TLC then labels the edges of the state graph with the action name and its arguments)
MaxPhys == 2 * MaxReq + 1
MaxDests == 12
Next == \/ \E di \in 1..MaxDests : Request(di)
        \/ \E c \in 1..MaxPhys, o \in Outcomes : Estab(c, o)
        \/ \E r \in 1..MaxReq : Respond(r)
        \/ \E c \in 1..MaxPhys : PeerClose(c)
        \/ \E r \in 1..MaxReq, attr \in {"address", "via"} : SetAttr(r, attr)
\* (no Finish action: every prefix of a behaviour is a scenario; the harness closes each trace with an end record)
Spec == Init /\ [][Next]_vars
Report == mon.bad # <<>> => PrintT(<<"BAD", mon.bad>>)
=============================================================================
