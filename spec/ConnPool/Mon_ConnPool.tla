---------------------------- MODULE Mon_ConnPool ----------------------------
(* Monitor for C08: upstream connection reuse never sends a request to the wrong destination.

   Event records (props/C08.py; addresses and proxies are interned to short names, "none" = absent):
     [k |-> "req", r]                          the client sends request r
     [k |-> "dest", r, addr, tls, via, tp]     destination of r when its request hook has completed (after the addon
                                               rewrote it): address, TLS, upstream proxy via = [s, a] (scheme, address;
                                               s = "none": direct), transport protocol
     [k |-> "open", c, tcp, tp, live]          mitmproxy asks for physical connection c to address tcp
     [k |-> "estab", c, out]                   the environment lets the establishment of c end with out: "ok",
                                               "tcp_fail", "tls0_fail" (TLS on the connection), "refused" (CONNECT),
                                               "tls1_fail" (TLS inside the tunnel)
     [k |-> "head", r, c, tcp, tp, tls0, connect, tls1, url, live, proto]
                                               the peer of physical connection c read the head of request r:
                                               c goes to tcp, tls0 = TLS directly on c, connect = target of the CONNECT
                                               tunnel the head travelled in, tls1 = TLS inside that tunnel, url =
                                               authority of an absolute-form request target; live = FALSE: written
                                               to a connection that is not connected
     [k |-> "fail", r, sent]                   the client got an error response for r
     [k |-> "resp", r]  [k |-> "close", c]     the server answers r / closes c
     [k |-> "setattr", c, attr, open, changed, raised]
                                               an addon assigned a different value to attr ("address"|"via") of the
                                               Server object of c; open = it was connected; changed = the value changed
     [k |-> "raised", exc]  [k |-> "end"]                                                                *)
EXTENDS Verif, TLC

NoVia == [s |-> "none", a |-> "none"]

MonInit == [bad |-> <<>>, wit |-> {},
            dest |-> <<>>,        \* r -> destination record  (function, grows)
            failed |-> {},        \* physical connections whose establishment failed
            used |-> {},          \* physical connections that carried a request head
            faildest |-> {},      \* destinations of requests that failed before being written
            inflight |-> {}]      \* requests with a destination and neither head nor failure yet

\* the three ways a head can physically reach a destination
Tunnel(h)  == [addr |-> h.connect, tls |-> h.tls1, via |-> [s |-> IF h.tls0 THEN "https" ELSE "http", a |-> h.tcp], tp |-> h.tp]
Forward(h) == [addr |-> h.url, tls |-> FALSE, via |-> [s |-> IF h.tls0 THEN "https" ELSE "http", a |-> h.tcp], tp |-> h.tp]
Direct(h)  == [addr |-> h.tcp, tls |-> h.tls0, via |-> NoVia, tp |-> h.tp]

Reaches(d, h) ==
  IF h.connect # "none" THEN d = Tunnel(h)
  ELSE d = Direct(h) \/ (h.url # "none" /\ ~h.tls1 /\ d = Forward(h))

\* abstract signature of a mismatch: the first attribute in which the route differs from the destination
Primary(d, h) == IF h.connect # "none" THEN Tunnel(h)
                 ELSE IF d.via.s # "none" /\ h.url # "none" THEN Forward(h) ELSE Direct(h)
Differs(d, h) == LET o == Primary(d, h) IN
                 IF o.via # d.via THEN "via" ELSE IF o.addr # d.addr THEN "address"
                 ELSE IF o.tls # d.tls THEN "tls" ELSE "transport"
\* second signature field: the destination is the very host the tunnel's TCP connection goes to
Shape(d, h) == IF h.connect # "none" /\ d.via.s = "none" /\ d.addr = h.tcp THEN "dest_is_tunnel_proxy" ELSE "other"

D(ev) == [addr |-> ev.addr, tls |-> ev.tls, via |-> ev.via, tp |-> ev.tp]

Clause(m, ev) ==
  CASE ev.k = "head" ->
         IF ev.r \notin DOMAIN m.dest THEN <<"C08.wrong_destination", "unknown_request", "other">>
         ELSE IF ev.c \in m.failed THEN <<"C08.failed_connection_reused">>
         ELSE IF ~Reaches(m.dest[ev.r], ev)
           THEN <<"C08.wrong_destination", Differs(m.dest[ev.r], ev), Shape(m.dest[ev.r], ev)>>
         ELSE <<>>
    [] ev.k = "setattr" ->
         IF ev.open /\ ev.changed THEN <<"C08.changed_while_open", ev.attr>> ELSE <<>>
    [] ev.k = "raised" -> <<"C08.raised", ev.exc>>
    [] OTHER -> <<>>

MonStep(m, ev) ==
  LET m1 == [m EXCEPT !.bad = Clause(m, ev)] IN
  CASE ev.k = "dest" ->
         LET d == D(ev) IN
         [m1 EXCEPT !.dest = (ev.r :> d) @@ @, !.inflight = @ \cup {ev.r},
                    !.wit = @ \cup (IF d \in m.faildest THEN {"same_dest_after_failure"} ELSE {})
                              \cup (IF \E q \in DOMAIN m.dest : m.dest[q].addr = d.addr /\ m.dest[q] # d
                                    THEN {"same_addr_other_spec"} ELSE {})
                              \cup (IF m.inflight # {} THEN {"concurrent_requests"} ELSE {})
                              \cup (IF \E q \in m.inflight : m.dest[q] = d THEN {"concurrent_same_dest"} ELSE {})]
    [] ev.k = "estab" ->
         [m1 EXCEPT !.failed = IF ev.out = "ok" THEN @ ELSE @ \cup {ev.c},
                    !.wit = @ \cup {"estab_" \o ev.out}]
    [] ev.k = "head" ->
         [m1 EXCEPT !.used = @ \cup {ev.c}, !.inflight = @ \ {ev.r},
                    !.wit = @ \cup (IF ev.c \in m.used THEN {"reuse"} ELSE {})
                              \cup (IF ev.connect # "none" THEN {"via_tunnel"}
                                    ELSE IF ev.r \in DOMAIN m.dest /\ m.dest[ev.r].via.s # "none" THEN {"via_forward"}
                                    ELSE {"direct"})
                              \cup (IF ev.tls1 \/ (ev.connect = "none" /\ ev.tls0) THEN {"tls"} ELSE {"plain"})
                              \cup (IF ev.proto = "h2" THEN {"h2_upstream"} ELSE {})]
    [] ev.k = "fail" ->
         [m1 EXCEPT !.inflight = @ \ {ev.r},
                    !.faildest = IF ~ev.sent /\ ev.r \in DOMAIN m.dest THEN @ \cup {m.dest[ev.r]} ELSE @,
                    !.wit = @ \cup (IF ev.sent THEN {"fail_after_sent"} ELSE {"fail_unsent"})]
    [] ev.k = "setattr" ->
         [m1 EXCEPT !.wit = @ \cup (IF ev.open THEN {"setattr_open_" \o ev.attr} ELSE {"setattr_closed"})]
    [] ev.k = "close" -> [m1 EXCEPT !.wit = @ \cup {"peer_close"}]
    [] OTHER -> m1
Wit(m) == m.wit
=============================================================================
