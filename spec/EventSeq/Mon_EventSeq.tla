---------------------------- MODULE Mon_EventSeq ----------------------------
(* X06 (coverage extension, not one of the 54 given properties): stored flows are replayed through the hook
   sequence of their protocol when a flow file is loaded.

   Statement judged here (sources: hook docstrings in mitmproxy/proxy/layers/{http/_hooks,websocket,tcp,udp,dns}.py,
   the comment in Master.load_flow, option help of rfile / readfile_filter, log texts of ReadFile.load_flows, the
   docstring of script.run "all lifecycle events for each flow are simulated"):
     - loading a flow file feeds its flows to the addons in file order, one flow after the other and one hook after
       the other (a hook of a load starts only after the previous handler of that load has finished); with
       readfile_filter only matching flows are loaded ("Read only matching flows."), every matching flow is loaded;
     - the hooks a stored flow goes through are a sequence the live proxy could have produced for that flow:
       HTTP requestheaders, request, [responseheaders, response] | error with the order discipline of C03
       (requestheaders first, each at most once, response and error never both: "Every flow will receive either an
       error or an response event, but not both"); a WebSocket flow then gets websocket_start, one
       websocket_message per stored message, websocket_end; TCP/UDP: start, one message hook per stored message,
       then exactly one of end / error ("either a tcp_error or a tcp_end event, but not both", error iff the flow
       has an error); DNS: dns_request first, dns_response / dns_error only for a flow that has that part;
       a hook about a part (response, error, websocket) only fires while the flow has that part, and a flow that
       has the part gets its hook;
     - every stored message appears exactly once and in order: at the k-th message hook the flow's message list is
       the first k stored messages ("The most recent message will be flow.messages[-1]"), it is empty at the start
       hook, complete at the end hook and as stored once the flow has been loaded;
     - script.run replays the given flows to the script the same way ("all lifecycle events for each flow are
       simulated"), in the given order;
     - in reverse proxy mode (exactly one mode, a reverse: spec) every HTTP flow loaded from a file targets the
       reverse proxy destination (host, port, scheme) from its first hook on; otherwise the target is as stored;
     - a file whose tail is corrupted (garbage, a record that is no flow, a truncated record) fails with
       FlowReadException (through the rfile option: it is logged) after the flows of the intact prefix have been
       loaded; a missing file fails with FlowReadException; an intact file loads without error and load_flows
       returns the number of flows loaded ("loaded %i flows").
   Everything else the model knows (update hooks after every hook, where the count is lost, what an addon exception
   does, the message list of a WebSocket flow before websocket_start) is prediction only.

   Event records (props/X06.py; EventSeq.tla emits the same):
     [k |-> "world", mode, filt, files |-> << [flows |-> << [t, resp, err, ws, msgs, match, sync] .. >>, tail, via] .. >>]
         mode in {"regular", "reverse", "multi", "other"}; flows = the complete records of the file image as read by
         the harness's own codec; msgs = message ids (contents interned per flow in stored order);
         tail in {"clean", "garbage", "nonflow", "cut", "missing"}; via in {"fo", "path", "rfile", "script"}
         (script: the flows of the image are handed to the command script.run, which replays them to one script:
          no filter, no rewrite, no count)
     [k |-> "begin", l]                                 loader l (index into files) is started
     [k |-> "hook", l, f, name, msgs, resp, err, ws, tgt]   a handler starts: flow number f of file l, the flow's message
                                                        ids / parts at that moment; tgt in {"orig", "mode", "other", ""}
     [k |-> "done", l, f, name, pol]                    that handler finishes (pol: what the addon did to the flow)
     [k |-> "update", l, f]                             update hook (prediction only)
     [k |-> "left", l, f, msgs, resp, err, ws, tgt]     the loader has moved past flow f (logged when the next flow's first
                                                        hook or the return of the load shows it): the flow as loaded
     [k |-> "ret", l, cnt, err]                         the load returned cnt / raised err / logged an error ("logged") *)
EXTENDS Verif

WsHooks == {"websocket_start", "websocket_message", "websocket_end"}
HookNames(t) == IF t = "http" THEN {"requestheaders", "request", "responseheaders", "response", "error"} \cup WsHooks
                ELSE IF t = "dns" THEN {"dns_request", "dns_response", "dns_error"}
                ELSE {t \o "_start", t \o "_message", t \o "_end", t \o "_error"}
Role(n) == CASE n \in {"tcp_start", "udp_start", "websocket_start"} -> "start"
             [] n \in {"tcp_message", "udp_message", "websocket_message"} -> "message"
             [] n \in {"tcp_end", "udp_end", "websocket_end"} -> "end"
             [] n \in {"tcp_error", "udp_error"} -> "error"
             [] OTHER -> "none"
Count(seq, S) == Len(SelectSeq(seq, LAMBDA x : x \in S))
Corrupt == {"garbage", "nonflow", "cut"}

NoLd == [begun |-> FALSE, ret |-> FALSE, busy |-> FALSE, cur |-> 0, seq |-> <<>>, left |-> <<>>]
NoWorld == [mode |-> "regular", filt |-> FALSE, files |-> <<>>]
MonInit == [bad |-> <<>>, wit |-> {}, w |-> NoWorld, ld |-> <<>>]

Wanted(w, file, j) == ~w.filt \/ file.via = "script" \/ file.flows[j].match
WantedSet(w, file) == {j \in 1..Len(file.flows) : Wanted(w, file, j)}
ExpTgt(w, file, fl) == IF fl.t # "http" THEN "" ELSE IF w.mode = "reverse" /\ file.via # "script" THEN "mode" ELSE "orig"
Origin(fl) == IF fl.resp /\ fl.err THEN "stored_both" ELSE "set_by_addon"

\* message discipline for the message-carrying hooks (TCP, UDP, WebSocket part of an HTTP flow)
MsgClause(fl, seq, ev) ==
  LET r == Role(ev.name)
      p == IF fl.t = "http" THEN "websocket" ELSE fl.t
      k == Count(seq, {p \o "_message"}) IN
  IF r = "start" /\ ev.msgs # <<>> THEN <<"X06.messages", p, "present_at_start">>
  ELSE IF r = "message" /\ k + 1 > Len(fl.msgs) THEN <<"X06.messages", p, "extra_message">>
  ELSE IF r = "message" /\ (ev.msgs = <<>> \/ ev.msgs[Len(ev.msgs)] # fl.msgs[k + 1])
       THEN <<"X06.messages", p, "last_is_not_current">>
  ELSE IF r = "message" /\ ev.msgs # SubSeq(fl.msgs, 1, k + 1) THEN <<"X06.messages", p, "history_differs">>
  ELSE IF r \in {"end", "error"} /\ k < Len(fl.msgs) THEN <<"X06.messages", p, "message_lost">>
  ELSE IF r \in {"end", "error"} /\ ev.msgs # fl.msgs THEN <<"X06.messages", p, "history_differs">>
  ELSE <<>>

HttpClause(fl, seq, ev) ==
  LET h == ToSet(seq)  n == ev.name IN
  IF n = "requestheaders" /\ h # {} THEN <<"X06.requestheaders_not_first", IF n \in h THEN "twice" ELSE "late">>
  ELSE IF n # "requestheaders" /\ "requestheaders" \notin h THEN <<"X06.hook_before_requestheaders", n>>
  ELSE IF n = "request" /\ "request" \in h THEN <<"X06.request_twice">>
  ELSE IF n \notin {"requestheaders", "request"} /\ "request" \notin h THEN <<"X06.hook_before_request", n>>
  ELSE IF "websocket_end" \in h THEN <<"X06.hook_after_end", "http", n>>
  ELSE IF n \in {"responseheaders", "response"} /\ ~ev.resp THEN <<"X06.hook_without_part", n>>
  ELSE IF n = "error" /\ ~ev.err THEN <<"X06.hook_without_part", n>>
  ELSE IF n \in WsHooks /\ ~ev.ws THEN <<"X06.hook_without_part", n>>
  ELSE IF n = "responseheaders" /\ n \in h THEN <<"X06.responseheaders_twice">>
  ELSE IF n = "responseheaders" /\ "response" \in h THEN <<"X06.responseheaders_after_response">>
  ELSE IF n = "response" /\ "error" \in h THEN <<"X06.response_and_error", "response_after_error", Origin(fl)>>
  ELSE IF n = "error" /\ "response" \in h THEN <<"X06.response_and_error", "error_after_response", Origin(fl)>>
  ELSE IF n \in {"response", "error"} /\ n \in h THEN <<"X06.outcome_twice", n>>
  ELSE IF n \in {"responseheaders", "response", "error"} /\ "websocket_start" \in h
       THEN <<"X06.http_hook_inside_websocket", n>>
  ELSE IF n = "websocket_start" /\ "response" \notin h THEN <<"X06.websocket_before_response">>
  ELSE IF n = "websocket_start" /\ n \in h THEN <<"X06.start_twice", "websocket">>
  ELSE IF n \in {"websocket_message", "websocket_end"} /\ "websocket_start" \notin h
       THEN <<"X06.hook_before_start", "websocket", n>>
  ELSE IF n \in WsHooks THEN MsgClause(fl, seq, ev)
  ELSE <<>>

RawClause(fl, seq, ev) ==
  LET h == ToSet(seq)  n == ev.name  r == Role(n)  t == fl.t IN
  IF r = "start" /\ h # {} THEN <<"X06.start_twice", t>>
  ELSE IF r # "start" /\ t \o "_start" \notin h THEN <<"X06.hook_before_start", t, n>>
  ELSE IF h \cap {t \o "_end", t \o "_error"} # {}
       THEN (IF r \in {"end", "error"} THEN <<"X06.end_and_error", t, n>> ELSE <<"X06.hook_after_end", t, n>>)
  ELSE IF r = "error" /\ ~ev.err THEN <<"X06.hook_without_part", n>>
  ELSE IF r = "end" /\ ev.err THEN <<"X06.end_for_errored_flow", t>>
  ELSE MsgClause(fl, seq, ev)

DnsClause(fl, seq, ev) ==
  LET h == ToSet(seq)  n == ev.name IN
  IF n = "dns_request" /\ h # {} THEN <<"X06.dns_request_not_first">>
  ELSE IF n # "dns_request" /\ "dns_request" \notin h THEN <<"X06.hook_before_dns_request", n>>
  ELSE IF n \in h THEN <<"X06.dns_hook_twice", n>>
  ELSE IF n = "dns_response" /\ ~ev.resp THEN <<"X06.hook_without_part", n>>
  ELSE IF n = "dns_error" /\ ~ev.err THEN <<"X06.hook_without_part", n>>
  ELSE <<>>

HookClause(m, ev) ==
  LET l == ev.l IN
  IF l < 1 \/ l > Len(m.ld) THEN <<"X06.malformed_trace">> ELSE
  LET L == m.ld[l]  file == m.w.files[l]  n == ev.name IN
  IF ~L.begun \/ L.ret THEN <<"X06.hook_outside_load">>
  ELSE IF L.busy THEN <<"X06.hook_overlap", IF ev.f = L.cur THEN "same_flow" ELSE "other_flow">>
  ELSE IF ev.f < 1 \/ ev.f > Len(file.flows) THEN <<"X06.hook_for_unknown_flow">>
  ELSE LET fl == file.flows[ev.f]
           seq == IF ev.f = L.cur THEN L.seq ELSE <<>> IN
    IF ~Wanted(m.w, file, ev.f) THEN <<"X06.filtered_flow_loaded">>
    ELSE IF ev.f < L.cur \/ ev.f \in ToSet(L.left) THEN <<"X06.file_order", "flow_revisited">>
    ELSE IF ev.f > L.cur /\ \E j \in (L.cur + 1)..(ev.f - 1) : Wanted(m.w, file, j)
         THEN <<"X06.file_order", "flow_skipped">>
    ELSE IF n \notin HookNames(fl.t) THEN <<"X06.hook_of_other_protocol", fl.t, n>>
    ELSE IF ev.tgt # ExpTgt(m.w, file, fl) THEN <<"X06.request_target", m.w.mode, ev.tgt>>
    ELSE IF fl.t = "http" THEN HttpClause(fl, seq, ev)
    ELSE IF fl.t = "dns" THEN DnsClause(fl, seq, ev)
    ELSE RawClause(fl, seq, ev)

\* the loader has moved past flow ev.f: everything the flow has must have had its hook
LeftClause(m, ev) ==
  LET l == ev.l IN
  IF l < 1 \/ l > Len(m.ld) THEN <<"X06.malformed_trace">> ELSE
  LET L == m.ld[l]  file == m.w.files[l] IN
  IF ev.f < 1 \/ ev.f > Len(file.flows) \/ ev.f # L.cur THEN <<"X06.malformed_trace">> ELSE
  LET fl == file.flows[ev.f]  h == ToSet(L.seq)  t == fl.t IN
  IF L.busy THEN <<"X06.flow_left_during_hook", t>>
  ELSE IF t = "http" /\ "request" \notin h THEN <<"X06.missing_hook", "request">>
  ELSE IF t = "http" /\ ev.resp /\ (~ev.err \/ ev.ws) /\ "response" \notin h THEN <<"X06.missing_hook", "response">>
  ELSE IF t = "http" /\ ~ev.ws /\ ev.err /\ ~ev.resp /\ "error" \notin h THEN <<"X06.missing_hook", "error">>
  ELSE IF t = "http" /\ ~ev.ws /\ ev.err /\ ev.resp /\ h \cap {"response", "error"} = {} THEN <<"X06.no_outcome", t>>
  ELSE IF t = "http" /\ ev.ws /\ "websocket_end" \notin h THEN <<"X06.missing_hook", "websocket_end">>
  ELSE IF t \in {"tcp", "udp"} /\ h \cap {t \o "_end", t \o "_error"} = {} THEN <<"X06.no_outcome", t>>
  ELSE IF t = "dns" /\ "dns_request" \notin h THEN <<"X06.missing_hook", "dns_request">>
  ELSE IF t = "dns" /\ ev.resp /\ "dns_response" \notin h THEN <<"X06.missing_hook", "dns_response">>
  ELSE IF t = "dns" /\ ev.err /\ "dns_error" \notin h THEN <<"X06.missing_hook", "dns_error">>
  ELSE IF ev.msgs # fl.msgs THEN <<"X06.messages", IF t = "http" THEN "websocket" ELSE t, "not_restored">>
  ELSE IF ev.tgt # ExpTgt(m.w, file, fl) THEN <<"X06.request_target", m.w.mode, ev.tgt>>
  ELSE <<>>

RetClause(m, ev) ==
  LET l == ev.l IN
  IF l < 1 \/ l > Len(m.ld) THEN <<"X06.malformed_trace">> ELSE
  LET L == m.ld[l]  file == m.w.files[l]  want == WantedSet(m.w, file)  got == ToSet(L.left)
      failed == ev.err # ""
      experr == IF file.via = "rfile" THEN "logged" ELSE "FlowReadException" IN
  IF ~L.begun \/ L.ret THEN <<"X06.malformed_trace">>
  ELSE IF L.busy THEN <<"X06.returned_during_hook">>
  ELSE IF L.cur # 0 /\ L.cur \notin got THEN <<"X06.malformed_trace">>
  ELSE IF file.tail = "missing" THEN (IF ev.err # experr THEN <<"X06.missing_file", ev.err>> ELSE <<>>)
  ELSE IF file.tail = "clean" /\ failed THEN <<"X06.intact_file_failed", ev.err>>
  ELSE IF file.tail \in Corrupt /\ ev.err # experr THEN <<"X06.corrupt_file", file.tail, ev.err>>
  ELSE IF want \ got # {} THEN (IF file.tail = "clean" THEN <<"X06.file_order", "flow_skipped">>
                                ELSE <<"X06.intact_prefix_not_loaded", file.tail>>)
  ELSE IF file.tail = "clean" /\ file.via \in {"fo", "path"} /\ ev.cnt # Cardinality(want) THEN <<"X06.count_wrong">>
  ELSE <<>>

HookWit(m, ev) ==
  LET l == ev.l IN
  IF l < 1 \/ l > Len(m.ld) \/ ev.f < 1 \/ ev.f > Len(m.w.files[l].flows) THEN {} ELSE
  LET fl == m.w.files[l].flows[ev.f]  n == ev.name
      other == {j \in 1..Len(m.ld) : j # l /\ m.ld[j].busy} IN
    {n}
    \cup (IF other # {} THEN {"hook_while_other_load_suspended"} ELSE {})
    \cup (IF ev.tgt = "mode" THEN {"reverse_rewrite"} ELSE {})
    \cup (IF ev.tgt = "orig" /\ m.w.mode = "multi" THEN {"multi_mode_no_rewrite"} ELSE {})
    \cup (IF n \in {"response", "responseheaders", "dns_response"} /\ ~fl.resp THEN {"response_set_by_addon"} ELSE {})
    \cup (IF n \in {"error", "dns_error", "tcp_error", "udp_error"} /\ ~fl.err THEN {"error_set_by_addon"} ELSE {})
    \cup (IF Role(n) = "message" /\ Len(ev.msgs) > 1 THEN {"second_message"} ELSE {})
    \cup (IF Role(n) = "end" /\ fl.msgs = <<>> THEN {"end_without_messages"} ELSE {})
    \cup (IF ev.f > 1 /\ ev.f # m.ld[l].cur /\ m.ld[l].cur # 0 THEN {"next_flow"} ELSE {})
    \cup (IF ev.f # m.ld[l].cur /\ \E j \in (m.ld[l].cur + 1)..(ev.f - 1) : ~Wanted(m.w, m.w.files[l], j)
          THEN {"filtered_flow_skipped"} ELSE {})

LeftWit(m, ev) ==
  LET l == ev.l IN
  IF l < 1 \/ l > Len(m.ld) \/ ev.f < 1 \/ ev.f > Len(m.w.files[l].flows) THEN {} ELSE
  LET fl == m.w.files[l].flows[ev.f]  h == ToSet(m.ld[l].seq) IN
    {"left_" \o fl.t}
    \cup (IF fl.t = "http" /\ ~ev.resp /\ ~ev.err /\ ~ev.ws THEN {"http_without_outcome"} ELSE {})
    \cup (IF fl.t = "http" /\ ev.ws /\ ev.err THEN {"websocket_flow_with_error"} ELSE {})
    \cup (IF fl.t = "dns" /\ ev.resp /\ ev.err THEN {"dns_response_and_error"} ELSE {})
    \cup (IF fl.t = "dns" /\ ~ev.resp /\ ~ev.err THEN {"dns_request_only"} ELSE {})
    \cup (IF fl.sync THEN {"sync_handlers"} ELSE {"async_handlers"})

RetWit(m, ev) ==
  LET l == ev.l IN
  IF l < 1 \/ l > Len(m.ld) THEN {} ELSE
  LET file == m.w.files[l]  L == m.ld[l] IN
    {"ret_" \o file.tail, "via_" \o file.via}
    \cup (IF file.tail \in Corrupt /\ L.left # <<>> THEN {"corrupt_after_prefix"} ELSE {})
    \cup (IF file.tail \in Corrupt /\ L.left = <<>> THEN {"corrupt_nothing_loaded"} ELSE {})
    \cup (IF file.tail = "clean" /\ file.flows = <<>> THEN {"empty_file"} ELSE {})
    \cup (IF WantedSet(m.w, file) # 1..Len(file.flows) THEN {"filter_excluded_some"} ELSE {})
    \cup (IF Len(m.ld) > 1 THEN {"two_loads"} ELSE {})

MonStep(m, ev) ==
  IF m.bad # <<>> THEN m ELSE
  CASE ev.k = "world" ->
         [m EXCEPT !.w = [mode |-> ev.mode, filt |-> ev.filt, files |-> ev.files],
                   !.ld = [i \in 1..Len(ev.files) |-> NoLd]]
    [] ev.k = "begin" ->
         IF ev.l < 1 \/ ev.l > Len(m.ld) THEN [m EXCEPT !.bad = <<"X06.malformed_trace">>]
         ELSE [m EXCEPT !.ld[ev.l].begun = TRUE]
    [] ev.k = "hook" ->
         LET b == HookClause(m, ev) IN
         IF b # <<>> THEN [m EXCEPT !.bad = b]
         ELSE LET L == m.ld[ev.l] IN
              [m EXCEPT !.wit = @ \cup HookWit(m, ev),
                        !.ld[ev.l] = [L EXCEPT !.busy = TRUE, !.cur = ev.f,
                                               !.seq = IF ev.f = L.cur THEN Append(L.seq, ev.name) ELSE <<ev.name>>]]
    [] ev.k = "done" ->
         IF ev.l < 1 \/ ev.l > Len(m.ld) THEN [m EXCEPT !.bad = <<"X06.malformed_trace">>]
         ELSE [m EXCEPT !.ld[ev.l].busy = FALSE,
                        !.wit = @ \cup (IF ev.pol # "pass" THEN {"addon_" \o ev.pol} ELSE {})]
    [] ev.k = "left" ->
         LET b == LeftClause(m, ev) IN
         IF b # <<>> THEN [m EXCEPT !.bad = b]
         ELSE [m EXCEPT !.wit = @ \cup LeftWit(m, ev), !.ld[ev.l].left = Append(@, ev.f)]
    [] ev.k = "ret" ->
         LET b == RetClause(m, ev) IN
         IF b # <<>> THEN [m EXCEPT !.bad = b]
         ELSE [m EXCEPT !.wit = @ \cup RetWit(m, ev), !.ld[ev.l].ret = TRUE]
    [] OTHER -> m

Wit(m) == m.wit
=============================================================================
