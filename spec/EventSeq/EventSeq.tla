------------------------------ MODULE EventSeq ------------------------------
(* Implementation-shaped model of loading flow files:
     ReadFile.load_flows_from_path / load_flows / running+doread   (mitmproxy/addons/readfile.py)
     Master.load_flow                                              (mitmproxy/master.py)
     eventsequence.iterate = _iterate_http / _iterate_tcp / _iterate_udp / _iterate_dns   (generators)
     AddonManager.handle_lifecycle (hook, then the update hook)
   A loader is an asyncio task.  One action = one critical section of that task: from its start (Begin) or from
   the completion of the handler it awaits (Release) up to the next handler that suspends, or to the return.
   Inside, the code is stepped statement by statement (Micro): `pc` = where the task is (reader loop / generator /
   suspended in a handler / finished), `g` = the label at which the generator _iterate_x resumes.  The generators
   are lazy: `if f.response`, `elif f.error`, `while messages` are evaluated when the generator is resumed, i.e.
   after the addon (policy) touched the flow.  Flows with `sync` handlers never suspend. *)
EXTENDS Mon_EventSeq, TLC
CONSTANTS Worlds,     \* sequence of [mode, filt, files] records (the scenario is chosen in Init)
          Pols,       \* what the addon may do when a handler completes: "pass", "resp", "noresp", "err", "raise"
          NL          \* max number of concurrent loads
VARIABLES w, ld, mon, obs
vars == <<w, ld, mon, obs>>

Idle == [pc |-> "idle", pos |-> 1, cnt |-> 0, f |-> 0, g |-> "", resp |-> FALSE, err |-> FALSE, ws |-> FALSE,
         q |-> <<>>, msgs |-> <<>>, hook |-> "", tgt |-> ""]
File(l) == w.files[l]
Fl(l, s) == File(l).flows[s.f]

HookEv(l, s, n) == [k |-> "hook", l |-> l, f |-> s.f, name |-> n, msgs |-> s.msgs, resp |-> s.resp, err |-> s.err,
                    ws |-> s.ws, tgt |-> s.tgt]
DoneEv(l, s, pol) == [k |-> "done", l |-> l, f |-> s.f, name |-> s.hook, pol |-> pol]
UpdEv(l, s) == [k |-> "update", l |-> l, f |-> s.f]
LeftEv(l, s) == [k |-> "left", l |-> l, f |-> s.f, msgs |-> s.msgs, resp |-> s.resp, err |-> s.err, ws |-> s.ws,
                 tgt |-> s.tgt]
RetEv(l, cnt, err) == [k |-> "ret", l |-> l, cnt |-> cnt, err |-> err]

\* `yield Hook(f)` -> master.load_flow: await addons.handle_lifecycle(e): the handler starts; a synchronous handler
\* returns at once and trigger_event(UpdateHook) follows, an asynchronous one suspends the task
Yield(l, s, n, g2) ==
  LET s1 == [s EXCEPT !.g = g2, !.hook = n] IN
  IF File(l).via = "script" THEN [s |-> s1, ev |-> <<HookEv(l, s1, n), DoneEv(l, s1, "pass")>>]  \* invoke_addon_sync
  ELSE IF Fl(l, s).sync THEN [s |-> s1, ev |-> <<HookEv(l, s1, n), DoneEv(l, s1, "pass"), UpdEv(l, s1)>>]
  ELSE [s |-> [s1 EXCEPT !.pc = "susp"], ev |-> <<HookEv(l, s1, n)>>]
Goto(s, g2) == [s |-> [s EXCEPT !.g = g2], ev |-> <<>>]
Entry(t) == IF t = "http" THEN "h0" ELSE IF t = "dns" THEN "d0" ELSE "r0"

\* for flow in freader.stream(): filter; await ctx.master.load_flow(flow)    |  end of file / corrupted tail
\* (script.run: for f in flows: for evt in eventsequence.iterate(f): invoke_addon_sync(mod, evt))
ReadStep(l, s) ==
  LET file == File(l) IN
  IF s.pos <= Len(file.flows) THEN
    LET fl == file.flows[s.pos] IN
    IF w.filt /\ ~fl.match /\ file.via # "script" THEN [s |-> [s EXCEPT !.pos = @ + 1], ev |-> <<>>]
    ELSE \* load_flow: single reverse mode rewrites host, port, scheme of an HTTPFlow; iterate(f) is created
      [s |-> [s EXCEPT !.pos = @ + 1, !.f = s.pos, !.pc = "gen", !.g = Entry(fl.t), !.resp = fl.resp, !.err = fl.err,
                       !.ws = fl.ws, !.msgs = fl.msgs, !.q = <<>>, !.hook = "",
                       !.tgt = IF fl.t # "http" THEN ""
                               ELSE IF w.mode = "reverse" /\ file.via # "script" THEN "mode" ELSE "orig"],
       ev |-> <<>>]
  ELSE IF file.tail = "clean"
       THEN [s |-> [s EXCEPT !.pc = "fin"], ev |-> <<RetEv(l, IF file.via \in {"rfile", "script"} THEN 0 ELSE s.cnt, "")>>]
       \* FlowReadException: the count is lost; doread (rfile) logs the exception
       ELSE [s |-> [s EXCEPT !.pc = "fin"],
             ev |-> <<RetEv(l, 0, IF file.via = "rfile" THEN "logged" ELSE "FlowReadException")>>]

\* one statement group of _iterate_http / _iterate_tcp|udp / _iterate_dns, resumed at label s.g
GenStep(l, s) ==
  LET t == Fl(l, s).t IN
  CASE s.g = "h0" -> Yield(l, s, "requestheaders", "h1")                  \* if f.request: (always)
    [] s.g = "h1" -> Yield(l, s, "request", "h2")
    [] s.g = "h2" -> IF s.resp THEN Yield(l, s, "responseheaders", "h3") ELSE Goto(s, "h4")
    [] s.g = "h3" -> Yield(l, s, "response", "h4")
    [] s.g = "h4" -> IF s.ws THEN Yield(l, [s EXCEPT !.q = s.msgs, !.msgs = <<>>], "websocket_start", "w1")
                     ELSE IF s.err THEN Yield(l, s, "error", "end")      \* elif f.error (also after a response)
                     ELSE Goto(s, "end")
    [] s.g = "w1" -> IF s.q # <<>>
                     THEN Yield(l, [s EXCEPT !.msgs = Append(@, Head(s.q)), !.q = Tail(@)], "websocket_message", "w1")
                     ELSE Yield(l, s, "websocket_end", "end")
    [] s.g = "r0" -> Yield(l, [s EXCEPT !.q = s.msgs, !.msgs = <<>>], t \o "_start", "r1")
    [] s.g = "r1" -> IF s.q # <<>>
                     THEN Yield(l, [s EXCEPT !.msgs = Append(@, Head(s.q)), !.q = Tail(@)], t \o "_message", "r1")
                     ELSE IF s.err THEN Yield(l, s, t \o "_error", "end")
                     ELSE Yield(l, s, t \o "_end", "end")
    [] s.g = "d0" -> Yield(l, s, "dns_request", "d1")
    [] s.g = "d1" -> IF s.resp THEN Yield(l, s, "dns_response", "d2") ELSE Goto(s, "d2")
    [] s.g = "d2" -> IF s.err THEN Yield(l, s, "dns_error", "end") ELSE Goto(s, "end")
    \* StopIteration: load_flow returns, cnt += 1, back in the reader loop (the harness now sees the flow as loaded)
    [] OTHER -> [s |-> [s EXCEPT !.pc = "read", !.cnt = @ + 1], ev |-> <<LeftEv(l, s)>>]

Micro(l, s) == IF s.pc = "read" THEN ReadStep(l, s) ELSE GenStep(l, s)
RECURSIVE Run(_, _)
Run(l, s) == IF s.pc \notin {"read", "gen"} THEN [s |-> s, ev |-> <<>>]
             ELSE LET r == Micro(l, s)  r2 == Run(l, r.s) IN [s |-> r2.s, ev |-> r.ev \o r2.ev]

Emit(evs) == obs' = evs /\ mon' = FoldEvents(MonStep, mon, evs)
WorldEv(x) == [k |-> "world", mode |-> x.mode, filt |-> x.filt, files |-> x.files]

Init == /\ w \in ToSet(Worlds) /\ ld = [l \in 1..NL |-> Idle]
        /\ mon = MonStep(MonInit, WorldEv(w)) /\ obs = <<WorldEv(w)>>
Live == mon.bad = <<>>

\* the task is created and runs until its first suspension: load_flows_from_path (open fails for a missing file),
\* load_flows(fo), or running() -> doread (option rfile)
Begin(l) ==
  /\ Live
  /\ l <= Len(w.files) /\ ld[l].pc = "idle"
  /\ LET s0 == IF File(l).tail = "missing" THEN [ld[l] EXCEPT !.pc = "fin"] ELSE [ld[l] EXCEPT !.pc = "read"]
         r == Run(l, s0)
         miss == IF File(l).tail = "missing"
                 THEN <<RetEv(l, 0, IF File(l).via = "rfile" THEN "logged" ELSE "FlowReadException")>> ELSE <<>> IN
     /\ ld' = [ld EXCEPT ![l] = r.s]
     /\ Emit(<<[k |-> "begin", l |-> l]>> \o miss \o r.ev)
  /\ UNCHANGED w

PolOk(s, pol) ==
  CASE pol = "resp" -> ~s.resp /\ s.hook \in {"requestheaders", "request", "dns_request"}
    [] pol = "noresp" -> s.resp /\ ~s.ws /\ s.hook \in {"requestheaders", "request", "dns_request"}
    [] pol = "err" -> ~s.err /\ s.hook \in {"requestheaders", "request", "dns_request", "tcp_start", "tcp_message",
                                            "udp_start", "udp_message"}
    [] OTHER -> TRUE

\* the awaited handler of loader l completes; the addon did `pol` to the flow; then handle_lifecycle triggers update
Release(l, pol) ==
  /\ Live
  /\ l <= Len(w.files) /\ ld[l].pc = "susp" /\ PolOk(ld[l], pol)
  /\ LET s == ld[l]
         s1 == [s EXCEPT !.pc = "gen", !.resp = (@ \/ pol = "resp") /\ pol # "noresp", !.err = @ \/ pol = "err"]
         r == Run(l, s1) IN
     /\ ld' = [ld EXCEPT ![l] = r.s]
     /\ Emit(<<DoneEv(l, s, pol), UpdEv(l, s)>> \o r.ev)
  /\ UNCHANGED w

Next == \/ \E l \in 1..NL : Begin(l)
        \/ \E l \in 1..NL, p \in Pols : Release(l, p)
Spec == Init /\ [][Next]_vars

Report == mon.bad # <<>> => PrintT(<<"BAD", mon.bad>>)
\* design-level facts
Conserve == \A l \in 1..Len(w.files) :
              (ld[l].pc \in {"gen", "susp"} /\ ld[l].g \in {"w1", "r1"}) => ld[l].msgs \o ld[l].q = Fl(l, ld[l]).msgs
CountsLoaded == \A l \in 1..Len(w.files) :
              ld[l].pc = "fin" /\ File(l).tail = "clean" => ld[l].cnt = Cardinality(WantedSet(w, File(l)))
=============================================================================
