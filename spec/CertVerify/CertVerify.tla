----------------------------- MODULE CertVerify -----------------------------
(* Implementation-shaped model of how mitmproxy decides whether an upstream TLS handshake completes.

   A row (constant set Rows) describes one upstream server and the proxy's configuration:
     [peer, chain, validity, naming, idform, idsrc, trust, insecure, path]          (classes, see props/C15.py)
   Up to MaxConns attempts run in one process (they share net.tls.create_proxy_server_context's lru_cache, modelled
   as ctxCache).  One attempt is three critical sections of the real code:

     StartServer(r)  mitmproxy/addons/tlsconfig.py TlsConfig.tls_start_server: verify = VERIFY_NONE iff ssl_insecure;
                     sni = server.sni, else client.sni, else address; SSL.Context from the (cached) factory with the
                     configured CA file/dir (certifi when neither is set); the SSL.Connection is assigned BEFORE the
                     SNI check, so with sni = "" and verification on the hook raises but leaves a connection object
                     that never starts a handshake (the attempt idles until the connection is closed);
                     hostflags = NO_PARTIAL_WILDCARDS | NEVER_CHECK_SUBJECT; set1_host(idna(sni)) or set1_ip(sni).
     Flight          mitmproxy/proxy/layers/tls.py TLSLayer.receive_handshake_data on the server's first flight:
                     OpenSSL builds and checks the chain (Trusted, ValidNow) and matches the identity (NameOK below is
                     a transcription of do_x509_check/wildcard_match for these flags); success -> attributes set,
                     tls_established_server; failure -> conn.error, tls_failed_server, CloseConnection
                     (on_handshake_error), and the child's OpenConnection is answered with the error (tunnel.py).
     Finish          the upper layer sends its request if (and only if) the connection is open; the environment then
                     closes the connection (peer EOF / idle timeout): an attempt still idling fails "connection closed".
*)
EXTENDS Mon_CertVerify, TLC
CONSTANTS Rows, SeqRows, MaxConns
VARIABLES pc, cur, cfg, ctxCache, n, mon, obs
vars == <<pc, cur, cfg, ctxCache, n, mon, obs>>

PayloadLen == 55
NoRow == [peer |-> "none"]
NoCfg == [verify |-> FALSE, check |-> "none", raised |-> FALSE]
Init == /\ pc = "idle" /\ cur = NoRow /\ cfg = NoCfg /\ ctxCache = {} /\ n = 0
        /\ mon = MonInit /\ obs = <<>>
Live == mon.bad = <<>>
Emit(evs) == obs' = evs /\ mon' = FoldEvents(MonStep, mon, evs)

\* ---- what the harness mints / configures for each class (mirrors props/C15.py CertLab) -------------------------------
\* identities are label sequences; the identity of every row is Id, Other is a different host of the same form
\* (every label is a triple so that TLC can compare any two: a literal label, or one asterisk between pre and post)
L(s) == <<"lit", s, "">>
Star(pre, post) == <<"*", pre, post>>
Id == <<L("srv"), L("example"), L("test")>>
Other == <<L("other"), L("example"), L("test")>>
\* [cn, dns (set of patterns), ips (set of "id" / "other")] of the leaf for a naming class
Leaf(naming) ==
  CASE naming = "san_exact"           -> [cn |-> <<>>, dns |-> {Id}, ips |-> {}]
    [] naming = "san_case"            -> [cn |-> <<>>, dns |-> {Id}, ips |-> {}]      \* matching ignores case
    [] naming = "san_among_others"    -> [cn |-> <<L("unrelated")>>, dns |-> {Other, Id}, ips |-> {"third"}]
    [] naming = "wild_ok"             -> [cn |-> <<>>, dns |-> {<<Star("", ""), L("example"), L("test")>>}, ips |-> {}]
    [] naming = "san_other"           -> [cn |-> <<>>, dns |-> {Other}, ips |-> {}]
    [] naming = "wild_partial_prefix" -> [cn |-> <<>>, dns |-> {<<Star("s", ""), L("example"), L("test")>>}, ips |-> {}]
    [] naming = "wild_partial_suffix" -> [cn |-> <<>>, dns |-> {<<Star("", "v"), L("example"), L("test")>>}, ips |-> {}]
    [] naming = "wild_two_labels"     -> [cn |-> <<>>, dns |-> {<<Star("", ""), L("test")>>}, ips |-> {}]
    [] naming = "wild_not_leftmost"   -> [cn |-> <<>>, dns |-> {<<L("srv"), Star("", ""), L("test")>>}, ips |-> {}]
    [] naming = "cn_only"             -> [cn |-> Id, dns |-> {}, ips |-> {}]
    [] naming = "cn_match_san_other"  -> [cn |-> Id, dns |-> {Other}, ips |-> {"other"}]
    [] naming = "no_names"            -> [cn |-> <<>>, dns |-> {}, ips |-> {}]
    [] naming = "ip_exact"            -> [cn |-> <<>>, dns |-> {}, ips |-> {"id"}]
    [] naming = "ip_among_others"     -> [cn |-> <<L("device")>>, dns |-> {<<L("device"), L("example"), L("test")>>}, ips |-> {"other", "id"}]
    [] naming = "ip_other"            -> [cn |-> <<>>, dns |-> {}, ips |-> {"other"}]
    [] naming = "ip_in_dns_san"       -> [cn |-> <<>>, dns |-> {Id}, ips |-> {}]      \* the address written as a dNSName
Anchor(chain) == CASE chain \in {"direct", "inter", "inter_expired"} -> "R"
                   [] chain = "wrong_ca" -> "W"
                   [] chain = "public_ca" -> "P"     \* a CA that is only in the public bundle (certifi)
                   [] OTHER -> "none"          \* inter_missing, self_signed, inter_not_ca: no path to any root
TrustSet(trust) == CASE trust \in {"ca_file", "ca_dir"} -> {"R"}
                     [] trust = "file_other" -> {"W"}
                     [] trust = "file_and_dir" -> {"R", "W"}
                     [] trust = "default" -> {"P"}         \* net/tls.py: certifi's bundle iff neither file nor dir is set

\* ---- OpenSSL's decision ------------------------------------------------------------------------------------------
Trusted(r) == Anchor(r.chain) \in TrustSet(r.trust)
ValidNow(r) == r.validity = "valid" /\ r.chain # "inter_expired"
HasStar(p) == \E i \in 1..Len(p) : p[i][1] = "*"
\* wildcard_match / valid_star with X509_CHECK_FLAG_NO_PARTIAL_WILDCARDS: the asterisk must be the whole leftmost label,
\* at least two more labels must follow, and it stands for exactly one label
MatchDNS(p, id) ==
  IF ~HasStar(p) THEN p = id
  ELSE /\ p[1] = Star("", "") /\ Len(p) >= 3 /\ Len(p) = Len(id)
       /\ \A i \in 2..Len(p) : p[i] = id[i]
NameOK(r) ==
  LET leaf == Leaf(r.naming) IN
  IF r.idform \in {"ip4", "ip6"} THEN "id" \in leaf.ips            \* X509_VERIFY_PARAM_set1_ip: iPAddress SANs only
  ELSE \E p \in leaf.dns : MatchDNS(p, Id)                        \* NEVER_CHECK_SUBJECT: the CN is never consulted
Sni(r) == IF r.idsrc = "sni_empty" THEN "" ELSE "id"     \* server.sni / client.sni / address all carry the identity

\* ---- the three critical sections -------------------------------------------------------------------------------------
Pool == IF n = 0 THEN Rows ELSE SeqRows
StartRec(r) == [k |-> "start", insecure |-> r.insecure, peer |-> r.peer,
                trusted |-> Trusted(r), valid |-> ValidNow(r),
                named |-> r.idsrc # "sni_empty" /\ r.naming \in {"san_exact", "san_case", "san_among_others", "wild_ok",
                                                                 "ip_exact", "ip_among_others"},
                chain |-> r.chain, validity |-> r.validity, naming |-> r.naming, idform |-> r.idform,
                idsrc |-> r.idsrc, trust |-> r.trust, path |-> r.path]
StartServer(r) ==
  /\ Live /\ pc = "idle" /\ n < MaxConns /\ r \in Pool
  /\ n' = n + 1 /\ cur' = r /\ pc' = "started"
  /\ ctxCache' = ctxCache \cup {<<r.insecure, r.trust>>}
  /\ LET raise == Sni(r) = "" /\ ~r.insecure IN
     /\ cfg' = [verify |-> ~r.insecure, check |-> IF Sni(r) = "" THEN "none" ELSE r.idform, raised |-> raise]
     /\ Emit(<<StartRec(r), [k |-> "hook", name |-> "tls_start_server", err |-> FALSE]>>
             \o (IF raise THEN <<[k |-> "raised", exc |-> "ValueError"]>> ELSE <<>>))

Completes(r) == r.peer = "tls" /\ ~cfg.raised /\ (~cfg.verify \/ (Trusted(r) /\ ValidNow(r) /\ (cfg.check = "none" \/ NameOK(r))))
Reply(r, err) == IF r.path = "lazy" THEN <<[k |-> "reply", err |-> err]>> ELSE <<>>
Flight ==
  /\ Live /\ pc = "started" /\ UNCHANGED <<cur, cfg, ctxCache, n>>
  /\ IF cfg.raised
       THEN pc' = "idling" /\ Emit(<<>>)                     \* no ClientHello was ever sent; nothing happens
       ELSE IF Completes(cur)
         THEN pc' = "open" /\ Emit(<<[k |-> "hook", name |-> "tls_established_server", err |-> FALSE]>> \o Reply(cur, FALSE))
         ELSE pc' = "failed" /\ Emit(<<[k |-> "hook", name |-> "tls_failed_server", err |-> TRUE]>> \o Reply(cur, TRUE))

Oracle(r) == r.peer = "tls" /\ r.idsrc # "sni_empty" /\ Trusted(r) /\ ValidNow(r)
             /\ r.naming \in {"san_exact", "san_case", "san_among_others", "wild_ok", "ip_exact", "ip_among_others"}
Finish ==
  /\ Live /\ pc \in {"open", "failed", "idling"} /\ UNCHANGED <<ctxCache, n>>
  /\ pc' = "idle" /\ cur' = NoRow /\ cfg' = NoCfg
  /\ Emit((IF pc = "idling"     \* the close ends the idle attempt: on_handshake_error("connection closed")
             THEN <<[k |-> "hook", name |-> "tls_failed_server", err |-> TRUE]>> \o Reply(cur, TRUE) ELSE <<>>)
          \o <<[k |-> "end", established |-> pc = "open", error |-> pc # "open",
                app |-> IF pc = "open" THEN PayloadLen ELSE 0, plain |-> 0, oracle |-> Oracle(cur)]>>)

Next == \/ \E r \in Rows \cup SeqRows : StartServer(r)
        \/ Flight
        \/ Finish
Spec == Init /\ [][Next]_vars
Report == mon.bad # <<>> => PrintT(<<"BAD", mon.bad>>)
=============================================================================
