--------------------------- MODULE Mon_CertVerify ---------------------------
(* Monitor for C15: upstream certificates are verified unless verification is disabled.

   Event records of one upstream TLS attempt (projected by props/C15.py from the real ServerTLSLayer + TlsConfig):
     [k |-> "start",            \* the server TLS layer begins; ground truth of the scenario, by construction of the
      insecure |-> BOOLEAN,     \*   certificates the harness minted and of the options it set:
      peer     |-> "tls" | "garbage" | "closes",   \* what the server does (a TLS handshake / plaintext / EOF)
      trusted  |-> BOOLEAN,     \* the presented chain leads to a CA in the configured trust store
      valid    |-> BOOLEAN,     \* every certificate of that chain is currently valid
      named    |-> BOOLEAN,     \* a SAN names the identity (dNSName, whole-label wildcard only, no CN fallback;
                                \*   iPAddress for an IP identity); identity = server SNI, else client SNI, else address
      chain, validity, naming, idform, idsrc, trust, path |-> scenario classes (signatures / witnesses only)]
     [k |-> "hook", name |-> "tls_start_server" | "tls_established_server" | "tls_failed_server",
                    err |-> BOOLEAN]                 \* err: conn.error is set when the hook fires
     [k |-> "raised", exc |-> class]                 \* the tls_start_server hook raised
     [k |-> "reply", err |-> BOOLEAN]                \* answer to the child's OpenConnection (lazy path only)
     [k |-> "end", established |-> BOOLEAN,          \* server.tls_established
                   error |-> BOOLEAN,                \* server.error is set
                   app |-> Nat,                      \* application bytes the server peer decrypted
                   plain |-> Nat,                    \* application bytes that reached the server in the clear
                   oracle |-> BOOLEAN]               \* prediction only: cryptography's verifier accepts the chain
   Clauses, judged at "end" (need_fail: verification is on and the certificate must be refused, or the peer does not
   complete TLS at all):
     accepted_bad_cert   handshake completed although need_fail
     no_error            need_fail but the connection carries no error / the child was told the connection is open
     no_failed_hook      need_fail but tls_failed_server did not fire
     app_data_sent       need_fail but application data reached the server
     insecure_failed     ssl_insecure on, the server speaks TLS, and the handshake did not complete            *)
EXTENDS Verif

MonInit == [bad |-> <<>>, wit |-> {}, row |-> [k |-> "none"], est |-> FALSE, failed |-> FALSE, reply |-> "none"]

Good(r) == r.trusted /\ r.valid /\ r.named
NeedFail(r) == r.peer # "tls" \/ (~r.insecure /\ ~Good(r))
Reason(r) == IF r.peer # "tls" THEN r.peer
             ELSE IF ~r.trusted THEN "untrusted" ELSE IF ~r.valid THEN "not_valid" ELSE "name_mismatch"

AtEnd(m, ev) ==
  LET r == m.row IN
  IF r.k # "start" THEN <<>>
  ELSE IF NeedFail(r) /\ (m.est \/ ev.established) THEN <<"C15.accepted_bad_cert", Reason(r), r.naming, r.chain>>
  ELSE IF NeedFail(r) /\ (ev.app > 0 \/ ev.plain > 0) THEN <<"C15.app_data_sent", Reason(r)>>
  ELSE IF NeedFail(r) /\ (~ev.error \/ m.reply = "ok") THEN <<"C15.no_error", Reason(r), r.path>>
  ELSE IF NeedFail(r) /\ ~m.failed THEN <<"C15.no_failed_hook", Reason(r), r.path>>
  ELSE IF r.insecure /\ r.peer = "tls" /\ ~(m.est /\ ev.established) THEN <<"C15.insecure_failed", Reason(r)>>
  ELSE <<>>

Clause(m, ev) == IF ev.k = "end" THEN AtEnd(m, ev) ELSE <<>>

EndWit(m, ev) ==
  LET r == m.row IN
  IF r.k # "start" THEN {} ELSE
    (IF NeedFail(r) THEN {"need_fail", "refuse_" \o Reason(r)} ELSE {})
    \cup (IF ~NeedFail(r) /\ ~r.insecure /\ ev.established THEN {"verified_ok", "ok_" \o r.naming, "ok_" \o r.chain} ELSE {})
    \cup (IF r.insecure /\ ~Good(r) /\ r.peer = "tls" THEN {"insecure_bad_cert"} ELSE {})
    \cup (IF ev.app > 0 THEN {"app_data"} ELSE {})
    \cup {"path_" \o r.path, "trust_" \o r.trust, "id_" \o r.idform, "src_" \o r.idsrc}

MonStep(m, ev) ==
  CASE ev.k = "start" -> [m EXCEPT !.row = ev, !.est = FALSE, !.failed = FALSE, !.reply = "none"]
    [] ev.k = "hook"  -> [m EXCEPT !.est = @ \/ ev.name = "tls_established_server",
                                   !.failed = @ \/ ev.name = "tls_failed_server"]
    [] ev.k = "reply" -> [m EXCEPT !.reply = IF ev.err THEN "err" ELSE "ok"]
    [] ev.k = "end"   -> [m EXCEPT !.bad = Clause(m, ev), !.wit = @ \cup EndWit(m, ev), !.row = [k |-> "none"]]
    [] OTHER -> m
Wit(m) == m.wit
=============================================================================
