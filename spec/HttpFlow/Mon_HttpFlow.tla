---------------------------- MODULE Mon_HttpFlow ----------------------------
(* Monitor for C03: every HTTP flow has an ordered hook lifecycle and exactly one outcome.

   Event records (props/C03.py logs them from the real HttpLayer; HttpFlow.tla emits the same):
     [k |-> "env", a, x]                    environment action about to be performed (a = action name, x = argument);
                                            carries no observation, kept so that rejected traces are readable
     [k |-> "hook", name, f, rs]            StartHook yielded for flow number f (flows are numbered in order of
                                            first appearance in a hook); rs = flow.request.stream is set
     [k |-> "raised", exc]                  an exception escaped from layer.handle_event (ConnectionHandler logs
                                            "mitmproxy has crashed!" and carries on); C03 says nothing about it, so
                                            it is no clause: what it does to the flows shows in the records below
                                            (the end clauses carry the exception class in their signature)
     [k |-> "quiescent", flows]             the client connection and all server connections are closed and no hook
                                            is pending; flows[i] = [live, kind] for flow i, kind in
                                            {"plain", "connect", "upgrade"}
     [k |-> "end"]                          the behaviour stopped before everything was closed (no obligation)
   Only what the statement of C03 says is a clause; everything else the model predicts is drift-level.          *)
EXTENDS Verif

Lifecycle == {"requestheaders", "request", "responseheaders", "response", "error"}

MonInit == [bad |-> <<>>, wit |-> {},
            fl  |-> <<>>,      \* per flow number: sequence of lifecycle hook names fired so far
            exc |-> "none"]    \* class of the last exception that escaped from the layer (signature of end clauses)

Fired(m, f) == IF f <= Len(m.fl) THEN ToSet(m.fl[f]) ELSE {}

HookClause(m, ev) ==
  LET h == Fired(m, ev.f) n == ev.name IN
  IF n \notin Lifecycle THEN <<>>
  ELSE IF n = "requestheaders" /\ h # {} THEN <<"C03.requestheaders_not_first", IF n \in h THEN "twice" ELSE "late">>
  ELSE IF n # "requestheaders" /\ "requestheaders" \notin h THEN <<"C03.hook_before_requestheaders", n>>
  ELSE IF n = "request" /\ "request" \in h THEN <<"C03.request_twice">>
  ELSE IF n = "responseheaders" /\ "responseheaders" \in h THEN <<"C03.responseheaders_twice">>
  ELSE IF n = "responseheaders" /\ "response" \in h THEN <<"C03.responseheaders_after_response">>
  ELSE IF n = "responseheaders" /\ ~ev.rs /\ "request" \notin h THEN <<"C03.responseheaders_before_request">>
  ELSE IF n = "response" /\ "error" \in h THEN <<"C03.response_and_error", "response_after_error">>
  ELSE IF n = "error" /\ "response" \in h THEN <<"C03.response_and_error", "error_after_response">>
  ELSE IF n \in {"response", "error"} /\ n \in h THEN <<"C03.outcome_twice", n>>
  ELSE <<>>

\* end-of-behaviour obligation, evaluated on the quiescent record
QuiescentClause(m, ev) ==
  LET idx == {i \in 1..Len(ev.flows) : ev.flows[i].kind = "plain" /\ "requestheaders" \in Fired(m, i)}
      none == {i \in idx : Fired(m, i) \cap {"response", "error"} = {}}
      lv == {i \in idx : ev.flows[i].live}
  IN IF none # {} THEN
       LET i == CHOOSE j \in none : \A k \in none : j <= k
       IN <<"C03.no_outcome", IF "responseheaders" \in Fired(m, i) THEN "after_responseheaders"
                              ELSE IF "request" \in Fired(m, i) THEN "after_request" ELSE "after_requestheaders",
                              m.exc>>
     ELSE IF lv # {} THEN
       LET i == CHOOSE j \in lv : \A k \in lv : j <= k
       IN <<"C03.still_live", IF "response" \in Fired(m, i) THEN "response" ELSE "error", m.exc>>
     ELSE <<>>

HookWit(m, ev) ==
  LET h == Fired(m, ev.f) n == ev.name IN
    (IF n = "responseheaders" /\ ev.rs /\ "request" \notin h THEN {"responseheaders_while_request_streams"} ELSE {})
    \cup (IF n = "responseheaders" /\ "request" \in h THEN {"responseheaders_after_request"} ELSE {})
    \cup (IF n = "error" /\ "responseheaders" \in h THEN {"error_after_responseheaders"} ELSE {})
    \cup (IF n = "error" /\ "request" \notin h THEN {"error_before_request"} ELSE {})
    \cup (IF n = "request" /\ "responseheaders" \in h THEN {"request_after_responseheaders"} ELSE {})
    \cup (IF n = "request" /\ "response" \in h THEN {"request_after_response"} ELSE {})
    \cup (IF ev.f > 1 THEN {"second_flow"} ELSE {})

MonStep(m, ev) ==
  CASE ev.k = "hook" ->
         LET f == ev.f
             fl1 == IF f = Len(m.fl) + 1 THEN Append(m.fl, <<>>) ELSE m.fl IN
         IF f < 1 \/ f > Len(fl1) THEN [m EXCEPT !.bad = <<"C03.malformed_trace">>]
         ELSE [m EXCEPT !.bad = HookClause(m, ev),
                        !.fl = IF ev.name \in Lifecycle THEN [fl1 EXCEPT ![f] = Append(@, ev.name)] ELSE fl1,
                        !.wit = @ \cup HookWit(m, ev)]
    [] ev.k = "raised" -> [m EXCEPT !.exc = ev.exc, !.wit = @ \cup {"raised"}]
    [] ev.k = "quiescent" ->
         [m EXCEPT !.bad = QuiescentClause(m, ev),
                   !.wit = @ \cup {"quiescent"}
                             \cup (IF \E i \in 1..Len(m.fl) : "response" \in Fired(m, i) THEN {"outcome_response"} ELSE {})
                             \cup (IF \E i \in 1..Len(m.fl) : "error" \in Fired(m, i) THEN {"outcome_error"} ELSE {})]
    [] OTHER -> m
Wit(m) == m.wit
=============================================================================
