------------------------------ MODULE HttpBody ------------------------------
(* Implementation-shaped model of HttpStream's body handling for one HTTP/1 exchange
   (mitmproxy/proxy/layers/http/__init__.py): check_body_size (early case from the declared length, late case from
   the buffer; abort first, then switch to streaming with re-injection of the buffered prefix),
   state_consume_*_body / state_stream_*_body (stream callables, store_streamed_bodies), send_response.
   Hooks complete at once (the addon assigns message.stream in the headers hook), connects succeed at once.
   d = "req" | "resp".  Body bytes of a message are ids 1..n in order of arrival.
     mode[d]  = client_state / server_state: "none" "wait" "consume" "stream" "done" "errored"
     strm[d]  = message.stream: "off" | "true" | callable kind (bytes-returning ident/double/swallow/atend, or the
                generators gen = identity and dblgen = doubling, which return a one-shot iterator of pieces)
     buf[d]   = len(request_body_buf) / len(response_body_buf)
     got[d]   = body bytes received so far; decl[d] = Content-Length or -1 (chunked)
     acc[d]   = bytes an "atend" callable is holding back
     term[d]  = the peer has already seen the end of the chunked body (see EmptyChunkEnds): what is written
                afterwards is not part of the message any more                                      *)
EXTENDS Mon_HttpBody, TLC
CONSTANTS Limits, Thresholds, Stores, ReqXf, RespXf,   \* option / addon alphabets
          ReqSizes, RespSizes,                          \* Content-Length values offered per direction
          ReqFramings, RespFramings,                    \* subsets of {"cl", "chunked"}
          MaxBody, ChunkSizes,
          EmptyChunkEnds   \* named deviation: FALSE = empty data events write nothing (the code since /repo commit
                           \* fe132bb82); TRUE = Http1Client.send / Http1Server.send write "0 CRLF CRLF" for an empty data
                           \* event of a chunked message, which ends the body for the peer (the code as first found,
                           \* findings_proposed/C07.md) -- only used to show the clause reachable in the pre-repair model
VARIABLES c, s, mon, obs
vars == <<c, s, mon, obs>>

Seg(lo, hi) == [i \in 1..(hi - lo + 1) |-> lo + i - 1]
RECURSIVE Dbl(_)
Dbl(q) == IF q = <<>> THEN <<>> ELSE <<Head(q), Head(q)>> \o Dbl(Tail(q))

S0 == [ph |-> "start",
       mode |-> [d \in Dirs |-> "none"], strm |-> [d \in Dirs |-> "off"], buf |-> [d \in Dirs |-> 0],
       got |-> [d \in Dirs |-> 0], decl |-> [d \in Dirs |-> -2], acc |-> [d \in Dirs |-> 0],
       term |-> [d \in Dirs |-> FALSE],
       kept |-> [d \in Dirs |-> <<>>], sent |-> [d \in Dirs |-> <<>>],
       \* records of the current step, in the harness's canonical order: what the peer did (oe), hooks (oh), body bytes
       \* written to the server / to the client (ox), error response to the client (oc)
       oe |-> <<>>, oh |-> <<>>, ox |-> [d \in Dirs |-> <<>>], oc |-> <<>>]
C0 == [limit |-> -1, sthr |-> -1, store |-> FALSE, xq |-> "off", xp |-> "off"]

Init == c = C0 /\ s = S0 /\ mon = MonInit /\ obs = <<>>
Live == mon.bad = <<>> /\ s.ph # "end"
Emit(evs) == obs' = evs /\ mon' = FoldEvents(MonStep, mon, evs)
St(w) == [k |-> "st", rb |-> w.buf["req"], pb |-> w.buf["resp"], rm |-> w.mode["req"], pm |-> w.mode["resp"]]
TxRec(w, d) == IF w.ox[d] = <<>> THEN <<>> ELSE <<[k |-> "tx", d |-> d, ids |-> w.ox[d]]>>
Commit(w) == /\ s' = [w EXCEPT !.oe = <<>>, !.oh = <<>>, !.ox = [d \in Dirs |-> <<>>], !.oc = <<>>]
             /\ Emit(w.oe \o w.oh \o TxRec(w, "req") \o TxRec(w, "resp") \o w.oc \o <<St(w)>>)
             /\ UNCHANGED c
Out(w, r) == [w EXCEPT !.oe = Append(@, r)]
Hook(w, n) == [w EXCEPT !.oh = Append(@, [k |-> "hook", name |-> n])]
\* the data events HttpStream sends towards the peer; sent[d] is what it stores with store_streamed_bodies
Tx(w, d, ids) == IF w.term[d] THEN [w EXCEPT !.sent[d] = @ \o ids]
                 ELSE [w EXCEPT !.ox[d] = @ \o ids, !.sent[d] = @ \o ids]
Xf(d) == IF d = "req" THEN c.xq ELSE c.xp
HeadersHook(d) == IF d = "req" THEN "requestheaders" ELSE "responseheaders"

\* check_body_size step 2: abort.  early = nothing buffered yet (the flow is registered with its headers hook first)
Abort(w, d, early) ==
  LET w1 == IF early THEN Hook(w, HeadersHook(d)) ELSE w
      w2 == [Hook(w1, "error") EXCEPT !.oc = <<[k |-> "cerr", status |-> IF d = "req" THEN 413 ELSE 502]>>]
  IN [w2 EXCEPT !.mode = [e \in Dirs |-> IF e = "req" \/ d = "resp" THEN "errored" ELSE @[e]], !.ph = "over"]

\* state_stream_*_body for one data event
StreamData(w, d, ids) ==
  LET x == w.strm[d]
      o == CASE x \in {"double", "dblgen"} -> Dbl(ids) [] x \in {"swallow", "atend"} -> <<>> [] OTHER -> ids
      w1 == [w EXCEPT !.acc[d] = IF x = "atend" THEN @ + Len(ids) ELSE @,
                      !.buf[d] = IF c.store THEN @ + Len(o) ELSE @]
      w2 == IF EmptyChunkEnds /\ o = <<>> /\ w.decl[d] = -1 THEN [w1 EXCEPT !.term[d] = TRUE] ELSE w1
  IN Tx(w2, d, o)

\* end of message as HttpStream sees it
Eom(w, d) ==
  LET after == IF d = "req" THEN [w EXCEPT !.ph = "resphead"] ELSE [w EXCEPT !.ph = "over"] IN
  IF w.mode[d] = "consume" THEN        \* content = buffer; request / response hook; head + content forwarded
    LET w1 == Hook([after EXCEPT !.kept[d] = Seg(1, w.got[d]), !.buf[d] = 0, !.mode[d] = "done"],
                   IF d = "req" THEN "request" ELSE "response")
    IN Tx(w1, d, Seg(1, w.got[d]))
  ELSE                                  \* streamed: flush the callable, optionally keep, hook, end of message
    LET o == IF w.strm[d] = "atend" THEN Seg(w.got[d] - w.acc[d] + 1, w.got[d]) ELSE <<>>
        w1 == Tx([after EXCEPT !.acc[d] = 0], d, o)
        w2 == [w1 EXCEPT !.kept[d] = IF c.store THEN w1.sent[d] ELSE <<>>, !.buf[d] = 0, !.mode[d] = "done"]
    IN Hook(w2, IF d = "req" THEN "request" ELSE "response")

\* message head: check_body_size(early), headers hook with the addon's assignment, stream or consume
Head_(w0, d, fr, n) ==
  LET decl == IF fr = "cl" THEN n ELSE -1
      w == Out([w0 EXCEPT !.decl[d] = decl, !.ph = IF d = "req" THEN "reqbody" ELSE "respbody"],
               [k |-> "head", d |-> d, cl |-> decl])
      endstream == fr = "cl" /\ n = 0
  IN IF ~endstream /\ c.limit >= 0 /\ decl > c.limit THEN Abort(w, d, TRUE)
     ELSE LET auto == ~endstream /\ c.sthr >= 0 /\ decl > c.sthr
              st == IF Xf(d) # "off" THEN Xf(d) ELSE IF auto THEN "true" ELSE "off"
              w1 == Hook([w EXCEPT !.strm[d] = st], HeadersHook(d))
              w2 == [w1 EXCEPT !.mode[d] = IF st # "off" /\ ~endstream THEN "stream" ELSE "consume",
                               !.mode["resp"] = IF d = "req" THEN "wait" ELSE IF st # "off" /\ ~endstream THEN "stream" ELSE "consume"]
          IN IF endstream THEN Eom(Out(w2, [k |-> "eom", d |-> d]), d) ELSE w2

\* one received segment with k body bytes
Chunk_(w0, d, k) ==
  LET ids == Seg(w0.got[d] + 1, w0.got[d] + k)
      w == Out([w0 EXCEPT !.got[d] = @ + k], [k |-> "rx", d |-> d, ids |-> ids])
      w1 == IF w.mode[d] = "stream" THEN StreamData(w, d, ids)
            ELSE LET b == w.buf[d] + k IN          \* consume: buffer, then check_body_size(late)
                 IF c.limit >= 0 /\ b > c.limit THEN Abort([w EXCEPT !.buf[d] = b], d, FALSE)
                 ELSE IF c.sthr >= 0 /\ b > c.sthr     \* switch to streaming: re-inject the whole prefix as one chunk
                   THEN StreamData([w EXCEPT !.buf[d] = 0, !.strm[d] = "true", !.mode[d] = "stream"], d, Seg(1, w.got[d]))
                 ELSE [w EXCEPT !.buf[d] = b]
      done == w1.ph # "over" /\ w1.decl[d] >= 0 /\ w1.got[d] = w1.decl[d]
  IN IF done THEN Eom(Out(w1, [k |-> "eom", d |-> d]), d) ELSE w1

Start(l, t, st, xq, xp) ==
  /\ Live /\ s.ph = "start"
  /\ c' = [limit |-> l, sthr |-> t, store |-> st, xq |-> xq, xp |-> xp]
  /\ s' = [s EXCEPT !.ph = "reqhead"]
  /\ Emit(<<[k |-> "cfg", limit |-> l, sthr |-> t, store |-> st, xq |-> xq, xp |-> xp]>>)

ReqHead(fr, n) ==
  /\ Live /\ s.ph = "reqhead" /\ (fr = "chunked" => n = 0)
  /\ Commit(Head_(s, "req", fr, n))
ReqChunk(k) ==
  /\ Live /\ s.ph = "reqbody"
  /\ IF s.decl["req"] >= 0 THEN s.got["req"] + k <= s.decl["req"] ELSE s.got["req"] + k <= MaxBody
  /\ Commit(Chunk_(s, "req", k))
ReqEnd ==           \* terminating chunk of a chunked request
  /\ Live /\ s.ph = "reqbody" /\ s.decl["req"] = -1
  /\ Commit(Eom(Out(s, [k |-> "eom", d |-> "req"]), "req"))
RespHead(fr, n) ==
  /\ Live /\ s.ph = "resphead" /\ (fr = "chunked" => n = 0)
  /\ Commit(Head_(s, "resp", fr, n))
RespChunk(k) ==
  /\ Live /\ s.ph = "respbody"
  /\ IF s.decl["resp"] >= 0 THEN s.got["resp"] + k <= s.decl["resp"] ELSE s.got["resp"] + k <= MaxBody
  /\ Commit(Chunk_(s, "resp", k))
RespEnd ==
  /\ Live /\ s.ph = "respbody" /\ s.decl["resp"] = -1
  /\ Commit(Eom(Out(s, [k |-> "eom", d |-> "resp"]), "resp"))
Finish ==
  /\ Live /\ s.ph \in {"resphead", "over"}     \* behaviours cut elsewhere are closed by the harness ("end" record)
  /\ s' = [s EXCEPT !.ph = "end"] /\ UNCHANGED c
  /\ Emit(<<[k |-> "end", kq |-> s.kept["req"], kp |-> s.kept["resp"]]>>)

Next == \/ \E l \in Limits, t \in Thresholds, st \in Stores, xq \in ReqXf, xp \in RespXf : Start(l, t, st, xq, xp)
        \/ \E fr \in ReqFramings, n \in ReqSizes : ReqHead(fr, n)
        \/ \E k \in ChunkSizes : ReqChunk(k)
        \/ ReqEnd
        \/ \E fr \in RespFramings, n \in RespSizes : RespHead(fr, n)
        \/ \E k \in ChunkSizes : RespChunk(k)
        \/ RespEnd
        \/ Finish
Spec == Init /\ [][Next]_vars
Report == mon.bad # <<>> => PrintT(<<"BAD", mon.bad>>)
=============================================================================
