------------------------------ MODULE HttpFlow ------------------------------
(* Implementation-shaped model of one client connection handled by
     HttpLayer(regular) -> Http1Server -> HttpStream -> (HttpClient ->) Http1Client
   (mitmproxy/proxy/layers/http/__init__.py, _http1.py) together with what ConnectionHandler
   (mitmproxy/proxy/server.py) does around the layer: connection state bits, and the ConnectionClosed event that
   is still delivered after the layer closed a connection itself ("echo": close_connection cancels the handler task,
   the cancelled handle_connection delivers ConnectionClosed) or when the client handler finished (teardown).

   One feed of the layer (server_event) is synchronous, so every environment action is one TLA+ action; what the
   layers do inside it is computed by the operators below on a world record w:
     stream (HttpStream):  cs/ss = client_state/server_state, pc = the blocking yield the generator is parked at,
                           q = Layer._paused_event_queue, strm = membership in HttpLayer.streams
     flow:                 lives[f] = flow.live, killed = (flow.error.msg == KILLED), respsrc = who set flow.response,
                           rstream/pstream = request.stream / response.stream
     Http1Server:          hs (state), hsrq/hsrs (request_done/response_done), hsgone (stream_id has moved on to the
                           next exchange, so send() for the current stream fails its stream-id assertion)
     Http1Client:          hc (state), hcsid (stream_id set), hcrq/hcrs, hceof (body read until EOF), hcbad (self.response
                           is a head whose framing could not be determined, see BadFrameKept)
     x                     an exception escaped in this feed: nothing else of the feed happens
     connections:          cc / sc in "open" | "fin" (peer sent EOF, we may still write) | "wfin" (we half-closed)
                           | "closing" (closed by command, ConnectionClosed not yet delivered) | "closed"
                           plus for the server "none" | "opening" | "failed"
   pc values: rh (requestheaders) rh_inv/err_inv_rq (check_invalid(True)) err_kill (check_killed(True))
     rq (request, consume) rq_s (request, streamed) rsh_emul (responseheaders for an addon response)
     conn (GetHttpConnection) err_pe (handle_protocol_error) rsh (responseheaders) rs (response)
     err_inv_rs (check_invalid(False)).                                                               *)
EXTENDS Mon_HttpFlow, TLC
CONSTANTS ReqKinds,        \* subset of {"get","post","chunked","badval","badframe","garbage"}
          RespKinds,       \* subset of {"cl","nobody","eof","badval","badframe","garbage"}
          Policies,        \* record: hook class -> set of addon policies, classes rh rq rqs rsh rs err
          MaxFlows, MaxReqChunks, MaxRespChunks,
          FixUpstream,     \* named deviation: TRUE = handle_protocol_error also sets server_state = errored when it forwards
                           \* a client error upstream (the code since /repo commit 3a57873aa); FALSE = it leaves
                           \* server_state untouched (the code as first found, findings_proposed/C03.md) -- only used to
                           \* show that the monitor's clauses are reachable in the pre-repair model
          BadFrameKept     \* named deviation: FALSE = Http1Client.read_headers drops a response head whose framing is
                           \* undecidable (the code since /repo commit 6b67c94f8); TRUE = it stays in self.response and the
                           \* unguarded expected_http_body_size(self.request, self.response) in send(RequestEndOfMessage)
                           \* raises ValueError (the code as first found, findings_proposed/C03.md F3) -- design run only
VARIABLES s, mon, obs, ended
vars == <<s, mon, obs, ended>>

W0 == [f |-> 0, strm |-> "none", cs |-> "none", ss |-> "uninit", pc |-> "", nest |-> "", pek |-> "", strd |-> FALSE,
       q |-> <<>>, lives |-> <<>>, killed |-> FALSE, respsrc |-> "", rstream |-> FALSE, pstream |-> FALSE,
       nrb |-> FALSE, npb |-> FALSE, rkind |-> "", pkind |-> "", nreq |-> 0, nresp |-> 0,
       cc |-> "open", hs |-> "read_headers", hsrq |-> FALSE, hsrs |-> FALSE, hsgone |-> FALSE,
       sc |-> "none", hc |-> "none", hcsid |-> FALSE, hcrq |-> FALSE, hcrs |-> FALSE, hceof |-> FALSE,
       hcbad |-> FALSE, x |-> FALSE, out |-> <<>>]

Init == s = W0 /\ mon = MonInit /\ obs = <<>> /\ ended = FALSE
Live == mon.bad = <<>> /\ ~ended
Emit(evs) == obs' = evs /\ mon' = FoldEvents(MonStep, mon, evs)
Commit(w) == s' = [w EXCEPT !.out = <<>>, !.x = FALSE] /\ Emit(w.out) /\ UNCHANGED ended
Begin(a, x) == [s EXCEPT !.out = <<[k |-> "env", a |-> a, x |-> x]>>]

FlowLive(w) == w.lives[w.f]
SetDead(w) == [w EXCEPT !.lives[w.f] = FALSE]
Hook(w, name) == [w EXCEPT !.out = Append(@, [k |-> "hook", name |-> name, f |-> w.f, rs |-> w.rstream])]
InQ(w, e) == \E i \in 1..Len(w.q) : w.q[i] = e

\* ---- connection commands as ConnectionHandler.close_connection applies them ----
CloseState(c) == IF c \in {"open", "wfin"} THEN "closing" ELSE IF c = "fin" THEN "closed" ELSE c
CloseC(w) == [w EXCEPT !.cc = CloseState(@)]
CloseS(w) == [w EXCEPT !.sc = CloseState(@)]
HalfCloseS(w) == [w EXCEPT !.sc = IF @ = "open" THEN "wfin" ELSE IF @ = "fin" THEN "closed" ELSE @]

\* ---- Http1Server.send ----
\* ResponseProtocolError: nothing unless CAN_WRITE, else (error page and) CloseConnection
ToClientErr(w) == IF w.cc \in {"open", "fin"} THEN CloseC(w) ELSE w
\* ResponseEndOfMessage -> mark_done(response=True); connection_done iff the response has read-until-EOF framing
ToClientEom(w) ==
  LET w1 == [w EXCEPT !.hsrs = TRUE] IN
  IF ~w1.hsrq THEN w1
  ELSE IF w1.respsrc = "server" /\ w1.pkind = "eof" THEN [CloseC(w1) EXCEPT !.hs = "done"]
  ELSE [w1 EXCEPT !.hs = "read_headers", !.hsrq = FALSE, !.hsrs = FALSE, !.hsgone = TRUE]
\* An exception escapes from handle_event: the rest of the feed does not happen; queued events stay in the queue of a
\* stream that is never resumed again (it has been dropped), so they are forgotten here.
\* (A stream that is still registered keeps its queue: it is replayed after the next hook of that stream.)
Crash(w, exc) == [w EXCEPT !.q = IF w.strm = "live" THEN @ ELSE <<>>, !.x = TRUE,
                           !.out = Append(@, [k |-> "raised", exc |-> exc])]

\* ---- Http1Client.send / mark_done ----
ToServerHdr(w) == [w EXCEPT !.hcsid = TRUE]
ToServerErr(w) == CloseS(w)                       \* RequestProtocolError -> CloseConnection
ClientBothDone(w) ==                              \* Http1Connection.mark_done with request_done and response_done
  IF w.hceof THEN [CloseS(w) EXCEPT !.hc = "done"]
  ELSE [w EXCEPT !.hc = "read_headers", !.hcsid = FALSE, !.hcrq = FALSE, !.hcrs = FALSE, !.hceof = FALSE, !.hcbad = FALSE]
ToServerEom(w) ==                                 \* RequestEndOfMessage
  IF w.rkind # "chunked" /\ w.hcbad THEN Crash(w, "ValueError")   \* expected_http_body_size(req, kept bad response)
  ELSE
  LET w1 == IF w.rkind # "chunked" /\ w.hceof THEN HalfCloseS(w) ELSE w   \* expected_http_body_size(req, resp) = -1
      w2 == [w1 EXCEPT !.hcrq = TRUE]
  IN IF w2.hcrs THEN ClientBothDone(w2) ELSE w2
MarkRespDone(w) ==                                \* Http1Client.read_body: mark_done(response=True)
  LET w1 == [w EXCEPT !.hcrs = TRUE] IN IF w1.hcrq THEN ClientBothDone(w1) ELSE w1

\* ---- HttpStream ----
Killed(w) == w.killed \/ InQ(w, "rq_err")         \* check_killed: killed by us, or peek into _paused_event_queue
KillEnd(w) == IF w.hsgone THEN Crash(w, "AssertionError")           \* Http1Server.send: stream id assertion
              ELSE [SetDead(ToClientErr(w)) EXCEPT !.cs = "errored", !.ss = "errored"]
KillPath(w) == Hook([w EXCEPT !.pc = "err_kill"], "error")        \* check_killed(True)
FlowDone(w) == ToClientEom([SetDead(w) EXCEPT !.strm = "dropped"])
SendResp(w, streamed) == Hook([w EXCEPT !.pc = "rs", !.strd = streamed], "response")

\* handle_protocol_error after its (optional) error hook
PE2(w, k) ==
  IF Killed(w) THEN KillEnd(w)
  ELSE IF k = "rs" /\ w.cs # "errored" /\ w.hsgone THEN Crash(w, "AssertionError")  \* Http1Server.send: stream id
  ELSE LET w1 == IF k = "rs" THEN [(IF w.cs # "errored" THEN ToClientErr(w) ELSE w) EXCEPT !.ss = "errored"] ELSE w
       IN [SetDead(w1) EXCEPT !.strm = "dropped"]
\* return into make_server_connection's caller: state_consume_request_body returns; start_request_stream sets
\* client_state = errored and state_wait_for_request_headers then overwrites server_state
PEnd(w) == IF w.nest = "stream" THEN [w EXCEPT !.cs = "errored", !.ss = "wait", !.nest = ""] ELSE [w EXCEPT !.nest = ""]
AfterPE(w) == IF w.pc # "" THEN w ELSE PEnd(w)
PE(w, k) ==
  LET up == k = "rq" /\ w.cs \in {"stream", "done"} /\ w.ss \notin {"done", "errored"}
      need == ~(w.cs = "errored" \/ w.ss \in {"done", "errored"})
      w1 == IF up THEN [ToServerErr(w) EXCEPT !.cs = "errored", !.ss = IF FixUpstream THEN "errored" ELSE @] ELSE w
  IN IF need THEN Hook([w1 EXCEPT !.killed = FALSE, !.pc = "err_pe", !.pek = k], "error")
     ELSE PE2(w1, k)

ConnOk(w) ==
  IF w.nest = "consume" THEN [ToServerEom(ToServerHdr(w)) EXCEPT !.nest = ""]
  ELSE [ToServerHdr(w) EXCEPT !.cs = "stream", !.ss = "wait", !.nest = ""]
ConnFail(w) == AfterPE(PE(w, "rs"))
\* HttpLayer.get_connection: stored error / reuse a connected one / open a new one
GetConn(w, nest) ==
  IF w.sc = "failed" THEN ConnFail([w EXCEPT !.nest = nest])
  ELSE IF w.sc = "open" THEN ConnOk([w EXCEPT !.nest = nest])
  ELSE [w EXCEPT !.pc = "conn", !.nest = nest, !.sc = "opening", !.hc = "none", !.hcsid = FALSE, !.hcrq = FALSE,
                 !.hcrs = FALSE, !.hceof = FALSE, !.hcbad = FALSE]

RespHdr(w) ==
  LET w1 == [w EXCEPT !.respsrc = "server", !.npb = (w.pkind = "nobody")] IN
  IF w.pkind = "badval"   \* check_invalid(False): close the server connection, error hook
    THEN Hook([CloseS(w1) EXCEPT !.killed = FALSE, !.pc = "err_inv_rs"], "error")
    ELSE Hook([w1 EXCEPT !.pc = "rsh"], "responseheaders")

\* HttpStream._handle_event for a stream that is not paused
H(w, ev) ==
  CASE ev = "rq_err" -> PE(w, "rq")
    [] ev = "rs_err" -> PE(w, "rs")
    [] ev = "rq_eom" -> IF w.cs = "consume" THEN Hook([w EXCEPT !.cs = "done", !.pc = "rq"], "request")
                        ELSE IF w.cs = "stream" THEN Hook([w EXCEPT !.pc = "rq_s"], "request")
                        ELSE w
    [] ev = "rs_hdr" -> IF w.ss = "wait" THEN RespHdr(w) ELSE w
    [] ev = "rs_eom" -> IF w.ss = "consume" THEN SendResp(w, FALSE)
                        ELSE IF w.ss = "stream" THEN SendResp(w, TRUE)
                        ELSE w
    [] OTHER -> w          \* body data: buffered, forwarded or (errored) swallowed

\* continuation of the generator after the blocking command at pc completed
Cont(w, pc) ==
  CASE pc = "rh_inv" -> Hook([w EXCEPT !.pc = "err_inv_rq"], "error")
    [] pc \in {"err_inv_rq", "err_inv_rs"} -> [SetDead(ToClientErr(w)) EXCEPT !.cs = "errored", !.ss = "errored"]
    [] pc = "rh" -> IF Killed(w) THEN KillPath(w)
                    ELSE IF w.rstream /\ ~w.nrb THEN GetConn(w, "stream")
                    ELSE [w EXCEPT !.cs = "consume", !.ss = "wait"]
    [] pc = "err_kill" -> KillEnd(w)
    [] pc = "rq" -> IF Killed(w) THEN KillPath(w)
                    ELSE IF w.respsrc # "" THEN Hook([w EXCEPT !.pc = "rsh_emul"], "responseheaders")
                    ELSE GetConn(w, "consume")
    [] pc = "rsh_emul" -> IF Killed(w) THEN KillPath(w) ELSE SendResp(w, FALSE)
    [] pc = "err_pe" -> AfterPE(PE2(w, w.pek))
    [] pc = "rq_s" -> LET w1 == ToServerEom([w EXCEPT !.cs = "done"]) IN
                      IF w1.x THEN w1 ELSE IF w1.ss = "done" THEN FlowDone(w1) ELSE w1
    [] pc = "rsh" -> IF Killed(w) THEN KillPath(w)
                     ELSE [w EXCEPT !.ss = IF w.pstream /\ ~w.npb THEN "stream" ELSE "consume"]
    [] pc = "rs" -> LET w1 == [w EXCEPT !.ss = "done"] IN
                    IF Killed(w1) THEN KillEnd(w1) ELSE IF w1.cs = "done" THEN FlowDone(w1) ELSE w1

\* Layer.__continue: after the continuation, replay queued events until paused again
RECURSIVE Drain(_)
Drain(w) == IF ~w.x /\ w.pc = "" /\ w.q # <<>> THEN Drain(H([w EXCEPT !.q = Tail(@)], Head(w.q))) ELSE w

\* HttpLayer.event_to_child(ReceiveHttp): unknown stream ids are ignored; Layer.handle_event queues while paused
Recv(w, ev) == IF w.strm # "live" THEN w
               ELSE IF w.pc # "" THEN [w EXCEPT !.q = Append(@, ev)]
               ELSE H(w, ev)

\* ---------------------------------------------------------------------------------------------------------
\* Environment actions
\* ---------------------------------------------------------------------------------------------------------
NewFlow(w, kind) ==
  [w EXCEPT !.f = @ + 1, !.strm = "live", !.hsgone = FALSE, !.cs = "wait", !.ss = "uninit", !.q = <<>>, !.lives = Append(@, TRUE),
            !.killed = FALSE, !.respsrc = "", !.rstream = FALSE, !.pstream = FALSE, !.nrb = (kind = "get"),
            !.npb = FALSE, !.rkind = kind, !.pkind = "", !.nreq = 0, !.nresp = 0, !.strd = FALSE, !.nest = "",
            !.pek = ""]
\* state_wait_for_request_headers up to its first hook (check_invalid(True) registers the flow first)
ReqHdr(w) == IF w.rkind \in {"badval", "badframe"} THEN Hook([w EXCEPT !.pc = "rh_inv"], "requestheaders")
             ELSE Hook([w EXCEPT !.pc = "rh"], "requestheaders")

\* Http1Server.read_headers on a complete request head
ClientHead(kind) ==
  /\ Live /\ s.cc = "open" /\ s.hs = "read_headers" /\ s.f < MaxFlows /\ s.pc = "" /\ s.q = <<>>
  /\ s.f > 0 => s.sc \in {"none", "open", "closed", "failed"}
  /\ LET w == Begin("ClientHead", kind) IN
     CASE kind = "garbage" -> Commit([CloseC(w) EXCEPT !.hs = "done"])          \* 400, close, no flow
       [] kind = "badframe" ->                                                   \* 400, close, headers + error
            Commit([Recv(ReqHdr(NewFlow(CloseC(w), kind)), "rq_err") EXCEPT !.hs = "done"])
       [] kind = "get" ->                                                        \* end_stream: EOM follows at once
            Commit([Recv(ReqHdr(NewFlow(w, kind)), "rq_eom") EXCEPT !.hs = "wait", !.hsrq = TRUE])
       [] OTHER -> Commit([ReqHdr(NewFlow(w, kind)) EXCEPT !.hs = "read_body"])

ClientBody ==
  /\ Live /\ s.cc = "open" /\ s.hs = "read_body" /\ s.nreq < MaxReqChunks
  /\ Commit([Recv(Begin("ClientBody", ""), "rq_data") EXCEPT !.nreq = @ + 1])

ClientEnd ==      \* last body bytes: RequestData, RequestEndOfMessage, mark_done(request=True) -> wait
  /\ Live /\ s.cc = "open" /\ s.hs = "read_body"
  /\ Commit([Recv(Recv(Begin("ClientEnd", ""), "rq_data"), "rq_eom") EXCEPT !.hs = "wait", !.hsrq = TRUE])

\* ConnectionClosed(client) as seen by Http1Server in its current state
ClientClosedEvent(w) ==
  CASE w.hs = "read_headers" -> CloseC(w)
    [] w.hs = "read_body" -> Recv(CloseC(w), "rq_err")        \* h11: incomplete body -> close + RequestProtocolError
    [] w.hs = "wait" -> Recv(CloseC(w), "rq_err")             \* CLIENT_DISCONNECTED
    [] OTHER -> w
ClientFin ==      \* the client sends EOF
  /\ Live /\ s.cc = "open"
  /\ Commit(ClientClosedEvent([Begin("ClientFin", "") EXCEPT !.cc = "fin"]))
ClientEcho ==     \* ConnectionClosed after the proxy closed the client connection itself
  /\ Live /\ s.cc = "closing"
  /\ Commit(ClientClosedEvent([Begin("ClientEcho", "") EXCEPT !.cc = "closed"]))

OpenDone(ok) ==
  /\ Live /\ s.sc = "opening" /\ s.pc = "conn"
  /\ LET w == Begin("OpenDone", IF ok THEN "ok" ELSE "fail") IN
     IF ok THEN Commit(Drain(ConnOk([w EXCEPT !.sc = "open", !.hc = "read_headers", !.pc = ""])))
     ELSE Commit(Drain(ConnFail([w EXCEPT !.sc = "failed", !.pc = ""])))

\* Http1Client.read_headers on a complete response head
ServerHead(kind) ==
  /\ Live /\ s.sc \in {"open", "wfin"} /\ s.hc = "read_headers" /\ s.hcsid
  /\ LET w == [Begin("ServerHead", kind) EXCEPT !.pkind = kind] IN
     CASE kind = "garbage" -> Commit(Recv(CloseS(w), "rs_err"))        \* head unparsable: close, ResponseProtocolError
       [] kind = "badframe" -> Commit(Recv([CloseS(w) EXCEPT !.hcbad = BadFrameKept], "rs_err"))   \* framing undecidable
       [] kind = "nobody" -> Commit(MarkRespDone(Recv([Recv(w, "rs_hdr") EXCEPT !.hc = "read_body"], "rs_eom")))
       [] kind = "eof" -> Commit([Recv(w, "rs_hdr") EXCEPT !.hc = "read_body", !.hceof = TRUE])
       [] OTHER -> Commit([Recv(w, "rs_hdr") EXCEPT !.hc = "read_body"])

ServerBody ==
  /\ Live /\ s.sc \in {"open", "wfin"} /\ s.hc = "read_body" /\ ~s.hcrs /\ s.nresp < MaxRespChunks
  /\ Commit([Recv(Begin("ServerBody", ""), "rs_data") EXCEPT !.nresp = @ + 1])

ServerEnd ==
  /\ Live /\ s.sc \in {"open", "wfin"} /\ s.hc = "read_body" /\ ~s.hcrs /\ ~s.hceof
  /\ Commit(MarkRespDone(Recv(Recv(Begin("ServerEnd", ""), "rs_data"), "rs_eom")))

\* ConnectionClosed(server) as seen by Http1Client in its current state
ServerClosedEvent(w) ==
  CASE w.hc = "read_headers" ->
         LET w1 == IF w.sc = "fin" THEN CloseS(w) ELSE w IN IF w.hcsid THEN Recv(w1, "rs_err") ELSE w1
    [] w.hc = "read_body" ->
         IF w.hceof /\ ~w.hcrs THEN MarkRespDone(Recv(w, "rs_eom"))      \* Http10Reader.read_eof: end of message
         ELSE Recv(CloseS(w), "rs_err")                                   \* incomplete body (h11 raises even if done)
    [] OTHER -> w
ServerFin ==
  /\ Live /\ s.sc \in {"open", "wfin"}
  /\ Commit(ServerClosedEvent([Begin("ServerFin", "") EXCEPT !.sc = IF @ = "open" THEN "fin" ELSE "closed"]))
ServerEcho ==     \* closed by the proxy, or torn down once the client handler has finished
  /\ Live /\ (s.sc = "closing" \/ (s.sc \in {"open", "wfin"} /\ s.cc = "closed"))
  /\ Commit(ServerClosedEvent([Begin("ServerEcho", "") EXCEPT !.sc = "closed"]))

HookClass(pc) == CASE pc = "rh" -> "rh" [] pc = "rq" -> "rq" [] pc = "rq_s" -> "rqs"
                   [] pc \in {"rsh", "rsh_emul"} -> "rsh" [] pc = "rs" -> "rs" [] OTHER -> "err"
HookDone(p) ==
  /\ Live /\ s.pc \notin {"", "conn"} /\ p \in Policies[HookClass(s.pc)]
  /\ p = "kill" => FlowLive(s) /\ ~s.killed                  \* flow.killable
  /\ p = "resp" => ~s.rstream /\ s.respsrc = ""
  /\ p = "stream" => s.respsrc # "addon"
  /\ LET w0 == Begin("HookDone", p)
         w1 == CASE p = "kill" -> [SetDead(w0) EXCEPT !.killed = TRUE]
                 [] p = "resp" -> [w0 EXCEPT !.respsrc = "addon"]
                 [] p = "stream" -> IF HookClass(s.pc) = "rh" THEN [w0 EXCEPT !.rstream = TRUE]
                                    ELSE [w0 EXCEPT !.pstream = TRUE]
                 [] OTHER -> w0
     IN Commit(Drain(Cont([w1 EXCEPT !.pc = ""], s.pc)))

\* The client connection and all server connections are closed (by state: a connection closed by command counts even
\* while its ConnectionClosed echo is still to come -- the echo is then simply never looked at by this behaviour; the
\* behaviours that deliver it first are explored as well) and no hook or connect is outstanding.
Quiesce ==
  /\ Live /\ s.pc = "" /\ s.cc \in {"closing", "closed"} /\ s.sc \in {"none", "failed", "closing", "closed", "fin"}
  /\ ended' = TRUE /\ UNCHANGED s
  /\ Emit(<<[k |-> "env", a |-> "Quiesce", x |-> ""],
            [k |-> "quiescent", flows |-> [i \in 1..s.f |-> [live |-> s.lives[i], kind |-> "plain"]]]>>)

Next == \/ \E k \in ReqKinds : ClientHead(k)
        \/ ClientBody \/ ClientEnd \/ ClientFin \/ ClientEcho
        \/ \E b \in BOOLEAN : OpenDone(b)
        \/ \E k \in RespKinds : ServerHead(k)
        \/ ServerBody \/ ServerEnd \/ ServerFin \/ ServerEcho
        \/ \E p \in {"pass", "kill", "resp", "stream"} : HookDone(p)
        \/ Quiesce
Spec == Init /\ [][Next]_vars
Report == mon.bad # <<>> => PrintT(<<"BAD", mon.bad>>)
=============================================================================
