----------------------------- MODULE QuicStreams -----------------------------
(* Implementation-shaped model of mitmproxy/proxy/layers/quic/_raw_layers.py: RawQuicLayer(force_raw=True) with one
   QuicStreamLayer + TCPLayer (mitmproxy/proxy/layers/tcp.py) per stream.

   One feed of the top layer (RawQuicLayer.handle_event) is synchronous, so it is one action; the operators follow
   the code:
     StreamIn     = RawQuicLayer._handle_event, branch "handle stream events targeting this context"
                    (fetch or create the layer, allocate the client-side id for server-initiated streams, Start,
                    forward data, close_stream_layer on FIN, ResetQuicStream conversion on reset)
     CloseStream  = RawQuicLayer.close_stream_layer
     CloseCmd     = RawQuicLayer.event_to_child, translation of CloseConnection / CloseTcpConnection(half_close)
     Resume       = Layer.__continue of the stream's TCPLayer after a hook: OpenConnection -> server stream id from
                    get_next_available_stream_id; SendData -> SendQuicStreamData if the target is still writable
     Run / Drain  = TCPLayer.start / relay_messages / done, and the paused-event queue of Layer
     ConnClosed   = branch "handle close events that target this context"
   Connection state bits: 1 = CAN_READ, 2 = CAN_WRITE.                                                        *)
EXTENDS Mon_QuicStreams, TLC
CONSTANTS CStreams,     \* stream ids the client may open (client-initiated: 0,4,.. bidi; 2,6,.. uni)
          SStreams,     \* stream ids the server may open (1,5,.. bidi; 3,7,.. uni)
          MaxOps,       \* bound on the number of stream inputs
          MaxData,      \* bound on the number of payloads
          Kinds,        \* subset of {"data", "data_end", "end", "reset"}: stream inputs the environment uses
          MaxCloses,    \* how many QuicConnectionClosed events may be delivered (0..2)
          LateEvents    \* BOOLEAN: stream events may still arrive from the other side after a connection close
VARIABLES sl,        \* sequence of stream layers (index = flow number), see NewLayer
          nxt,       \* next_stream_id, 1-based: <<bidi/client, bidi/server, uni/client, uni/server>>
          cev,       \* connections whose QuicConnectionClosed was delivered (the first one closes both:
                     \* the peer closed one, mitmproxy closes the other with CloseQuicConnection)
          tdone,     \* RawQuicLayer._handle_event = done
          sent,      \* environment bookkeeping: <<conn, sid, what>> with what in {"fin", "reset"}
          nd, ops, mon, obs
vars == <<sl, nxt, cev, tdone, sent, nd, ops, mon, obs>>

Init == /\ sl = <<>> /\ nxt = <<0, 1, 2, 3>> /\ cev = {} /\ tdone = FALSE
        /\ sent = {} /\ nd = 1 /\ ops = 0 /\ mon = MonInit /\ obs = <<>>

Ended == obs # <<>> /\ obs[Len(obs)].k = "end"
Live == mon.bad = <<>> /\ ~Ended
Emit(evs) == obs' = evs /\ mon' = FoldEvents(MonStep, mon, evs)

Has(st, bit) == (st \div bit) % 2 = 1
Clr(st, bit) == IF Has(st, bit) THEN st - bit ELSE st
Idx(isClient, uni) == (IF uni THEN 2 ELSE 0) + (IF isClient THEN 1 ELSE 2)
\* QuicStreamLayer.__init__ / open_server_stream
ClientState(cid) == IF Uni(cid) THEN (IF CInit(cid) THEN 1 ELSE 2) ELSE 3
ServerState(sid) == IF Uni(sid) THEN (IF CInit(sid) THEN 2 ELSE 1) ELSE 3

NewLayer(cid, ssid) == [cid |-> cid, ssid |-> ssid, cst |-> ClientState(cid),
                        sst |-> IF ssid = -1 THEN 0 ELSE ServerState(ssid),
                        cte |-> FALSE, ste |-> FALSE, phase |-> "start", paused |-> "", pfc |-> FALSE, pd |-> 0,
                        q |-> <<>>]
SidOf(s, toClient) == IF toClient THEN s.cid ELSE s.ssid
StOf(s, toClient)  == IF toClient THEN s.cst ELSE s.sst
ConnName(toClient) == IF toClient THEN "client" ELSE "server"
SetSt(w, i, toClient, v) == IF toClient THEN [w EXCEPT !.sl[i].cst = v] ELSE [w EXCEPT !.sl[i].sst = v]
OutRec(toClient, sid, kind, d) == [k |-> "out", conn |-> ConnName(toClient), sid |-> sid, kind |-> kind, d |-> d,
                                   code |-> 0]
ResetCode(sid) == 100 + sid      \* the error code the environment uses for a reset on stream sid
HookRec(i, name) == [k |-> "hook", f |-> i, name |-> name]

\* w = [sl, nxt, out]
RECURSIVE Handle(_, _, _), Run(_, _, _), Drain(_, _), CloseCmd(_, _, _, _), CloseStream(_, _, _)

\* Layer.handle_event of the stream's TCPLayer
Handle(w, i, ev) == IF w.sl[i].paused # "" THEN [w EXCEPT !.sl[i].q = Append(@, ev)] ELSE Run(w, i, ev)

\* event_to_child: CloseConnection(conn) / CloseTcpConnection(conn, half_close)
CloseCmd(w, i, toClient, half) ==
  LET s   == w.sl[i]
      sid == SidOf(s, toClient)
      w1  == IF Has(StOf(s, toClient), 2)
             THEN [SetSt(w, i, toClient, Clr(StOf(s, toClient), 2)) EXCEPT !.out = Append(@, OutRec(toClient, sid, "end", 0))]
             ELSE w
  IN IF half THEN w1
     ELSE LET w2 == IF (CInit(sid) = toClient) \/ ~Uni(sid)
                    THEN [w1 EXCEPT !.out = Append(@, OutRec(toClient, sid, "stop", 0))] ELSE w1
          IN CloseStream(w2, i, toClient)

\* close_stream_layer(stream_layer, client)
CloseStream(w, i, client) ==
  LET s  == w.sl[i]
      w1 == SetSt(w, i, client, Clr(StOf(s, client), 1))
      te == IF client THEN s.cte ELSE s.ste
  IN IF te THEN w1
     ELSE Handle(IF client THEN [w1 EXCEPT !.sl[i].cte = TRUE] ELSE [w1 EXCEPT !.sl[i].ste = TRUE],
                 i, [k |-> "closed", fc |-> client, d |-> 0])

\* TCPLayer._handle_event (start / relay_messages / done)
Run(w, i, ev) ==
  LET s == w.sl[i] IN
  IF s.phase = "start" THEN
       [w EXCEPT !.sl[i].paused = "start", !.out = Append(@, HookRec(i, "tcp_start"))]
  ELSE IF s.phase = "relay" /\ ev.k = "data" THEN
       [w EXCEPT !.sl[i].paused = "msg", !.sl[i].pfc = ev.fc, !.sl[i].pd = ev.d,
                 !.out = Append(@, HookRec(i, "tcp_message"))]
  ELSE IF s.phase = "relay" /\ ev.k = "closed" THEN
       IF Has(s.cst, 1) \/ Has(s.sst, 1)
       THEN CloseCmd(w, i, ~ev.fc, TRUE)          \* half-close towards the other side
       ELSE LET w1 == [w EXCEPT !.sl[i].phase = "done"]
                w2 == IF w1.sl[i].sst # 0 THEN CloseCmd(w1, i, FALSE, FALSE) ELSE w1
                w3 == IF w2.sl[i].cst # 0 THEN CloseCmd(w2, i, TRUE, FALSE) ELSE w2
            \* the tcp_end hook is answered at once by the harness (nothing can happen after it: the layer is done)
            IN [w3 EXCEPT !.out = Append(@, HookRec(i, "tcp_end"))]
  ELSE w

Drain(w, i) == IF w.sl[i].paused = "" /\ w.sl[i].q # <<>>
               THEN Drain(Run([w EXCEPT !.sl[i].q = Tail(@)], i, Head(w.sl[i].q)), i)
               ELSE w

\* Layer.__continue of the TCPLayer after HookCompleted
Resume(w, i) ==
  LET s  == w.sl[i]
      w0 == [w EXCEPT !.sl[i].paused = ""]
  IN CASE s.paused = "start" ->
            IF s.ssid = -1
            THEN \* OpenConnection(server): reserve the next stream id, OpenConnectionCompleted at once
                 LET ix  == Idx(TRUE, Uni(s.cid))
                     sid == w.nxt[ix]
                 IN Drain([w0 EXCEPT !.nxt[ix] = @ + 4, !.sl[i].ssid = sid, !.sl[i].sst = ServerState(sid),
                                     !.sl[i].phase = "relay"], i)
            ELSE Drain([w0 EXCEPT !.sl[i].phase = "relay"], i)
       [] s.paused = "msg" ->
            LET toClient == ~s.pfc IN
            Drain(IF Has(StOf(s, toClient), 2)
                  THEN [w0 EXCEPT !.out = Append(@, OutRec(toClient, SidOf(s, toClient), "data", s.pd))]
                  ELSE w0, i)
       [] OTHER -> Drain(w0, i)

W0(first) == [sl |-> sl, nxt |-> nxt, out |-> <<first>>]
Commit(w) == sl' = w.sl /\ nxt' = w.nxt /\ Emit(w.out)

Find(w, fromClient, sid) ==
  LET hits == { i \in 1..Len(w.sl) : (IF fromClient THEN w.sl[i].cid ELSE w.sl[i].ssid) = sid }
  IN IF hits = {} THEN 0 ELSE CHOOSE i \in hits : TRUE

\* what the environment may still send on (c, sid): nothing after a reset; after a FIN only a reset
MaySend(c, sid, kind) ==
  /\ <<c, sid, "reset">> \notin sent
  /\ (<<c, sid, "fin">> \in sent => kind = "reset")
\* a peer only sends on a stream it opened, or on the receiving half of a bidirectional stream opened towards it
Usable(c, sid) ==
  \/ c = "client" /\ sid \in CStreams
  \/ c = "server" /\ sid \in SStreams
  \/ /\ ~Uni(sid) /\ <<c, sid>> \in mon.alloc     \* the peer has seen mitmproxy use this id

StreamIn(c, sid, kind) ==
  /\ Live /\ ops < MaxOps /\ Usable(c, sid) /\ MaySend(c, sid, kind)
  /\ c \notin cev /\ (LateEvents \/ cev = {})
  /\ (kind \in {"data", "data_end"} => nd <= MaxData)
  /\ ops' = ops + 1 /\ UNCHANGED <<cev, tdone>>
  /\ LET fc  == c = "client"
         d   == IF kind \in {"data", "data_end"} THEN nd ELSE 0
         rec == [k |-> "in", conn |-> c, sid |-> sid, kind |-> kind, d |-> d,
                 code |-> IF kind = "reset" THEN ResetCode(sid) ELSE 0]
     IN /\ nd' = IF d # 0 THEN nd + 1 ELSE nd
        /\ sent' = sent \cup (IF kind = "reset" THEN {<<c, sid, "reset">>}
                              ELSE IF kind \in {"end", "data_end"} THEN {<<c, sid, "fin">>} ELSE {})
        /\ IF tdone THEN UNCHANGED <<sl, nxt>> /\ Emit(<<rec>>)
           ELSE
           LET i0 == Find(W0(rec), fc, sid)
               \* fetch or create the layer
               wA == IF i0 # 0 THEN W0(rec)
                     ELSE IF fc THEN [W0(rec) EXCEPT !.sl = Append(@, NewLayer(sid, -1))]
                     ELSE LET ix == Idx(FALSE, Uni(sid)) IN
                          [W0(rec) EXCEPT !.sl = Append(@, NewLayer(nxt[ix], sid)), !.nxt[ix] = @ + 4]
               i  == IF i0 # 0 THEN i0 ELSE Len(wA.sl)
               wB == IF i0 # 0 THEN wA ELSE Handle(wA, i, [k |-> "start", fc |-> fc, d |-> 0])
               wC == IF d # 0 THEN Handle(wB, i, [k |-> "data", fc |-> fc, d |-> d]) ELSE wB
               wD == IF kind \in {"end", "data_end"} THEN CloseStream(wC, i, fc)
                     ELSE IF kind = "reset" THEN
                          \* preserve stream resets: an empty FIN for the other side's stream id becomes a reset
                          LET wr  == CloseStream([wC EXCEPT !.out = <<>>], i, fc)
                              oid == SidOf(wr.sl[i], ~fc)
                              cv(o) == IF o.k = "out" /\ o.kind = "end" /\ o.sid = oid THEN [o EXCEPT !.kind = "reset", !.code = ResetCode(sid)] ELSE o
                          IN [wr EXCEPT !.out = wC.out \o [j \in 1..Len(wr.out) |-> cv(wr.out[j])]]
                     ELSE wC
           IN Commit(wD)

HookDone(f) ==
  /\ Live /\ f \in 1..Len(sl) /\ sl[f].paused # ""
  /\ UNCHANGED <<cev, tdone, sent, nd, ops>>
  /\ IF tdone THEN /\ sl' = [sl EXCEPT ![f].paused = ""] /\ UNCHANGED nxt      \* swallowed by RawQuicLayer.done
                  /\ Emit(<<[k |-> "hook_done", f |-> f]>>)
     ELSE Commit(Resume(W0([k |-> "hook_done", f |-> f]), f))

RECURSIVE CloseAll(_, _, _)
CloseAll(w, i, fc) ==
  IF i > Len(w.sl) THEN w
  ELSE IF ~fc /\ w.sl[i].ssid = -1
       \* "if conn.timestamp_start is None: continue": the server side of a client-initiated stream is only opened
       \* once its tcp_start hook has completed; such a side is skipped (fix 9962d9340, finding C30-F1)
       THEN CloseAll(w, i + 1, fc)
  ELSE LET w1 == SetSt(w, i, fc, Clr(StOf(w.sl[i], fc), 2))
           w2 == CloseStream([w1 EXCEPT !.out = <<>>], i, fc)
           keep == SelectSeq(w2.out, LAMBDA o : ~(o.k = "out" /\ o.kind = "end"))
       IN CloseAll([w2 EXCEPT !.out = w1.out \o keep], i + 1, fc)

ConnClosed(c) ==
  /\ Live /\ c \notin cev /\ ~tdone /\ Cardinality(cev) < MaxCloses
  /\ UNCHANGED <<sent, nd, ops>>
  /\ LET fc == c = "client"
         rec == [k |-> "conn_closed", conn |-> c]
         \* other_conn.connected: nothing was closed yet
         w0 == IF cev = {} THEN [W0(rec) EXCEPT !.out = Append(@, [k |-> "close_conn", conn |-> Other(c)])]
               ELSE W0(rec)
     IN /\ cev' = cev \cup {c}
        /\ tdone' = (cev # {})
        /\ Commit(CloseAll(w0, 1, fc))

Finish == /\ Live /\ \A i \in 1..Len(sl) : sl[i].paused = ""
          /\ UNCHANGED <<sl, nxt, cev, tdone, sent, nd, ops>> /\ Emit(<<[k |-> "end"]>>)

AllIds == CStreams \cup SStreams \cup { sl[i].cid : i \in 1..Len(sl) } \cup { sl[i].ssid : i \in 1..Len(sl) }
Next == \/ \E c \in {"client", "server"}, sid \in 0..19, kind \in Kinds : StreamIn(c, sid, kind)
        \/ \E f \in 1..MaxOps : HookDone(f)
        \/ \E c \in {"client", "server"} : ConnClosed(c)
        \/ Finish
Spec == Init /\ [][Next]_vars
Report == mon.bad # <<>> => PrintT(<<"BAD", mon.bad>>)
=============================================================================
