--------------------------- MODULE Mon_QuicStreams ---------------------------
(* Monitor for C30: QUIC streams are demultiplexed onto correctly paired streams.

   Observed at the command boundary of the real RawQuicLayer(force_raw=True) (props/C30.py).  A step of the
   environment starts with one input record; the output records that follow (until the next input record) are the
   commands that step produced, in order.
     [k |-> "in", conn, sid, kind, d, code]  QuicStreamDataReceived / QuicStreamReset delivered on (conn, sid);
                                           kind: "data" | "data_end" | "end" | "reset"; d = payload id (0: none);
                                           code = error code of a reset (0 otherwise)
     [k |-> "hook_done", f]                the pending hook of flow f is completed (the addon returned)
     [k |-> "conn_closed", conn]           QuicConnectionClosed delivered for conn
     [k |-> "hook", f, name]               output: tcp_start / tcp_message / tcp_end hook of flow f (tcp_end is
                                           answered by the harness immediately, without a hook_done record)
     [k |-> "out", conn, sid, kind, d, code] output: SendQuicStreamData with data ("data"), SendQuicStreamData
                                           (end_stream) ("end"), ResetQuicStream ("reset"), StopSendingQuicStream ("stop")
     [k |-> "close_conn", conn]            output: CloseQuicConnection(conn)      (not judged)
     [k |-> "end"]                         end of the behaviour; no hook is pending
     [k |-> "raised", exc]                 an exception escaped from RawQuicLayer.handle_event
   conn is "client" or "server"; flows are numbered in order of their tcp_start hook; payload ids are unique.

   Attribution (needed for "reach only the paired stream"): the outputs of a step are caused by the stream the input
   arrived on, or -- for hook_done -- by the stream whose first event created flow f (its tcp_start hook was emitted
   in that step).  A connection close may cause outputs on every stream.                                      *)
EXTENDS Verif

Other(c) == IF c = "client" THEN "server" ELSE "client"
Uni(s)   == (s \div 2) % 2 = 1        \* bit 1: unidirectional
CInit(s) == s % 2 = 0                 \* bit 0 clear: client-initiated
ANY == <<"*", 0>>

MonInit == [bad |-> <<>>, wit |-> {},
            known |-> {},        \* <<conn, sid>>: streams that exist on a connection (peer-opened or allocated)
            pair  |-> {},        \* <<client sid, server sid>>
            alloc |-> {},        \* <<conn, sid>> allocated by mitmproxy
            cause |-> <<>>,      \* <<conn, sid>> | ANY | <<>>
            ckind |-> "",        \* kind of the stream input that started the current step ("": not a stream input)
            ccode |-> 0,         \* its error code (reset)
            rst   |-> {},        \* <<conn, sid>>: a reset arrived on this stream (before any FIN) and was not relayed yet
            flows |-> {},        \* <<f, conn, sid>>: stream that created flow f
            pend  |-> {},        \* flows with a pending hook
            din   |-> <<>>,      \* <<d, conn, sid>> in input order
            dout  |-> {},        \* payload ids already forwarded
            touched |-> {},      \* <<conn, sid>> on which an end or reset arrived
            closed |-> FALSE]    \* a connection close was delivered

PairOf(m, c, s) == IF c = "client" THEN { p[2] : p \in { q \in m.pair : q[1] = s } }
                                   ELSE { p[1] : p \in { q \in m.pair : q[2] = s } }
MkPair(c, s, s2) == IF c = "client" THEN <<s, s2>> ELSE <<s2, s>>
OriginOf(m, d) == { <<t[2], t[3]>> : t \in { u \in ToSet(m.din) : u[1] = d } }
FlowStream(m, f) == { <<t[2], t[3]>> : t \in { u \in m.flows : u[1] = f } }

\* does this output establish a new pairing (first output on the other connection caused by an unpaired stream)?
Allocates(m, ev) == /\ m.cause # <<>> /\ m.cause # ANY
                    /\ ev.conn # m.cause[1]
                    /\ PairOf(m, m.cause[1], m.cause[2]) = {}
PairAfter(m, ev) == IF Allocates(m, ev) THEN m.pair \cup {MkPair(m.cause[1], m.cause[2], ev.sid)} ELSE m.pair

OutClause(m, ev) ==
  LET x == m.cause
      m2 == [m EXCEPT !.pair = PairAfter(m, ev)]
      tgt == <<ev.conn, ev.sid>>
  IN
  IF x = <<>> THEN <<"C30.output_without_cause", ev.kind>>
  \* mitmproxy never resets a stream on its own: a reset is the relayed reset of this step and goes to the other side
  ELSE IF ev.kind = "reset" /\ (m.ckind # "reset" \/ ev.conn = x[1]) THEN <<"C30.reset_misrouted">>
  ELSE IF ev.kind = "reset" /\ ev.code # m.ccode THEN <<"C30.reset_code_changed">>
  \* the reset of a stream must reach the paired stream as a reset, not as a clean end of stream (once a connection
  \* has been closed a pending reset may be folded into the close: not judged)
  ELSE IF ev.kind = "end" /\ ~m.closed /\ \E r \in m.rst : r[1] # ev.conn /\ ev.sid \in PairOf(m2, r[1], r[2])
       THEN <<"C30.reset_relayed_as_fin", IF m.ckind = "reset" THEN "same_step" ELSE "later_step">>
  ELSE IF x = ANY THEN (IF tgt \notin m.known THEN <<"C30.signal_to_unknown_stream", ev.kind>> ELSE <<>>)
  ELSE IF ev.conn = x[1] THEN
       (IF ev.sid # x[2] THEN <<"C30.signal_to_unrelated_stream", ev.kind>> ELSE <<>>)
  ELSE IF Allocates(m, ev) THEN
       (IF tgt \in m.known THEN <<"C30.allocated_id_not_unique">>
        ELSE IF Uni(ev.sid) # Uni(x[2]) THEN <<"C30.direction_bit_wrong">>
        ELSE IF CInit(ev.sid) # CInit(x[2]) THEN <<"C30.initiator_bit_wrong">>
        ELSE <<>>)
  ELSE IF ev.sid \notin PairOf(m, x[1], x[2]) THEN <<"C30.signal_to_unrelated_stream", ev.kind>>
  ELSE <<>>

DataClause(m, ev) ==
  LET O == OriginOf(m, ev.d)
      m2 == [m EXCEPT !.pair = PairAfter(m, ev)]
  IN
  IF O = {} THEN <<"C30.unknown_data">>
  ELSE LET o == CHOOSE t \in O : TRUE IN
       IF ev.conn = o[1] \/ ev.sid \notin PairOf(m2, o[1], o[2]) THEN <<"C30.data_misrouted">>
       ELSE IF ev.d \in m.dout THEN <<"C30.data_duplicated">>
       ELSE IF \E i \in 1..Len(m.din) : /\ m.din[i][1] # ev.d /\ <<m.din[i][2], m.din[i][3]>> = o
                                         /\ i < IndexOf(m.din, <<ev.d, o[1], o[2]>>) /\ m.din[i][1] \notin m.dout
            THEN <<"C30.data_reordered">>
       ELSE <<>>

\* at the end of a behaviour in which nothing was ended, reset or closed on a pair, all its data must have arrived
Untouched(m, c, s) == /\ ~m.closed /\ <<c, s>> \notin m.touched
                      /\ \A s2 \in PairOf(m, c, s) : <<Other(c), s2>> \notin m.touched
EndClause(m) ==
  IF m.pend = {} /\ \E i \in 1..Len(m.din) : m.din[i][1] \notin m.dout /\ Untouched(m, m.din[i][2], m.din[i][3])
  THEN <<"C30.data_lost">> ELSE <<>>

Clause(m, ev) ==
  CASE ev.k = "out" -> LET b == OutClause(m, ev) IN
                       IF b # <<>> THEN b ELSE IF ev.kind = "data" THEN DataClause(m, ev) ELSE <<>>
    [] ev.k = "end" -> EndClause(m)
    \* the layer crashed on an event instead of relaying it
    [] ev.k = "raised" -> <<"C30.raised", ev.exc, IF m.cause = ANY THEN "conn_closed" ELSE "stream_event",
                            IF m.pend # {} THEN "hook_pending" ELSE "no_hook_pending">>
    [] OTHER -> <<>>

MonStep(m, ev) ==
  LET m1 == [m EXCEPT !.bad = Clause(m, ev)] IN
  CASE ev.k = "in" ->
         [m1 EXCEPT !.cause = <<ev.conn, ev.sid>>, !.ckind = ev.kind, !.ccode = ev.code,
                    !.rst = IF ev.kind = "reset" /\ <<ev.conn, ev.sid>> \notin m.touched
                            THEN @ \cup {<<ev.conn, ev.sid>>} ELSE @,
                    !.known = @ \cup {<<ev.conn, ev.sid>>},
                    !.din = IF ev.d # 0 THEN Append(@, <<ev.d, ev.conn, ev.sid>>) ELSE @,
                    !.touched = IF ev.kind \in {"end", "data_end", "reset"} THEN @ \cup {<<ev.conn, ev.sid>>} ELSE @,
                    !.wit = @ \cup (IF m.pend # {} THEN {"input_while_hook_pending"} ELSE {})
                              \cup (IF <<ev.conn, ev.sid>> \in m.alloc THEN {"input_on_allocated_id"} ELSE {})
                              \cup (IF ev.kind = "reset" THEN {"reset_in"} ELSE {})]
    [] ev.k = "hook_done" ->
         [m1 EXCEPT !.cause = IF FlowStream(m, ev.f) = {} THEN <<>> ELSE CHOOSE t \in FlowStream(m, ev.f) : TRUE,
                    !.ckind = "", !.pend = @ \ {ev.f}]
    [] ev.k = "conn_closed" -> [m1 EXCEPT !.cause = ANY, !.ckind = "", !.closed = TRUE, !.wit = @ \cup {"conn_closed"}]
    [] ev.k = "hook" ->
         [m1 EXCEPT !.flows = IF ev.name = "tcp_start" /\ m.cause # <<>> /\ m.cause # ANY /\ FlowStream(m, ev.f) = {}
                              THEN @ \cup {<<ev.f, m.cause[1], m.cause[2]>>} ELSE @,
                    !.pend = IF ev.name = "tcp_end" THEN @ ELSE @ \cup {ev.f}]   \* tcp_end is answered at once
    [] ev.k = "out" ->
         [m1 EXCEPT !.pair = PairAfter(m, ev),
                    !.known = @ \cup {<<ev.conn, ev.sid>>},
                    !.alloc = IF Allocates(m, ev) THEN @ \cup {<<ev.conn, ev.sid>>} ELSE @,
                    !.dout = IF ev.kind = "data" THEN @ \cup {ev.d} ELSE @,
                    !.rst = IF ev.kind = "reset" /\ m.cause # <<>> /\ m.cause # ANY
                            THEN @ \ {<<m.cause[1], m.cause[2]>>} ELSE @,
                    !.wit = @ \cup (IF Allocates(m, ev)
                                    THEN {IF ev.conn = "server" THEN "alloc_on_server" ELSE "alloc_on_client"}
                                         \cup (IF Uni(ev.sid) THEN {"alloc_uni"} ELSE {"alloc_bidi"})
                                         \cup (IF ev.sid # m.cause[2] THEN {"paired_ids_differ"} ELSE {})
                                    ELSE {})
                              \cup (IF ev.kind = "data" THEN {IF ev.conn = "server" THEN "data_to_server" ELSE "data_to_client"}
                                    ELSE {"signal_" \o ev.kind})]
    [] OTHER -> m1
Wit(m) == m.wit
=============================================================================
