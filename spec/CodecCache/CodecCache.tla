----------------------------- MODULE CodecCache -----------------------------
(* Implementation-shaped model of mitmproxy.net.encoding (encode / decode with the shared single-entry cache) and of
   http.Message.set_content / get_content / decode / encode, for NMsg messages that share the process-wide cache.

   Byte strings are terms:  <<"p", i>> plaintext i (i = 0: the empty string),  <<"j", i>> junk that no decoder accepts,
   <<"e", fam, variant, t>> the term t compressed with family fam in {"gz","zl","br","zs"}; variants:
       "canon" what mitmproxy's encoder emits, "alt" another valid stream for the same data (other level),
       "trunc" (gz) the canonical stream without its 8-byte trailer, "raw" (zl) deflate without the zlib wrapper.
   The id of a term (what the harness interns its bytes to) is the Goedel number Id(t) below; lengths are not
   modelled: the model reports rawlen = 0 and cl relative to it (0: equal, -1: no header), as does the harness's
   drift view.  MaxDepth bounds the nesting of terms.  Codings are header values; CK gives the code's treatment of a name, RF the reference family,
   LC its lower-case form:  CK in {"id","gz","zl","br","zs"} (custom_encode/custom_decode entries),
   "x" (codecs lookup fails: LookupError -> ValueError), "t" (a Python text codec such as utf8: encoding bytes
   raises TypeError, decoding yields str).                                                                    *)
EXTENDS Mon_CodecCache, TLC
CONSTANTS MaxDepth, CK, RF, LC,
          WireSet,     \* set of <<ce, term, te>>: messages as they may arrive from the wire
          SetArgs,     \* terms assigned as content
          MCodings,    \* codings for Message.encode
          FCalls,      \* set of <<"enc"|"dec", coding, term>>: direct calls of encoding.encode / decode
          GetStricts,  \* values of `strict` tried for get_content
          MaxOps
VARIABLES cache, msgs, ops, mon, obs
vars == <<cache, msgs, ops, mon, obs>>

Empty == <<"p", 0>>
ERR == <<"err">>
NoTerm == <<"none">>
NoCache == [e |-> NoTerm, c |-> "", d |-> NoTerm]        \* CachedDecode(None, None, None, None)
Absent == [present |-> FALSE, ce |-> "-", raw |-> NoTerm, cl |-> -1, te |-> FALSE]

FamIdx == [gz |-> 0, zl |-> 1, br |-> 2, zs |-> 3]
VarIdx == [canon |-> 0, alt |-> 1, trunc |-> 2, raw |-> 3]
RECURSIVE Id(_), Depth(_)
Id(t) == CASE t[1] = "p" -> 1 + t[2]
           [] t[1] = "j" -> 5 + t[2]
           [] t[1] = "e" -> 10 + 20 * Id(t[4]) + 5 * FamIdx[t[2]] + VarIdx[t[3]]
           [] OTHER -> 0                                                   \* ERR, NoTerm
Depth(t) == IF t[1] = "e" THEN 1 + Depth(t[4]) ELSE 0
Custom == {"gz", "zl", "br", "zs"}

\* ---- the codecs themselves (custom_encode / custom_decode) --------------------------------------------------
Enc(k, t) == <<"e", k, "canon", t>>
\* what the real decoders accept: decode_gzip uses zlib auto-detection (gzip or zlib wrapper) and never checks that
\* the stream is complete; decode_deflate falls back to raw deflate; brotli / zstd are strict.
CodeAccepts(k, t) ==
  /\ t[1] = "e"
  /\ \/ t[2] = k /\ t[3] \in (CASE k = "gz" -> {"canon", "alt", "trunc"} [] k = "zl" -> {"canon", "alt", "raw"}
                                [] OTHER -> {"canon", "alt"})
     \/ k = "gz" /\ t[2] = "zl" /\ t[3] \in {"canon", "alt"}
CodeDec(k, t) == IF t = Empty THEN Empty ELSE IF CodeAccepts(k, t) THEN t[4] ELSE ERR
\* the reference decoders (complete streams of the right format only: zero bytes are not a stream, although the
\* code's own decoders return b"" for them)
RefDec(f, t) == IF f = "id" THEN t
                ELSE IF f = "x" THEN ERR
                ELSE IF t[1] = "e" /\ t[2] = f /\ t[3] \in (IF f = "zl" THEN {"canon", "alt", "raw"} ELSE {"canon", "alt"})
                     THEN t[4] ELSE ERR

\* ---- encoding.encode / encoding.decode (net/encoding.py) ----------------------------------------------------
\* result: [exc, res, cache]
EncodeOp(ch, d, c) ==
  LET lc == LC[c]  k == CK[c] IN
  IF ch.d = d /\ ch.c = lc THEN [exc |-> "", res |-> ch.e, cache |-> ch]                  \* cache hit
  ELSE IF k = "x" THEN [exc |-> "ValueError", res |-> ERR, cache |-> ch]
  ELSE IF k = "t" THEN [exc |-> "TypeError", res |-> ERR, cache |-> ch]
  ELSE IF k = "id" THEN [exc |-> "", res |-> d, cache |-> ch]                               \* identity is not cached
  ELSE [exc |-> "", res |-> Enc(k, d), cache |-> [e |-> Enc(k, d), c |-> lc, d |-> d]]
DecodeOp(ch, e, c) ==
  LET lc == LC[c]  k == CK[c] IN
  IF ch.e = e /\ ch.c = lc THEN [exc |-> "", res |-> ch.d, cache |-> ch]                  \* cache hit
  ELSE IF k \in {"x", "t"} THEN [exc |-> "ValueError", res |-> ERR, cache |-> ch]          \* "t": callers reject the str
  ELSE IF k = "id" THEN [exc |-> "", res |-> e, cache |-> ch]
  ELSE IF CodeDec(k, e) = ERR THEN [exc |-> "ValueError", res |-> ERR, cache |-> ch]
  ELSE [exc |-> "", res |-> CodeDec(k, e), cache |-> [e |-> e, c |-> lc, d |-> CodeDec(k, e)]]

\* ---- http.Message -------------------------------------------------------------------------------------------
WithRaw(msg, ce, raw) == [msg EXCEPT !.ce = ce, !.raw = raw, !.cl = IF msg.te THEN @ ELSE 0]
\* set_content: encode with the header's coding; an invalid coding removes the header; TypeError escapes
SetContentOp(ch, msg, v) ==
  LET r == EncodeOp(ch, v, IF msg.ce = "-" THEN "identity" ELSE msg.ce) IN
  IF r.exc = "ValueError" THEN [exc |-> "", msg |-> WithRaw(msg, "-", v), cache |-> ch]
  ELSE IF r.exc # "" THEN [exc |-> r.exc, msg |-> msg, cache |-> ch]
  ELSE [exc |-> "", msg |-> WithRaw(msg, msg.ce, r.res), cache |-> r.cache]
\* get_content(strict): result [exc, res, cache]
GetContentOp(ch, msg, strict) ==
  IF msg.ce = "-" THEN [exc |-> "", res |-> msg.raw, cache |-> ch]
  ELSE LET r == DecodeOp(ch, msg.raw, msg.ce) IN
       IF r.exc = "" THEN r
       ELSE IF strict THEN r ELSE [exc |-> "", res |-> msg.raw, cache |-> ch]
\* Message.decode(strict): nothing for an empty body; else get_content, drop the header, assign the content
MsgDecodeOp(ch, msg, strict) ==
  IF msg.raw = Empty THEN [exc |-> "", msg |-> msg, cache |-> ch]
  ELSE LET g == GetContentOp(ch, msg, strict) IN
       IF g.exc # "" THEN [exc |-> g.exc, msg |-> msg, cache |-> ch]
       ELSE SetContentOp(g.cache, [msg EXCEPT !.ce = "-"], g.res)
\* Message.encode(c): set the header, assign content = raw (NOT decoded beforehand), complain if the header vanished
MsgEncodeOp(ch, msg, c) ==
  LET s == SetContentOp(ch, [msg EXCEPT !.ce = c], msg.raw) IN
  IF s.exc # "" THEN s                                  \* TypeError: the new header stays on the message
  ELSE IF s.msg.ce = "-" THEN [s EXCEPT !.exc = "ValueError"]
  ELSE s

\* ---- projections (the same records props/C31.py logs) -----------------------------------------------------
FamOf(ce) == IF ce = "-" THEN "id" ELSE RF[ce]
St(msg) == [ce |-> msg.ce, fam |-> FamOf(msg.ce), raw |-> Id(msg.raw), empty |-> msg.raw = Empty, rawlen |-> 0, cl |-> msg.cl,
            te |-> msg.te, rd |-> Id(RefDec(FamOf(msg.ce), msg.raw))]

Init == cache = NoCache /\ msgs = [i \in 1..NMsg |-> Absent] /\ ops = 0 /\ mon = MonInit /\ obs = <<>>
Emit(evs) == obs' = evs /\ mon' = FoldEvents(MonStep, mon, evs)
Live == mon.bad = <<>>
Step == ops < MaxOps /\ ops' = ops + 1

Wire(m, w) ==
  /\ Live /\ Step /\ ~msgs[m].present
  /\ \A j \in 1..(m - 1) : msgs[j].present                      \* messages are created in index order (symmetry)
  /\ LET msg == [present |-> TRUE, ce |-> w[1], raw |-> w[2], te |-> w[3], cl |-> IF w[3] THEN -1 ELSE 0] IN
     /\ msgs' = [msgs EXCEPT ![m] = msg]
     /\ UNCHANGED cache
     /\ Emit(<<[k |-> "wire", m |-> m, st |-> St(msg)]>>)

SetContent(m, v) ==
  /\ Live /\ Step /\ msgs[m].present
  /\ LET r == SetContentOp(cache, msgs[m], v)  f == SetContentOp(NoCache, msgs[m], v) IN
     /\ msgs' = [msgs EXCEPT ![m] = r.msg] /\ cache' = r.cache
     /\ Emit(<<[k |-> "set", m |-> m, arg |-> Id(v), exc |-> r.exc, st |-> St(r.msg), fexc |-> f.exc, fst |-> St(f.msg)]>>)

GetContent(m, strict) ==
  /\ Live /\ Step /\ msgs[m].present
  /\ LET r == GetContentOp(cache, msgs[m], strict)  f == GetContentOp(NoCache, msgs[m], strict) IN
     /\ cache' = r.cache /\ UNCHANGED msgs
     /\ Emit(<<[k |-> "get", m |-> m, strict |-> strict, exc |-> r.exc, res |-> Id(r.res),
                fexc |-> f.exc, fres |-> Id(f.res)]>>)

DecodeMsg(m, strict) ==
  /\ Live /\ Step /\ msgs[m].present
  /\ LET r == MsgDecodeOp(cache, msgs[m], strict)  f == MsgDecodeOp(NoCache, msgs[m], strict) IN
     /\ msgs' = [msgs EXCEPT ![m] = r.msg] /\ cache' = r.cache
     /\ Emit(<<[k |-> "mdec", m |-> m, strict |-> strict, exc |-> r.exc, st |-> St(r.msg), fexc |-> f.exc, fst |-> St(f.msg)]>>)

EncodeMsg(m, c) ==
  /\ Live /\ Step /\ msgs[m].present
  /\ LET r == MsgEncodeOp(cache, msgs[m], c)  f == MsgEncodeOp(NoCache, msgs[m], c) IN
     /\ Depth(r.msg.raw) <= MaxDepth /\ Depth(f.msg.raw) <= MaxDepth     \* bound the nesting of terms
     /\ msgs' = [msgs EXCEPT ![m] = r.msg] /\ cache' = r.cache
     /\ Emit(<<[k |-> "menc", m |-> m, c |-> c, fam |-> RF[c], exc |-> r.exc, st |-> St(r.msg), fexc |-> f.exc, fst |-> St(f.msg)]>>)

\* direct calls of the module functions (what other parts of mitmproxy do between message edits)
FuncCall(fc) ==
  /\ Live /\ Step /\ UNCHANGED msgs
  /\ IF fc[1] = "enc"
     THEN LET r == EncodeOp(cache, fc[3], fc[2])  f == EncodeOp(NoCache, fc[3], fc[2]) IN
          /\ cache' = r.cache
          /\ Emit(<<[k |-> "fenc", c |-> fc[2], fam |-> RF[fc[2]], arg |-> Id(fc[3]), exc |-> r.exc, res |-> Id(r.res),
                     rd |-> Id(RefDec(RF[fc[2]], r.res)), fexc |-> f.exc, fres |-> Id(f.res),
                     frd |-> Id(RefDec(RF[fc[2]], f.res))]>>)
     ELSE LET r == DecodeOp(cache, fc[3], fc[2])  f == DecodeOp(NoCache, fc[3], fc[2]) IN
          /\ cache' = r.cache
          /\ Emit(<<[k |-> "fdec", c |-> fc[2], fam |-> RF[fc[2]], arg |-> Id(fc[3]), rd |-> Id(RefDec(RF[fc[2]], fc[3])),
                     exc |-> r.exc, res |-> Id(r.res), fexc |-> f.exc, fres |-> Id(f.res)]>>)

Next == \/ \E m \in 1..NMsg, w \in WireSet : Wire(m, w)
        \/ \E m \in 1..NMsg, v \in SetArgs : SetContent(m, v)
        \/ \E m \in 1..NMsg, s \in GetStricts : GetContent(m, s)
        \/ \E m \in 1..NMsg, s \in BOOLEAN : DecodeMsg(m, s)
        \/ \E m \in 1..NMsg, c \in MCodings : EncodeMsg(m, c)
        \/ \E fc \in FCalls : FuncCall(fc)
Spec == Init /\ [][Next]_vars
Report == mon.bad # <<>> => PrintT(<<"BAD", mon.bad>>)
=============================================================================
