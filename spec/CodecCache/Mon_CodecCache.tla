--------------------------- MODULE Mon_CodecCache ---------------------------
(* Monitor for C31: Content-Encoding round-trips and the codec cache is transparent.

   Byte strings never reach TLC: props/C31.py interns them to integers (equal bytes <=> equal id; 0 = "no value":
   the call raised, or the reference decoder rejects).  Oracles (computed by the harness with zlib / brotli / zstd
   called directly, never with mitmproxy.net.encoding):
     fam  : reference classification of a coding name, case-insensitive, as listed in the statement:
            "id" (identity or no header), "gz" gzip, "zl" deflate, "br", "zs" zstd, "x" anything else
     rd   : id of the reference decoding of a body under a coding (0: the reference rejects it / fam = "x")
   A message state is  st = [ce (header value, "-" if absent), fam, raw, empty (raw is b""), rawlen,
                             cl (-1: absent / not a number), te (a Transfer-Encoding header is present), rd].
   f-prefixed fields (fexc, fres, frd, fst) are the same call made on a copy with a pristine codec cache: the
   property says no result depends on what was encoded or decoded earlier.
   Event records:
     [k |-> "fenc", c, fam, arg, exc, res, rd (of res), fexc, fres, frd]        encoding.encode(arg, c)
     [k |-> "fdec", c, fam, arg, rd (of arg), exc, res, fexc, fres]             encoding.decode(arg, c)
     [k |-> "wire", m, st]                          message m is (re)built as received: header ce, body raw
     [k |-> "set",  m, arg, exc, st, fexc, fst]     m.content = arg
     [k |-> "get",  m, strict, exc, res, fexc, fres] m.get_content(strict)
     [k |-> "mdec", m, strict, exc, st, fexc, fst]  m.decode(strict)
     [k |-> "menc", m, c, fam, exc, st, fexc, fst]  m.encode(c)                                            *)
EXTENDS Verif
CONSTANTS NMsg

NoSt == [ce |-> "-", fam |-> "id", raw |-> 0, empty |-> FALSE, rawlen |-> 0, cl |-> 0, te |-> FALSE, rd |-> 0]
MonInit == [bad |-> <<>>, wit |-> {},
            last  |-> [i \in 1..NMsg |-> NoSt],   \* last observed state of message i
            known |-> [i \in 1..NMsg |-> 0],      \* id of the content message i must have (0: nothing is owed)
            how   |-> [i \in 1..NMsg |-> "none"], \* which operation established known[i]
            lenient |-> {}]                        \* bodies the code decoded although the reference rejects them
                                                   \* or decodes them to something else (e.g. multi-member gzip)

Plain(st) == st.fam = "id"
Ok(ev) == ev.exc = ""
\* why an assigned body is not reference-decodable: only because of the history, or regardless of it
Cause(m, raw, freshOk) == IF ~freshOk THEN "always"
                          ELSE IF raw \in m.lenient THEN "reuses_leniently_decoded_body" ELSE "history"

\* clauses for an operation that assigned content `arg` to a message whose state is now st (set, menc on a plain message)
Assigned(m, ev, arg) ==
  IF ev.st.fam # "x" /\ ev.st.rd # arg
     THEN <<"C31.raw_not_decodable", ev.st.fam, Cause(m, ev.st.raw, ev.fexc = "" /\ ev.fst.rd = arg)>>
  ELSE IF ~ev.st.te /\ ev.st.cl # ev.st.rawlen THEN <<"C31.content_length", ev.st.fam>>
  ELSE <<>>

HistState(m, ev, op) ==
  IF (ev.exc = "") # (ev.fexc = "") \/ (Ok(ev) /\ (ev.st.ce # ev.fst.ce \/ ev.st.rd # ev.fst.rd))
     THEN <<"C31.history_dependent", op, ev.st.fam,
            IF Ok(ev) /\ ev.st.raw \in m.lenient THEN "reuses_leniently_decoded_body" ELSE "other">>
  ELSE <<>>

First(a, b) == IF a # <<>> THEN a ELSE b

Clause(m, ev) ==
  CASE ev.k = "set" ->
         IF m.last[ev.m].fam # "x" /\ ~Ok(ev) THEN <<"C31.set_raised", m.last[ev.m].fam, ev.exc>>
         ELSE IF Ok(ev) THEN First(Assigned(m, ev, ev.arg), HistState(m, ev, "set"))
         ELSE HistState(m, ev, "set")
    [] ev.k = "get" ->
         IF m.known[ev.m] # 0 /\ m.last[ev.m].fam # "x" /\ (~Ok(ev) \/ ev.res # m.known[ev.m])
            THEN <<"C31.readback", m.last[ev.m].fam, m.how[ev.m]>>
         ELSE IF ev.exc # ev.fexc \/ ev.res # ev.fres THEN <<"C31.history_dependent", "get", m.last[ev.m].fam, "other">>
         ELSE <<>>
    [] ev.k = "mdec" -> HistState(m, ev, "mdec")
    [] ev.k = "menc" ->
         IF Plain(m.last[ev.m]) /\ ev.fam # "x"
         THEN IF ~Ok(ev) THEN <<"C31.reencode_raised", ev.fam, ev.exc>>
              ELSE First(Assigned(m, ev, m.last[ev.m].raw), HistState(m, ev, "menc"))
         ELSE HistState(m, ev, "menc")
    [] ev.k = "fenc" ->
         IF (ev.exc = "") # (ev.fexc = "") \/ ev.rd # ev.frd
            THEN <<"C31.history_dependent", "encode", ev.fam,
                   IF ev.res \in m.lenient THEN "reuses_leniently_decoded_body" ELSE "other">>
         ELSE <<>>
    [] ev.k = "fdec" ->
         IF ev.exc # ev.fexc \/ ev.res # ev.fres THEN <<"C31.history_dependent", "decode", ev.fam, "other">> ELSE <<>>
    [] OTHER -> <<>>

W(c, s) == IF c THEN {s} ELSE {}

MonStep(m, ev) ==
  LET m1 == [m EXCEPT !.bad = Clause(m, ev)] IN
  CASE ev.k = "wire" ->
         [m1 EXCEPT !.last[ev.m] = ev.st, !.known[ev.m] = 0, !.how[ev.m] = "none",
                    !.wit = @ \cup W(ev.st.fam \notin {"id", "x"} /\ ev.st.rd = 0 /\ ev.st.raw # 0, "wire_invalid_data")
                              \cup W(ev.st.te, "transfer_encoding")]
    [] ev.k = "set" ->
         [m1 EXCEPT !.last[ev.m] = ev.st,
                    !.known[ev.m] = IF Ok(ev) THEN ev.arg ELSE 0, !.how[ev.m] = "set",
                    !.wit = @ \cup W(Ok(ev) /\ ev.st.fam \notin {"id", "x"}, "set_coded")
                              \cup W(Ok(ev) /\ ev.st.fam \notin {"id", "x"} /\ ev.st.rd = ev.arg /\ ev.st.rd # 0 /\ ev.arg = 1,
                                     "set_empty_content_coded")
                              \cup W(Ok(ev) /\ m.last[ev.m].fam = "x", "set_unknown_coding")
                              \cup W(Ok(ev) /\ ev.st.raw # ev.fst.raw /\ ev.st.rd = ev.fst.rd, "set_served_from_cache")
                              \cup W(~Ok(ev), "set_raised")]
    [] ev.k = "get" ->
         [m1 EXCEPT !.known[ev.m] = IF Ok(ev) /\ ev.strict THEN ev.res ELSE @,
                    !.how[ev.m] = IF Ok(ev) /\ ev.strict /\ m.known[ev.m] = 0 THEN "get" ELSE @,
                    !.lenient = @ \cup (IF Ok(ev) /\ m.last[ev.m].fam \notin {"id", "x"} /\ m.last[ev.m].rd # ev.res
                                           /\ (ev.strict \/ ev.res # m.last[ev.m].raw \/ m.last[ev.m].empty)
                                        THEN {m.last[ev.m].raw} ELSE {}),
                    !.wit = @ \cup W(m.known[ev.m] # 0 /\ m.last[ev.m].fam # "x", "readback_" \o m.how[ev.m])
                              \cup W(~Ok(ev), "get_raised")
                              \cup W(Ok(ev) /\ m.last[ev.m].fam \notin {"id", "x"} /\ m.last[ev.m].rd # ev.res
                                     /\ (ev.strict \/ ev.res # m.last[ev.m].raw \/ m.last[ev.m].empty), "lenient_decode")
                              \cup W(Ok(ev) /\ m.last[ev.m].empty /\ m.last[ev.m].fam \notin {"id", "x"}, "get_empty_coded_body")]
    [] ev.k = "mdec" ->
         [m1 EXCEPT !.last[ev.m] = ev.st, !.how[ev.m] = IF m.known[ev.m] # 0 THEN "mdec" ELSE @,
                    !.lenient = @ \cup (IF Ok(ev) /\ m.last[ev.m].fam \notin {"id", "x"} /\ Plain(ev.st)
                                           /\ m.last[ev.m].rd # ev.st.raw /\ ev.st.raw # m.last[ev.m].raw
                                        THEN {m.last[ev.m].raw} ELSE {}),
                    !.wit = @ \cup W(Ok(ev) /\ ~Plain(m.last[ev.m]) /\ Plain(ev.st), "msg_decoded")]
    [] ev.k = "menc" ->
         LET keep == Plain(m.last[ev.m]) /\ ev.fam # "x" /\ Ok(ev) IN
         [m1 EXCEPT !.last[ev.m] = ev.st,
                    !.known[ev.m] = IF keep THEN @ ELSE 0,
                    !.how[ev.m] = IF keep /\ m.known[ev.m] # 0 THEN "menc" ELSE @,
                    !.wit = @ \cup W(keep /\ ev.fam # "id", "msg_reencoded") \cup W(~Plain(m.last[ev.m]), "double_encode")]
    [] ev.k = "fenc" ->
         [m1 EXCEPT !.wit = @ \cup W(Ok(ev) /\ ev.res # ev.fres /\ ev.rd = ev.frd, "encode_served_from_cache")
                              \cup W(Ok(ev), "fenc")]
    [] ev.k = "fdec" ->
         [m1 EXCEPT !.lenient = @ \cup (IF Ok(ev) /\ ev.fam \notin {"id", "x"} /\ ev.rd # ev.res THEN {ev.arg} ELSE {}),
                    !.wit = @ \cup W(Ok(ev), "fdec") \cup W(~Ok(ev), "fdec_raised")]
    [] OTHER -> m1
Wit(m) == m.wit
=============================================================================
