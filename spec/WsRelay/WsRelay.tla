------------------------------- MODULE WsRelay -------------------------------
(* Implementation-shaped model of mitmproxy/proxy/layers/websocket.py: WebsocketLayer.relay_messages, WebsocketConnection
   .frame_buf and Fragmentizer, together with the pause/queue machinery of Layer (a websocket_message hook pauses the
   layer; events that arrive meanwhile wait in Layer._paused_event_queue).

   Contents are sequences of characters; a character is a number whose last digit is its UTF-8 width (1..4) and whose
   other digits distinguish characters; 3 alone is U+FFFD (what bytes.decode(errors="replace") produces).  Binary
   contents use width-1 characters (= bytes).  Lengths are in bytes, FS is Fragmentizer.FRAGMENT_SIZE.

     Feed       = Layer.handle_event                (queue while the hook is pending)
     Items      = src_ws.receive_data / the injection branch, then the "for ws_event in src_ws.events()" loop:
                  frame_buf bookkeeping (wsproto's incremental UTF-8 decoder only hands out completed characters)
     Handle     = the body of that loop for a finished message / ping, pong / close
     HookDone   = the code after "yield WebsocketMessageHook": Fragmentizer(message.content), then the rest of the
                  loop, then Layer.__continue's drain of the queue
     Fragmentize= Fragmentizer.__call__, ._end and .msg (cuts moved back to character starts for text)          *)
EXTENDS Mon_WsRelay, TLC
CONSTANTS Msgs,       \* sequence of message templates [typ, chars, frames]; frames = payload lengths, sum = bytes
          Edits,      \* sequence of contents an addon may write
          Injects,    \* sequence of <<typ, content>> an addon may inject
          FS,         \* Fragmentizer.FRAGMENT_SIZE (>= 4)
          MaxMsgs,    \* bound on the number of messages the peers send
          MaxExtra,   \* bound on the number of other environment events (ping/pong, close, EOF, injection)
          Acts,       \* what the addon may do in the hook: subset of -1..Len(Edits) (-1 drop, 0 keep, e: write Edits[e])
          Batches,    \* BOOLEAN: two messages may arrive in one TCP segment
          AfterClose, \* BOOLEAN: peers keep sending after the layer has processed a close
          WithFinish  \* BOOLEAN: the end-of-behaviour step is part of the graph (FALSE: the harness appends it to every
                      \* replayed behaviour itself, which halves the dumped graph)
VARIABLES env,      \* per direction: template being sent and number of frames sent; closed: close frame/EOF sent
          cur,      \* per direction, layer side: [dc: characters decoded so far, fl: finished frame_buf entries]
          hk,       \* pending websocket_message hook [on, d, typ, c, fl, inj]
          rest,     \* ws events of the current batch not handled yet (the for loop is suspended at the hook)
          q,        \* Layer._paused_event_queue
          done,     \* _handle_event = done
          cnt,      \* [msgs, extra]
          mon, obs
vars == <<env, cur, hk, rest, q, done, cnt, mon, obs>>

NoHook == [on |-> FALSE, d |-> "", typ |-> "", c |-> <<>>, fl |-> <<>>, inj |-> FALSE]
Init == /\ env = [d \in Dirs |-> [t |-> 0, j |-> 0, closed |-> FALSE, ictl |-> FALSE]]
        /\ cur = [d \in Dirs |-> [dc |-> <<>>, fl |-> <<>>]]
        /\ hk = NoHook /\ rest = <<>> /\ q = <<>> /\ done = FALSE
        /\ cnt = [msgs |-> 0, extra |-> 0] /\ mon = MonInit /\ obs = <<>>

Ended == obs # <<>> /\ obs[Len(obs)].k = "end"
Live == mon.bad = <<>> /\ ~Ended
EnvOk == Live /\ (AfterClose \/ ~done)
Emit(evs) == obs' = evs /\ mon' = FoldEvents(MonStep, mon, evs)

\* ---- contents ----------------------------------------------------------------------------------------------
W(c) == c % 10
RECURSIVE Bytes(_), Sum(_)
Bytes(cs) == IF cs = <<>> THEN 0 ELSE W(Head(cs)) + Bytes(Tail(cs))
Sum(ls)   == IF ls = <<>> THEN 0 ELSE Head(ls) + Sum(Tail(ls))
Multi(typ, cs) == typ = "text" /\ \E i \in 1..Len(cs) : W(cs[i]) > 1
Rep(n) == [i \in 1..n |-> 3]
\* characters of cs (first one starts at byte offset o) that bytes[a:b].decode(errors="replace") yields
RECURSIVE Piece(_, _, _, _)
Piece(cs, o, a, b) ==
  IF cs = <<>> THEN <<>> ELSE
  LET c == Head(cs)  e == o + W(c)
      here == IF o >= a /\ e <= b THEN <<c>>                          \* whole character inside
              ELSE IF o < a /\ e > a THEN Rep(Min2(e, b) - a)         \* orphaned continuation bytes: one U+FFFD each
              ELSE IF o >= a /\ o < b /\ e > b THEN <<3>>              \* truncated at the end: one U+FFFD
              ELSE <<>>
  IN here \o Piece(Tail(cs), e, a, b)
\* characters completed within byte range (a, b]: what wsproto's incremental decoder hands out for one frame
RECURSIVE Completed(_, _, _, _)
Completed(cs, o, a, b) ==
  IF cs = <<>> THEN <<>> ELSE
  LET e == o + W(Head(cs)) IN
  (IF e > a /\ e <= b THEN <<Head(cs)>> ELSE <<>>) \o Completed(Tail(cs), e, a, b)
RECURSIVE Offs(_, _)
Offs(ls, o) == IF ls = <<>> THEN <<>> ELSE <<o + Head(ls)>> \o Offs(Tail(ls), o + Head(ls))     \* end offsets
RECURSIVE Concat(_)
Concat(ss) == IF ss = <<>> THEN <<>> ELSE Head(ss) \o Concat(Tail(ss))
\* a frame boundary inside a multi-byte character
RECURSIVE CharEnds(_, _)
CharEnds(cs, o) == IF cs = <<>> THEN {0} ELSE {o + W(Head(cs))} \cup CharEnds(Tail(cs), o + W(Head(cs)))
Split(t) == t.typ = "text" /\ \E i \in 1..(Len(t.frames) - 1) : Offs(t.frames, 0)[i] \notin CharEnds(t.chars, 0)

\* Fragmentizer._end: a cut of a text message is moved back to the start of the UTF-8 sequence it would split
End(typ, cs, e) == IF typ # "text" \/ e \in CharEnds(cs, 0) \/ e >= Bytes(cs) THEN e
                   ELSE MaxOf({ b \in CharEnds(cs, 0) : b < e })
\* end offsets of the pieces: same-length path (old lengths, applied from the moved offset) / re-chunk path
RECURSIVE KeepCuts(_, _, _, _), ChunkCuts(_, _, _)
KeepCuts(typ, cs, lens, off) ==
  IF Len(lens) <= 1 THEN <<Bytes(cs)>>
  ELSE LET e == Max2(off, End(typ, cs, off + Head(lens))) IN <<e>> \o KeepCuts(typ, cs, Tail(lens), e)
ChunkCuts(typ, cs, off) ==
  IF off < Bytes(cs) - FS
  THEN LET e0 == End(typ, cs, off + FS)
           e  == IF e0 <= off THEN off + FS ELSE e0
       IN <<e>> \o ChunkCuts(typ, cs, e)
  ELSE <<Bytes(cs)>>
\* Fragmentizer(fragments = fl, is_text)(content): <<delivered content, lengths of the frames on the wire>>
Fragmentize(typ, content, fl) ==
  LET n    == Bytes(content)
      ends == IF n = Sum(fl) /\ fl # <<>> THEN KeepCuts(typ, content, fl, 0) ELSE ChunkCuts(typ, content, 0)
      pcs  == [i \in 1..Len(ends) |-> Piece(content, 0, IF i = 1 THEN 0 ELSE ends[i - 1], ends[i])]
  IN IF typ = "text" THEN <<Concat(pcs), [i \in 1..Len(pcs) |-> Bytes(pcs[i])]>>
     ELSE <<content, [i \in 1..Len(ends) |-> ends[i] - (IF i = 1 THEN 0 ELSE ends[i - 1])]>>

\* ---- ws events and their handling -------------------------------------------------------------------------
Item(k, d, typ, c, fl, inj, code) == [k |-> k, d |-> d, typ |-> typ, c |-> c, fl |-> fl, inj |-> inj, code |-> code]
Dst(d) == IF d = "c2s" THEN "server" ELSE "client"
Src(d) == IF d = "c2s" THEN "client" ELSE "server"

\* w = [cur, hk, rest, q, done, out]
\* the ws events one input produces (receive_data + events(), or the injection branch), with the frame_buf updates
OneFrame(w, inp) ==
         LET t    == Msgs[inp.t]
             ends == Offs(t.frames, 0)
             a    == IF inp.j = 1 THEN 0 ELSE ends[inp.j - 1]
             got  == IF t.typ = "text" THEN Completed(t.chars, 0, a, ends[inp.j])
                     ELSE Piece(t.chars, 0, a, ends[inp.j])
             c    == w.cur[inp.d]
             dc   == c.dc \o got
             fl   == Append(c.fl, Bytes(got))
         IN IF inp.j = Len(t.frames)
            THEN [w EXCEPT !.cur[inp.d] = [dc |-> <<>>, fl |-> <<>>],
                           !.rest = Append(@, Item("msg", inp.d, t.typ, dc, fl, FALSE, 0))]
            ELSE [w EXCEPT !.cur[inp.d] = [dc |-> dc, fl |-> fl]]
RECURSIVE FrameItems(_, _, _, _)
FrameItems(w, d, t, j) == IF j > Len(Msgs[t].frames) THEN w
                          ELSE FrameItems(OneFrame(w, [k |-> "frame", d |-> d, t |-> t, j |-> j]), d, t, j + 1)
Items(w, inp) ==
  CASE inp.k = "two" -> FrameItems(FrameItems(w, inp.d, inp.t, 1), inp.d, inp.j, 1)   \* fields t, j: the two templates
    [] inp.k = "frame" -> OneFrame(w, inp)
    [] inp.k = "inject" ->
         \* Fragmentizer([], is_text)(content) appended to src_ws._events: merges into a message in progress
         LET fr == Fragmentize(inp.typ, inp.c, <<>>)
             c  == w.cur[inp.d]
         IN [w EXCEPT !.cur[inp.d] = [dc |-> <<>>, fl |-> <<>>],
                      !.rest = Append(@, Item("msg", inp.d, inp.typ, c.dc \o fr[1], c.fl \o fr[2], TRUE, 0))]
    [] OTHER -> [w EXCEPT !.rest = Append(@, Item(inp.k, inp.d, inp.typ, inp.c, <<>>, FALSE, inp.code))]

CloseOut(to, code, reason) == [k |-> "close_out", to |-> to, code |-> code, reason |-> reason]
Handle(w, it) ==
  CASE it.k = "msg" ->
         [w EXCEPT !.hk = [on |-> TRUE, d |-> it.d, typ |-> it.typ, c |-> it.c, fl |-> it.fl, inj |-> it.inj],
                   !.out = Append(@, [k |-> "hook", d |-> it.d, typ |-> it.typ, c |-> it.c, inj |-> it.inj])]
    [] it.k = "ctl" ->
         [w EXCEPT !.out = Append(@, [k |-> "ctl_out", d |-> it.d, op |-> it.typ, c |-> it.c])]
    [] it.k = "close" ->     \* both wsproto connections can still send: close frame to both, then both connections closed
         [w EXCEPT !.done = TRUE,
                   !.out = @ \o <<CloseOut("server", it.code, it.c), [k |-> "conn_close", to |-> "server"],
                                  CloseOut("client", it.code, it.c), [k |-> "conn_close", to |-> "client"],
                                  [k |-> "closed", by |-> it.d, code |-> it.code, reason |-> it.c]>>]
    [] it.k = "eof" ->       \* receive_data(None): code 1006, nothing can be sent to the side that went away
         [w EXCEPT !.done = TRUE,
                   !.out = @ \o (IF it.d = "c2s"
                                 THEN <<CloseOut("server", 1000, <<>>), [k |-> "conn_close", to |-> "server"],
                                        [k |-> "conn_close", to |-> "client"]>>
                                 ELSE <<[k |-> "conn_close", to |-> "server"],
                                        CloseOut("client", 1000, <<>>), [k |-> "conn_close", to |-> "client"]>>)
                                \o <<[k |-> "closed", by |-> it.d, code |-> 1006, reason |-> <<>>]>>]

RECURSIVE Run(_)
Run(w) == IF w.hk.on \/ w.rest = <<>> THEN w
          ELSE Run(Handle([w EXCEPT !.rest = Tail(@)], Head(w.rest)))
\* Layer.handle_event: queue while paused; relay_messages otherwise (done: swallowed)
Feed(w, inp) == IF w.hk.on THEN [w EXCEPT !.q = Append(@, inp)]
                ELSE IF w.done THEN w
                ELSE Run(Items(w, inp))
RECURSIVE DrainQ(_)
DrainQ(w) == IF w.hk.on \/ w.q = <<>> THEN w
             ELSE DrainQ(Feed([w EXCEPT !.q = Tail(@)], Head(w.q)))

W0(first) == [cur |-> cur, hk |-> hk, rest |-> rest, q |-> q, done |-> done, out |-> first]
Commit(w) == /\ cur' = w.cur /\ hk' = w.hk /\ rest' = w.rest /\ q' = w.q /\ done' = w.done /\ Emit(w.out)

Inp(k, d, t, j, typ, c, code) == [k |-> k, d |-> d, t |-> t, j |-> j, typ |-> typ, c |-> c, code |-> code]
MsgIn(d, t, ictl) == [k |-> "msg_in", d |-> d, typ |-> Msgs[t].typ, c |-> Msgs[t].chars, frags |-> Msgs[t].frames,
                      split |-> Split(Msgs[t]), ictl |-> ictl, z |-> FALSE]   \* z: set by the harness, see props/C28.py

\* ---- environment -------------------------------------------------------------------------------------------
\* the peer of direction d puts the next frame of a message on the wire (one or more TCP segments, cut anywhere)
SendFrame(d, t) ==
  /\ EnvOk /\ ~env[d].closed
  /\ IF env[d].t = 0 THEN t \in 1..Len(Msgs) /\ cnt.msgs < MaxMsgs ELSE t = env[d].t
  /\ LET j    == env[d].j + 1
         last == j = Len(Msgs[t].frames)
     IN /\ env' = [env EXCEPT ![d] = IF last THEN [@ EXCEPT !.t = 0, !.j = 0, !.ictl = FALSE] ELSE [@ EXCEPT !.t = t, !.j = j]]
        /\ cnt' = IF env[d].t = 0 THEN [cnt EXCEPT !.msgs = @ + 1] ELSE cnt
        /\ Commit(Feed(W0(IF last THEN <<MsgIn(d, t, env[d].ictl)>> ELSE <<>>), Inp("frame", d, t, j, "", <<>>, 0)))

\* two complete messages in one TCP segment: the second one waits inside the for loop while the first is in its hook
SendTwo(d, t1, t2) ==
  /\ EnvOk /\ Batches /\ ~env[d].closed /\ env[d].t = 0 /\ cnt.msgs + 2 <= MaxMsgs
  /\ t1 \in 1..Len(Msgs) /\ t2 \in 1..Len(Msgs)
  /\ cnt' = [cnt EXCEPT !.msgs = @ + 2] /\ UNCHANGED env
  /\ Commit(Feed(W0(<<MsgIn(d, t1, FALSE), MsgIn(d, t2, FALSE)>>), Inp("two", d, t1, t2, "", <<>>, 0)))

SendCtl(d, op) ==
  /\ EnvOk /\ ~env[d].closed /\ cnt.extra < MaxExtra
  /\ cnt' = [cnt EXCEPT !.extra = @ + 1]
  /\ env' = [env EXCEPT ![d].ictl = @ \/ env[d].t # 0]
  /\ Commit(Feed(W0(<<[k |-> "ctl_in", d |-> d, op |-> op, c |-> <<11>>, mid |-> env[d].t # 0, z |-> FALSE]>>), Inp("ctl", d, 0, 0, op, <<11>>, 0)))

SendClose(d, withCode) ==
  /\ EnvOk /\ ~env[d].closed /\ env[d].t = 0 /\ cnt.extra < MaxExtra
  /\ env' = [env EXCEPT ![d].closed = TRUE] /\ cnt' = [cnt EXCEPT !.extra = @ + 1]
  /\ LET code == IF withCode THEN 4000 ELSE 1005
         rsn  == IF withCode THEN <<21, 11>> ELSE <<>>
     IN Commit(Feed(W0(<<[k |-> "close_in", d |-> d, code |-> code, reason |-> rsn]>>),
                    Inp("close", d, 0, 0, "", rsn, code)))

SendEof(d) ==
  /\ EnvOk /\ ~env[d].closed /\ cnt.extra < MaxExtra
  /\ env' = [env EXCEPT ![d].closed = TRUE] /\ cnt' = [cnt EXCEPT !.extra = @ + 1]
  /\ Commit(Feed(W0(<<[k |-> "eof", d |-> d]>>), Inp("eof", d, 0, 0, "", <<>>, 0)))

Inject(d, n) ==
  /\ EnvOk /\ n \in 1..Len(Injects) /\ cnt.extra < MaxExtra
  /\ cnt' = [cnt EXCEPT !.extra = @ + 1] /\ UNCHANGED env
  /\ LET typ == Injects[n][1]  c == Injects[n][2] IN
     Commit(Feed(W0(<<[k |-> "inject", d |-> d, typ |-> typ, c |-> c, mid |-> env[d].t # 0, mb |-> Multi(typ, c)]>>),
                 Inp("inject", d, 0, 0, typ, c, 0)))

\* the addon returns from the websocket_message hook; e = 0: keep, e = -1: drop, else write Edits[e]
HookDone(e) ==
  /\ Live /\ hk.on /\ e \in Acts
  /\ UNCHANGED <<env, cnt>>
  /\ LET act  == IF e = 0 THEN "keep" ELSE IF e = -1 THEN "drop" ELSE "edit"
         newc == IF e > 0 THEN Edits[e] ELSE hk.c
         fr   == Fragmentize(hk.typ, newc, hk.fl)
         w0   == [W0(<<[k |-> "hook_done", act |-> act, c |-> newc, mb |-> Multi(hk.typ, newc)]>>) EXCEPT !.hk = NoHook]
         w1   == IF act = "drop" THEN w0
                 ELSE [w0 EXCEPT !.out = Append(@, [k |-> "deliver", d |-> hk.d, typ |-> hk.typ, c |-> fr[1], frags |-> fr[2]])]
     IN Commit(DrainQ(Run(w1)))

Finish == /\ Live /\ WithFinish /\ UNCHANGED <<env, cur, hk, rest, q, done, cnt>> /\ Emit(<<[k |-> "end"]>>)

Next == \/ \E d \in Dirs, t \in 1..Len(Msgs) : SendFrame(d, t)
        \/ \E d \in Dirs, t1 \in 1..Len(Msgs), t2 \in 1..Len(Msgs) : SendTwo(d, t1, t2)
        \/ \E d \in Dirs, op \in {"ping", "pong"} : SendCtl(d, op)
        \/ \E d \in Dirs, b \in BOOLEAN : SendClose(d, b)
        \/ \E d \in Dirs : SendEof(d)
        \/ \E d \in Dirs, n \in 1..Len(Injects) : Inject(d, n)
        \/ \E e \in (-1)..Len(Edits) : HookDone(e)
        \/ Finish
Spec == Init /\ [][Next]_vars
Report == mon.bad # <<>> => PrintT(<<"BAD", mon.bad>>)
=============================================================================
