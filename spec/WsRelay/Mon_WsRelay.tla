----------------------------- MODULE Mon_WsRelay -----------------------------
(* Monitor for C28: WebSocket messages are relayed exactly once with their exact content.

   Observed on the real WebsocketLayer placed between two in-memory peers (props/C28.py): what the peers put on the
   wire is written by the harness, what mitmproxy sends is decoded by wsproto peers plus an RFC 6455 frame reader.
   d is the direction of travel: "c2s" (sent by the client, delivered to the server) or "s2c".
     [k |-> "msg_in", d, typ, c, frags, split, ictl, z]
                                                 peer finished sending a message: type "text"|"binary", content c,
                                                 frame payload lengths; split: a frame boundary falls inside a
                                                 multi-byte character (text only); ictl: the peer sent a ping/pong
                                                 between the fragments; z: permessage-deflate is in use
     [k |-> "inject", d, typ, c, mid, mb]        an addon injects a message for direction d; mid: the peer of that
                                                 direction is in the middle of a fragmented message; mb: text with
                                                 multi-byte characters
     [k |-> "hook", d, typ, c, inj]              websocket_message hook: flow.websocket.messages[-1] as recorded
     [k |-> "hook_done", act, c, mb]             the addon returns: act "keep"|"edit"|"drop"; c = content now recorded
     [k |-> "deliver", d, typ, c, frags]         the receiving peer decoded one complete message
     [k |-> "ctl_in", d, op, c, mid, z]          ping/pong sent by a peer (mid: between the fragments of a message)
     [k |-> "ctl_out", d, op, c]                 ping/pong received by the other peer
     [k |-> "close_in", d, code, reason]         close frame sent by the peer of direction d (no code: 1005, "")
     [k |-> "eof", d]                            that peer closed its connection without a close frame
     [k |-> "closed", by, code, reason]          websocket_end hook: flow.websocket.closed_by_client/close_code/reason
     [k |-> "close_out", to, ..], [k |-> "conn_close", to]   what mitmproxy sent/closed (predictions, not judged)
     [k |-> "end"]                               end of the behaviour
     [k |-> "raised", exc]                       an exception escaped from the layer
   Contents, payloads and reasons are values compared for equality only (interned byte strings in traces).
   Under permessage-deflate the projection reports every frame length as 0 (only the number of frames is comparable:
   compressed payload sizes depend on the compressor state).                                               *)
EXTENDS Verif

Dirs == {"c2s", "s2c"}
MonInit == [bad |-> <<>>, wit |-> {},
            sent |-> [d \in Dirs |-> <<>>],   \* messages the peer sent that are not recorded yet
            inj  |-> [d \in Dirs |-> <<>>],   \* injections not recorded yet
            rec  |-> <<>>,                    \* recorded messages, see RecOf
            ctl  |-> [d \in Dirs |-> <<>>],   \* <<op, c>> control frames not relayed yet
            cin  |-> [d \in Dirs |-> <<>>],   \* <<code, reason>> close frames the peer sent
            eof  |-> {},
            mi   |-> {},                      \* directions in which an addon injected between a peer's fragments
            zc   |-> {},                      \* directions in which a ping/pong was sent between compressed fragments
            closed |-> FALSE]

RecOf(ev, s) == [d |-> ev.d, typ |-> ev.typ, c |-> ev.c, inj |-> ev.inj, st |-> "hook", act |-> "",
                 frags |-> s.frags, split |-> s.split, mb |-> FALSE, dl |-> FALSE]
NoSrc == [frags |-> <<>>, split |-> FALSE]
HookIdx(m) == { i \in 1..Len(m.rec) : m.rec[i].st = "hook" }
Todo(m, d) == { i \in 1..Len(m.rec) : m.rec[i].d = d /\ m.rec[i].st = "done" /\ m.rec[i].act # "drop" /\ ~m.rec[i].dl }
MinOf(S) == CHOOSE i \in S : \A j \in S : i <= j
MaxOf(S) == CHOOSE i \in S : \A j \in S : i >= j
Mb(b) == IF b THEN "multibyte" ELSE "ascii"

\* a message whose hook has completed is forwarded synchronously: when the environment acts again it must be there
Lost(m) == IF \E d \in Dirs : Todo(m, d) # {}
           THEN LET d == CHOOSE x \in Dirs : Todo(m, x) # {}
                    r == m.rec[MinOf(Todo(m, d))]
                IN <<"C28.message_lost", r.typ, r.act>>
           ELSE <<>>
Quiet(m) == ~m.closed /\ HookIdx(m) = {}
EndClause(m) ==
  IF Lost(m) # <<>> THEN Lost(m)
  ELSE IF Quiet(m) /\ \E d \in Dirs : m.sent[d] # <<>> \/ m.inj[d] # <<>> THEN <<"C28.message_not_recorded">>
  ELSE IF Quiet(m) /\ \E d \in Dirs : m.ctl[d] # <<>> THEN <<"C28.control_not_relayed">>
  ELSE <<>>

HookClause(m, ev) ==
  IF ev.inj THEN
       IF m.inj[ev.d] = <<>> THEN <<"C28.phantom_message", ev.typ, "injected">>
       ELSE LET s == Head(m.inj[ev.d]) IN
            IF s.typ # ev.typ \/ s.c # ev.c
            THEN <<"C28.injected_altered", s.typ, IF s.mid THEN "mid_message" ELSE "idle", Mb(s.mb)>> ELSE <<>>
  ELSE IF m.sent[ev.d] = <<>> THEN <<"C28.phantom_message", ev.typ, "peer">>
       ELSE LET s == Head(m.sent[ev.d]) IN
            IF s.typ # ev.typ \/ s.c # ev.c
            THEN <<"C28.recorded_differs_from_sent", s.typ, IF s.ictl THEN "ctl_between_fragments" ELSE "contiguous",
                   IF s.z THEN "deflate" ELSE "plain">> ELSE <<>>

DeliverClause(m, ev) ==
  LET I == Todo(m, ev.d) IN
  IF I = {} THEN <<"C28.unexpected_delivery", ev.typ>>          \* duplicate, dropped-but-sent, or never recorded
  ELSE LET r == m.rec[MinOf(I)] IN
       IF r.c # ev.c /\ \E j \in I \ {MinOf(I)} : m.rec[j].c = ev.c /\ m.rec[j].typ = ev.typ THEN <<"C28.out_of_order">>
       ELSE IF r.typ # ev.typ THEN <<"C28.type_changed", r.typ, r.act>>
       ELSE IF r.c # ev.c THEN <<"C28.content_changed", r.typ, r.act, Mb(r.mb)>>
       ELSE IF r.act = "keep" /\ ~r.inj /\ r.frags # ev.frags
            THEN <<"C28.frame_boundaries_changed", r.typ,
                   IF r.split THEN "split_char"
                   ELSE IF r.d \in m.mi THEN "after_injection_between_fragments" ELSE "whole_chars">>
       ELSE <<>>

CtlClause(m, ev) ==
  IF m.ctl[ev.d] = <<>> THEN <<"C28.control_phantom", ev.op>>
  ELSE IF Head(m.ctl[ev.d]) # <<ev.op, ev.c>> THEN <<"C28.control_altered", ev.op>>
  ELSE <<>>

ClosedClause(m, ev) ==
  IF m.cin[ev.by] # <<>> THEN
       (IF Head(m.cin[ev.by])[1] # ev.code
        THEN <<"C28.close_code_misrecorded",
               IF ev.by \in m.zc THEN "ctl_between_compressed_fragments" ELSE "other">>
        ELSE IF Head(m.cin[ev.by])[2] # ev.reason THEN <<"C28.close_reason_misrecorded">>
        \* everything this peer sent before its close frame was processed before it
        ELSE IF m.sent[ev.by] # <<>> THEN <<"C28.message_not_recorded">>
        ELSE IF m.ctl[ev.by] # <<>> THEN <<"C28.control_not_relayed">>
        ELSE <<>>)
  ELSE IF ev.by \in m.eof THEN <<>>
  ELSE <<"C28.close_misattributed",
         IF ev.by \in m.zc THEN "ctl_between_compressed_fragments" ELSE "other">>

Clause(m, ev) ==
  CASE ev.k \in {"msg_in", "inject", "ctl_in", "close_in", "eof"} -> Lost(m)
    [] ev.k = "end"     -> EndClause(m)
    [] ev.k = "hook"    -> HookClause(m, ev)
    [] ev.k = "deliver" -> DeliverClause(m, ev)
    [] ev.k = "ctl_out" -> CtlClause(m, ev)
    [] ev.k = "closed"  -> ClosedClause(m, ev)
    [] ev.k = "raised"  -> <<"C28.raised", ev.exc>>
    [] OTHER -> <<>>

MonStep(m, ev) ==
  LET m1 == [m EXCEPT !.bad = Clause(m, ev)] IN
  CASE ev.k = "msg_in" ->
         [m1 EXCEPT !.sent[ev.d] = Append(@, [typ |-> ev.typ, c |-> ev.c, frags |-> ev.frags, split |-> ev.split,
                                                      ictl |-> ev.ictl, z |-> ev.z]),
                    !.wit = @ \cup {ev.typ} \cup (IF Len(ev.frags) > 1 THEN {"fragmented"} ELSE {})
                              \cup (IF ev.split THEN {"split_char"} ELSE {})
                              \cup (IF ev.ictl THEN {"ctl_between_fragments"} ELSE {})
                              \cup (IF ev.z THEN {"deflate"} ELSE {"plain"})
                              \cup (IF HookIdx(m) # {} THEN {"input_while_hook_pending"} ELSE {})
                              \cup (IF \E i \in 1..Len(ev.frags) : ev.frags[i] = 0 THEN {"empty_fragment"} ELSE {})]
    [] ev.k = "inject" ->
         [m1 EXCEPT !.inj[ev.d] = Append(@, [typ |-> ev.typ, c |-> ev.c, mid |-> ev.mid, mb |-> ev.mb]),
                    !.mi = IF ev.mid THEN @ \cup {ev.d} ELSE @,
                    !.wit = @ \cup {"inject"} \cup (IF ev.mid THEN {"inject_mid_message"} ELSE {})]
    [] ev.k = "hook" ->
         [m1 EXCEPT !.rec = Append(@, RecOf(ev, IF ~ev.inj /\ m.sent[ev.d] # <<>> THEN Head(m.sent[ev.d]) ELSE NoSrc)),
                    !.sent[ev.d] = IF ~ev.inj /\ @ # <<>> THEN Tail(@) ELSE @,
                    !.inj[ev.d] = IF ev.inj /\ @ # <<>> THEN Tail(@) ELSE @,
                    !.wit = @ \cup {"dir_" \o ev.d}]
    [] ev.k = "hook_done" ->
         IF HookIdx(m) = {} THEN m1
         ELSE LET i == MaxOf(HookIdx(m)) IN
              [m1 EXCEPT !.rec[i].st = "done", !.rec[i].act = ev.act, !.rec[i].c = ev.c, !.rec[i].mb = ev.mb,
                         !.wit = @ \cup {"act_" \o ev.act}
                                   \cup (IF ev.act = "keep" /\ Len(m.rec[i].frags) > 1 THEN {"keep_fragmented"} ELSE {})
                                   \cup (IF ev.act = "edit" /\ ev.mb THEN {"edit_multibyte"} ELSE {})]
    [] ev.k = "deliver" ->
         IF Todo(m, ev.d) = {} THEN m1
         ELSE [m1 EXCEPT !.rec[MinOf(Todo(m, ev.d))].dl = TRUE,
                         !.wit = @ \cup {"deliver"} \cup (IF Len(ev.frags) > 1 THEN {"deliver_fragmented"} ELSE {})]
    [] ev.k = "ctl_in"  -> [m1 EXCEPT !.ctl[ev.d] = Append(@, <<ev.op, ev.c>>), !.wit = @ \cup {ev.op},
                                      !.zc = IF ev.mid /\ ev.z THEN @ \cup {ev.d} ELSE @]
    [] ev.k = "ctl_out" -> [m1 EXCEPT !.ctl[ev.d] = IF @ # <<>> THEN Tail(@) ELSE @, !.wit = @ \cup {"ctl_relayed"}]
    [] ev.k = "close_in" -> [m1 EXCEPT !.cin[ev.d] = Append(@, <<ev.code, ev.reason>>),
                                       !.wit = @ \cup {IF ev.code = 1005 THEN "close_without_code" ELSE "close_with_code"}]
    [] ev.k = "eof"     -> [m1 EXCEPT !.eof = @ \cup {ev.d}, !.wit = @ \cup {"eof"}]
    [] ev.k = "closed"  -> [m1 EXCEPT !.closed = TRUE, !.wit = @ \cup {"closed"}]
    [] OTHER -> m1
Wit(m) == m.wit
=============================================================================
