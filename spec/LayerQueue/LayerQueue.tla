----------------------------- MODULE LayerQueue -----------------------------
(* Implementation-shaped model of mitmproxy/proxy/layer.py: Layer.handle_event / __process / __continue and
   NextLayer, for the stack  NextLayer -> Router R -> children.

   A feed (one call of the top layer's handle_event) is synchronous in the code, so it is one action here; what
   happens inside it is computed by the operators below, which follow the code:
     Deliver  = Layer.handle_event of a child  (queue while paused, else run the handler)
     RunSteps = __process                      (run the generator to the next blocking yield or to its end)
     Resume   = __continue                     (send the reply into the paused generator, then drain the queue
                                                until paused again)
     RPush    = Layer.handle_event of the router R: R is itself a Layer; while it waits for the completion of a
                command of its own, EVERYTHING that arrives for it -- events for the children and completions of the
                children's commands (a CommandCompleted that is not the awaited one) -- goes to R's paused-event
                queue and is replayed, in order, when R resumes (RDrain).
     NextLayer: events buffered until an ask chooses a layer; while the next_layer hook is pending, events wait in
     NextLayer's own paused-event queue; after the choice the buffered events are replayed, then the queued ones are
     handed to the chosen layer by the same drain loop (the three re-assignments).
   A child's handler for event e follows script Scripts[e.s]: a sequence of "emit" (non-blocking command) and
   "block" (blocking command) steps.  The router's handler for an event of its own blocks exactly once.          *)
EXTENDS Mon_LayerQueue, TLC
CONSTANTS MaxEvents, Scripts
VARIABLES nl,        \* NextLayer: [phase: "fresh"|"asking"|"chosen", cmd, buffer, queue]
          rt,        \* router: [paused, cur, queue];  queue items: [t |-> "ev", ev] | [t |-> "done", L, c, r]
          ch,        \* child layer state: [paused, cur, rest, queue]
          nextCmd, nextEv, mon, obs
vars == <<nl, rt, ch, nextCmd, nextEv, mon, obs>>

Init == /\ nl = [phase |-> "fresh", cmd |-> 0, buffer |-> <<>>, queue |-> <<>>]
        /\ rt = [paused |-> 0, cur |-> 0, queue |-> <<>>]
        /\ ch = [L \in Children |-> [paused |-> 0, cur |-> 0, rest |-> <<>>, queue |-> <<>>]]
        /\ nextCmd = 1 /\ nextEv = 1 /\ mon = MonInit /\ obs = <<>>

Ended == obs = <<[k |-> "end"]>>
Live == mon.bad = <<>> /\ ~Ended
Emit(evs) == obs' = evs /\ mon' = FoldEvents(MonStep, mon, evs)

\* w = [ch, rt, nextCmd, out]: the part of the state a feed changes, plus the records it emits
RECURSIVE RunSteps(_, _), Drain(_, _), Enter(_, _, _)
RunSteps(w, L) ==
  LET c == w.ch[L] IN
  IF c.rest = <<>>
    THEN Drain([w EXCEPT !.ch[L].cur = 0, !.out = Append(@, [k |-> "exit", L |-> L, e |-> c.cur])], L)
  ELSE IF Head(c.rest) = "block"
    THEN [w EXCEPT !.ch[L].rest = Tail(c.rest), !.ch[L].paused = w.nextCmd, !.nextCmd = @ + 1,
                   !.out = Append(@, [k |-> "block", L |-> L, c |-> w.nextCmd])]
  ELSE RunSteps([w EXCEPT !.ch[L].rest = Tail(c.rest)], L)
Enter(w, L, ev) ==
  RunSteps([w EXCEPT !.ch[L].cur = ev.id, !.ch[L].rest = Scripts[ev.s],
                     !.out = Append(@, [k |-> "enter", L |-> L, e |-> ev.id])], L)
\* only reached from __continue: while not self._paused and self._paused_event_queue
Drain(w, L) ==
  IF w.ch[L].paused = 0 /\ w.ch[L].queue # <<>>
    THEN Enter([w EXCEPT !.ch[L].queue = Tail(@)], L, Head(w.ch[L].queue))
    ELSE w
Deliver(w, ev) ==
  IF w.ch[ev.L].paused # 0 THEN [w EXCEPT !.ch[ev.L].queue = Append(@, ev)] ELSE Enter(w, ev.L, ev)
ResumeChild(w, L, c, r) ==
  RunSteps([w EXCEPT !.ch[L].paused = 0, !.out = Append(@, [k |-> "resume", L |-> L, c |-> c, r |-> r])], L)

\* the router's own _handle_event for one item, when R is not paused
Process(w, item) ==
  IF item.t = "done" THEN ResumeChild(w, item.L, item.c, item.r)      \* command_sources routing
  ELSE IF item.ev.L = "R"
    THEN [w EXCEPT !.rt.cur = item.ev.id, !.rt.paused = w.nextCmd, !.nextCmd = @ + 1,
                   !.out = @ \o <<[k |-> "enter", L |-> "R", e |-> item.ev.id],
                                   [k |-> "block", L |-> "R", c |-> w.nextCmd]>>]
  ELSE Deliver(w, item.ev)
RPush(w, item) == IF w.rt.paused # 0 THEN [w EXCEPT !.rt.queue = Append(@, item)] ELSE Process(w, item)
RECURSIVE RPushAll(_, _), RDrain(_)
RPushAll(w, evs) == IF evs = <<>> THEN w ELSE RPushAll(RPush(w, [t |-> "ev", ev |-> Head(evs)]), Tail(evs))
RDrain(w) == IF w.rt.paused = 0 /\ w.rt.queue # <<>>
               THEN RDrain(Process([w EXCEPT !.rt.queue = Tail(@)], Head(w.rt.queue)))
               ELSE w

W0(first) == [ch |-> ch, rt |-> rt, nextCmd |-> nextCmd, out |-> <<first>>]
Commit(w) == ch' = w.ch /\ rt' = w.rt /\ nextCmd' = w.nextCmd /\ Emit(w.out)

Arrive(L, s) ==
  /\ Live /\ nextEv <= MaxEvents /\ nextEv' = nextEv + 1
  /\ LET ev == [id |-> nextEv, L |-> L, s |-> s]
         rec == [k |-> "arrive", L |-> L, e |-> nextEv]
     IN CASE nl.phase = "fresh" ->      \* NextLayer._handle_event: buffer, then _ask()
               /\ nl' = [nl EXCEPT !.phase = "asking", !.cmd = nextCmd, !.buffer = Append(@, ev)]
               /\ nextCmd' = nextCmd + 1 /\ UNCHANGED <<ch, rt>>
               /\ Emit(<<rec, [k |-> "ask", c |-> nextCmd]>>)
          [] nl.phase = "asking" ->     \* Layer.handle_event while paused on the hook
               /\ nl' = [nl EXCEPT !.queue = Append(@, ev)]
               /\ UNCHANGED <<ch, rt, nextCmd>> /\ Emit(<<rec>>)
          [] nl.phase = "chosen" ->
               /\ UNCHANGED nl /\ Commit(RPush(W0(rec), [t |-> "ev", ev |-> ev]))

\* completion of the next_layer hook; the addon either chose a layer or did not
AskDone(choose) ==
  /\ Live /\ nl.phase = "asking" /\ UNCHANGED nextEv
  /\ LET rec == [k |-> "ask_done", c |-> nl.cmd, chosen |-> choose] IN
     IF choose
       THEN /\ nl' = [nl EXCEPT !.phase = "chosen", !.buffer = <<>>, !.queue = <<>>]
            /\ Commit(RPushAll(RPushAll(W0(rec), nl.buffer), nl.queue))
       ELSE IF nl.queue = <<>>
         THEN /\ nl' = [nl EXCEPT !.phase = "fresh"] /\ UNCHANGED <<ch, rt, nextCmd>> /\ Emit(<<rec>>)
         ELSE \* drain loop pops one queued event into NextLayer._handle_event, which asks again
              /\ nl' = [nl EXCEPT !.buffer = Append(@, Head(nl.queue)), !.queue = Tail(@), !.cmd = nextCmd]
              /\ nextCmd' = nextCmd + 1 /\ UNCHANGED <<ch, rt>>
              /\ Emit(<<rec, [k |-> "ask", c |-> nextCmd]>>)

\* the environment completes the blocking command child L waits for (at most once per command)
InFlight(c) == \E i \in 1..Len(rt.queue) : rt.queue[i].t = "done" /\ rt.queue[i].c = c
Complete(L) ==
  /\ Live /\ ch[L].paused # 0 /\ ~InFlight(ch[L].paused) /\ UNCHANGED <<nl, nextEv>>
  /\ LET c == ch[L].paused
         r == 10 + c
     IN Commit(RPush(W0([k |-> "complete", c |-> c, r |-> r]), [t |-> "done", L |-> L, c |-> c, r |-> r]))

\* ... or the router's own command: the paused router generator finishes, then R's queue is drained
CompleteR ==
  /\ Live /\ rt.paused # 0 /\ UNCHANGED <<nl, nextEv>>
  /\ LET c == rt.paused
         r == 10 + c
         w == [W0([k |-> "complete", c |-> c, r |-> r]) EXCEPT
                 !.rt.paused = 0, !.rt.cur = 0,
                 !.out = @ \o <<[k |-> "resume", L |-> "R", c |-> c, r |-> r],
                                 [k |-> "exit", L |-> "R", e |-> rt.cur]>>]
     IN Commit(RDrain(w))

Finish == /\ Live
          /\ UNCHANGED <<nl, rt, ch, nextCmd, nextEv>> /\ Emit(<<[k |-> "end"]>>)

Next == \/ \E L \in Children, s \in 1..Len(Scripts) : Arrive(L, s)
        \/ Arrive("R", 1)
        \/ \E b \in BOOLEAN : AskDone(b)
        \/ \E L \in Children : Complete(L)
        \/ CompleteR
        \/ Finish
Spec == Init /\ [][Next]_vars
Report == mon.bad # <<>> => PrintT(<<"BAD", mon.bad>>)
=============================================================================
