--------------------------- MODULE Mon_LayerQueue ---------------------------
(* Monitor for C04: blocked layers process events exactly once, in order.

   Observed on a stack  NextLayer -> Router -> {child layers}  built from the real mitmproxy.proxy.layer.Layer /
   NextLayer classes (props/C04.py).  Event records:
     [k |-> "arrive",  L, e]        environment delivers event e, destined for child layer L
     [k |-> "enter",   L, e]        L._handle_event(e) starts running
     [k |-> "exit",    L, e]        ... and runs to completion
     [k |-> "block",   L, c]        L yields blocking command c
     [k |-> "complete", c, r]       environment delivers the completion of c carrying reply r
     [k |-> "resume",  L, c, r]     L's paused handler continues; it received value r from yield c
     [k |-> "ask", c] / [k |-> "ask_done", c, chosen]   next_layer hook of the NextLayer in front
     [k |-> "end"]                  end of the behaviour
   Layers are strings, events and commands small integers.  The layer "R" is the router, i.e. the layer ABOVE the
   children in Children; it handles events of its own (blocking once per event) and forwards everything else.
   While R waits for a completion, everything below it is legitimately held back (a blocked layer blocks the layers
   below it, never the ones above).  "T" is a tunnel layer above R (mitmproxy.proxy.tunnel.TunnelLayer, used by the
   tunnel scenarios of props/C04.py only): it waits while its own OpenConnection for the tunnel connection is
   outstanding; its continuation is synchronous, so the completion of that command ends the wait.            *)
EXTENDS Verif
CONSTANTS Children
Layers == Children \cup {"R", "T"}

MonInit == [bad |-> <<>>, wit |-> {},
            arr |-> [L \in Layers |-> <<>>],   \* events that arrived for L, in order
            ent |-> [L \in Layers |-> 0],      \* how many of them L has started handling
            cur |-> [L \in Layers |-> 0],      \* event L is handling right now (0: none)
            wait |-> [L \in Layers |-> 0],     \* blocking command L is waiting for (0: none)
            completed |-> {},                  \* <<c, r>> delivered by the environment
            chosen |-> FALSE]                  \* has the protocol (next layer) been chosen

\* checked whenever the environment acts again: everything that could run synchronously must have run
\* L can run right now: the protocol is chosen and no layer above L is waiting
Free(m, L) == /\ m.chosen
              /\ (L = "T" \/ m.wait["T"] = 0)
              /\ (L \in {"T", "R"} \/ m.wait["R"] = 0)
Stalled(m) ==
  IF \E L \in Layers : Free(m, L) /\ m.wait[L] = 0 /\ m.cur[L] = 0 /\ m.ent[L] < Len(m.arr[L])
    THEN <<"C04.event_delayed_or_lost">>
  ELSE IF \E L \in Layers : Free(m, L) /\ m.wait[L] # 0 /\ \E p \in m.completed : p[1] = m.wait[L]
    THEN <<"C04.completion_not_delivered">>
  ELSE IF \E L \in Layers : m.cur[L] # 0 /\ m.wait[L] = 0
    THEN <<"C04.handler_abandoned">>
  ELSE <<>>

Clause(m, ev) ==
  CASE ev.k \in {"arrive", "complete", "ask_done", "end", "ask"} -> Stalled(m)
    [] ev.k = "enter" ->
         IF ~m.chosen THEN <<"C04.entered_before_protocol_chosen">>
         ELSE IF m.wait[ev.L] # 0 THEN <<"C04.entered_while_blocked">>
         ELSE IF m.cur[ev.L] # 0 THEN <<"C04.entered_while_handling">>
         ELSE IF m.ent[ev.L] >= Len(m.arr[ev.L]) THEN <<"C04.duplicate_or_phantom_event">>
         ELSE IF m.arr[ev.L][m.ent[ev.L] + 1] # ev.e THEN <<"C04.out_of_order">>
         ELSE <<>>
    [] ev.k = "resume" ->
         IF m.wait[ev.L] # ev.c THEN <<"C04.resumed_with_foreign_completion">>
         ELSE IF <<ev.c, ev.r>> \notin m.completed THEN <<"C04.resumed_with_wrong_reply">>
         ELSE <<>>
    [] ev.k = "exit" -> IF m.cur[ev.L] # ev.e THEN <<"C04.exit_mismatch">> ELSE <<>>
    [] OTHER -> <<>>

MonStep(m, ev) ==
  LET m1 == [m EXCEPT !.bad = IF m.bad # <<>> THEN m.bad ELSE Clause(m, ev)] IN
  CASE ev.k = "arrive" -> [m1 EXCEPT !.arr[ev.L] = Append(@, ev.e),
                                     !.wit = @ \cup (IF \E K \in Layers : K # ev.L /\ m.wait[K] # 0 /\ m.wait[ev.L] = 0 /\ m.chosen
                                                     THEN {"arrive_while_sibling_blocked"} ELSE {})
                                                \cup (IF m.wait[ev.L] # 0 THEN {"arrive_while_blocked"} ELSE {})
                                                \cup (IF ev.L # "R" /\ m.wait["R"] # 0 THEN {"arrive_while_parent_blocked"} ELSE {})
                                                \cup (IF m.wait["T"] # 0 THEN {"arrive_while_tunnel_opening"} ELSE {})
                                                \cup (IF Get(ev, "hs", FALSE) THEN {"arrive_during_tunnel_handshake"} ELSE {})
                                                \cup (IF ~m.chosen THEN {"arrive_before_choice"} ELSE {})]
    [] ev.k = "enter"  -> [m1 EXCEPT !.ent[ev.L] = @ + 1, !.cur[ev.L] = ev.e]
    [] ev.k = "exit"   -> [m1 EXCEPT !.cur[ev.L] = 0]
    [] ev.k = "block"  -> [m1 EXCEPT !.wait[ev.L] = ev.c]
    [] ev.k = "complete" -> [m1 EXCEPT !.completed = @ \cup {<<ev.c, ev.r>>},
                                       !.wait["T"] = IF m.wait["T"] = ev.c THEN 0 ELSE @,
                                       !.wit = @ \cup (IF m.wait["R"] # 0 /\ m.wait["R"] # ev.c
                                                       THEN {"child_completion_while_parent_blocked"} ELSE {})]
    [] ev.k = "resume" -> [m1 EXCEPT !.wait[ev.L] = 0,
                                     !.wit = @ \cup {"resume"} \cup (IF m.ent[ev.L] < Len(m.arr[ev.L]) THEN {"resume_with_queue"} ELSE {})]
    [] ev.k = "ask_done" -> [m1 EXCEPT !.chosen = ev.chosen, !.wit = @ \cup (IF ev.chosen THEN {"chosen"} ELSE {"not_chosen"})]
    [] OTHER -> m1
Wit(m) == m.wit
=============================================================================
