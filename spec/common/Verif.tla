------------------------------- MODULE Verif -------------------------------
(* Helpers shared by all monitors / models / trace specifications.
   From SequencesExt: ToSet(s), Contains(s, e), IsPrefix, FoldLeft, ...       *)
EXTENDS Naturals, Integers, Sequences, FiniteSets, SequencesExt
\* Fold a monitor step over a sequence of event records.
RECURSIVE FoldEvents(_, _, _)
FoldEvents(Step(_, _), m, evs) ==
  IF evs = <<>> THEN m ELSE FoldEvents(Step, Step(m, Head(evs)), Tail(evs))
\* first index i with s[i] = x, 0 if none
IndexOf(s, x) == IF \E i \in 1..Len(s) : s[i] = x
                 THEN CHOOSE i \in 1..Len(s) : s[i] = x /\ \A j \in 1..(i-1) : s[j] # x
                 ELSE 0
Max2(a, b) == IF a >= b THEN a ELSE b
Min2(a, b) == IF a <= b THEN a ELSE b
\* record field access with a default (event records of different kinds carry different fields)
Get(r, f, default) == IF f \in DOMAIN r THEN r[f] ELSE default
=============================================================================
