--------------------------- MODULE Mon_ViewSafe ---------------------------
(* Monitor for C50: rendering any message with any content view (automatic or explicit) returns text without
   raising and the text contains no control character other than TAB, LF, CR; re-encoding an unedited DNS-view
   rendering of a DNS message yields a message with the same header fields, questions and records.

   Event records (props/C50.py):
     [k |-> "render", mode, req, msg, content, inctl, raised, view, via, cls]
        one call of contentviews.prettify_message.
        mode = "auto" | "explicit" | "unknown" (explicit name that is not registered); req = requested name;
        msg = kind of message; content = "present" | "missing" | "undecodable"; inctl = the input carries control
        characters; raised = "" or the class name of the exception that escaped; view = result.view_name (lower
        case, "" if none); via = "view" | "fallback" | "error" | "missing" | "raised" (a prediction: drift only);
        cls = character classes present in result.text in the order of ClassOrder.
     [k |-> "dns_rt", transport, valid, rendered, dotted, reenc, exc, hdr_o, hdr_r, q_o, q_r, rr_o, rr_r]
        DNS view round trip: the original bytes and the bytes returned by reencode_message, both decoded by the
        independent reference decoder (lib/vf/dnsref.py).  valid = the original is a well-formed DNS message;
        rendered = the DNS view produced a rendering (no error text); reenc = "ok" | "raised" | "unparsable";
        dotted = some label of the original (owner, question, name inside RDATA, HTTPS target) contains ".";
        hdr = <<id, qr, opcode, aa, tc, rd, ra, z, rcode>>; q = << <<name, type, class>> >>;
        rr = << <<section, name, type, class, ttl, data>> >>; names, ttls and data are interned small integers
        (equality is all that is needed; names compare case-insensitively, RDATA of types that are defined to
        contain domain names compares in uncompressed form).                                                 *)
EXTENDS Verif

ClassOrder == <<"esc", "c0", "del", "c1", "sp", "print", "uni", "bin">>
\* control characters other than TAB, LF, CR: ESC and the other C0 controls, DEL, and the C1 controls
Forbidden == {"esc", "c0", "del", "c1"}
HdrNames == <<"id", "qr", "opcode", "aa", "tc", "rd", "ra", "z", "rcode">>
QNames == <<"name", "type", "class">>
RNames == <<"section", "name", "type", "class", "ttl", "data">>

MonInit == [bad |-> <<>>, wit |-> {}]

BadAt(cls) == { i \in 1..Len(cls) : cls[i] \in Forbidden }
FirstBad(cls) == cls[CHOOSE i \in BadAt(cls) : \A j \in BadAt(cls) : i <= j]
\* first index at which two sequences of equal length differ (0: none)
FirstDiff(a, b) == LET d == { i \in 1..Min2(Len(a), Len(b)) : a[i] # b[i] }
                   IN IF d = {} THEN 0 ELSE CHOOSE i \in d : \A j \in d : i <= j

RenderClause(ev) ==
  IF ev.raised # "" THEN <<"C50.render_raises", ev.req, ev.raised>>
  ELSE IF BadAt(ev.cls) # {} THEN <<"C50.control_in_text", ev.view, FirstBad(ev.cls)>>
  ELSE <<>>

QDiff(a, b) == IF Len(a) # Len(b) THEN <<"count">>
               ELSE LET i == FirstDiff(a, b) IN <<QNames[FirstDiff(a[i], b[i])]>>
RDiff(a, b) == IF Len(a) # Len(b) THEN <<"count", 0>>
               ELSE LET i == FirstDiff(a, b) IN <<RNames[FirstDiff(a[i], b[i])], a[i][3]>>   \* a[i][3]: record type

\* Signature only: whether some label of the original message contains a "." (the one input feature behind the
\* registered name findings); failures of messages without such a label carry the extra field "undotted".
Undotted(ev) == IF ev.dotted THEN <<>> ELSE <<"undotted">>
RSuffix(ev, d) == IF d[1] = "name" \/ d[2] = 65 THEN Undotted(ev) ELSE <<>>
DnsClause(ev) ==
  IF ~(ev.valid /\ ev.rendered) THEN <<>>       \* not a DNS message, or no DNS-view rendering to re-encode
  ELSE IF ev.reenc = "raised" THEN <<"C50.dns_reencode_raises", ev.exc>> \o Undotted(ev)
  ELSE IF ev.reenc = "unparsable" THEN <<"C50.dns_reencoded_not_dns">>
  ELSE IF ev.hdr_o # ev.hdr_r THEN <<"C50.dns_roundtrip_differs", "header", HdrNames[FirstDiff(ev.hdr_o, ev.hdr_r)]>>
  ELSE IF ev.q_o # ev.q_r THEN <<"C50.dns_roundtrip_differs", "questions">> \o QDiff(ev.q_o, ev.q_r) \o Undotted(ev)
  ELSE IF ev.rr_o # ev.rr_r THEN <<"C50.dns_roundtrip_differs", "records">> \o RDiff(ev.rr_o, ev.rr_r)
                                  \o RSuffix(ev, RDiff(ev.rr_o, ev.rr_r))
  ELSE <<>>

ViaWit(v) == CASE v = "view" -> {"via_view"} [] v = "fallback" -> {"via_fallback"} [] v = "error" -> {"via_error"}
               [] v = "missing" -> {"via_missing"} [] OTHER -> {}
MonStep(m, ev) ==
  IF m.bad # <<>> THEN m
  ELSE IF ev.k = "render" THEN
     [m EXCEPT !.bad = RenderClause(ev),
               !.wit = @ \cup {ev.mode} \cup ViaWit(ev.via)
                         \cup (IF ev.inctl /\ ev.raised = "" THEN {"control_input_rendered"} ELSE {})]
  ELSE IF ev.k = "dns_rt" THEN
     [m EXCEPT !.bad = DnsClause(ev),
               !.wit = @ \cup (IF ev.valid /\ ev.rendered /\ ev.reenc = "ok"
                               THEN {"dns_roundtrip_compared", ev.transport} ELSE {})]
  ELSE m
Wit(m) == m.wit
=============================================================================
