----------------------------- MODULE TermSafe -----------------------------
(* Implementation-shaped model of mitmproxy.addons.dumper.Dumper for C49.

   The Dumper keeps no state between hooks except its options; one action per public hook.  Every hook runs a
   fixed *program* of echo segments (the Dumper functions that call self.echo), gated by flow_detail, and every
   traffic-derived field reaches its segment through a sanitiser pipeline:
       raw  : echoed as is                               (f-string without escaping)
       ecc  : strutils.escape_control_characters         (C0 and DEL -> ".", TAB/LF/CR kept; C1 kept iff EccKeepsC1)
       b2e  : strutils.bytes_to_escaped_str              (repr-style escapes: nothing but printable ASCII)
       dec  : bytes.decode("utf-8", "backslashreplace")  (raw content view; undecodable bytes become text)
       dname: domain_names.unpack, else "0x.. (invalid ..)" (non-ASCII labels fall back to the hex form: "gone")
       dtxt : ResourceRecord.text (UTF-8), else the hex form
       repr : str(dict) of an HTTPS record               (Python repr escapes)
       latin1: Response.reason is decoded as ISO-8859-1  (an undecodable UTF-8 byte is just another character)
   The payload of a scenario is one character class placed in one field (site); the model predicts, per segment,
   the classes of the written text and whether the payload is visible there.

   RawSites / EccKeepsC1 describe the tree under test (props/C49.py passes them): the fields dumper.py echoes
   without any escaping, and that escape_control_characters leaves U+0080..U+009F alone.  With RawSites = {} and
   EccKeepsC1 = FALSE the model has no reachable violation. *)
EXTENDS Mon_TermSafe, TLC
CONSTANTS Configs,      \* set of <<flow_detail, styled, showhost>>
          HttpShapes,   \* set of [hook, resp, err, body, trl, h2]
          WsEndCodes,   \* subset of {"normal", "abnormal", "unknown"}
          DnsAnswers,   \* subset of {"txt", "cname", "https", "none"}
          PClasses,     \* payload character classes
          MaxHooks,
          RawSites, EccKeepsC1
VARIABLES fd, styled, showhost, configured, canconf, hooks, mon, obs
vars == <<fd, styled, showhost, configured, canconf, hooks, mon, obs>>

Init == /\ fd = 1 /\ styled = FALSE /\ showhost = FALSE /\ configured = FALSE /\ canconf = TRUE /\ hooks = 0
        /\ mon = MonInit /\ obs = <<>>
Emit(evs) == obs' = evs /\ mon' = FoldEvents(MonStep, mon, evs)
Live == mon.bad = <<>>

(* ---- sanitiser stages: character class -> character class ------------------------------------------------ *)
Stage(p, c) ==
  CASE p = "raw"   -> c
    [] p = "ecc"   -> IF c \in {"esc", "c0", "del"} THEN "print"
                      ELSE IF c = "c1" /\ ~EccKeepsC1 THEN "print" ELSE c
    [] p = "b2e"   -> "print"
    [] p = "dec"   -> IF c = "bin" THEN "print" ELSE c
    [] p = "dname" -> IF c \in {"c1", "uni", "bin"} THEN "gone" ELSE c   \* not IDNA-decodable: whole RDATA shown as hex
    [] p = "dtxt"  -> IF c = "bin" THEN "gone" ELSE c                    \* not UTF-8: whole RDATA shown as hex
    [] p = "gone"  -> "gone"
    [] p = "repr"  -> IF c = "uni" THEN "uni" ELSE "print"
    [] p = "latin1" -> IF c = "bin" THEN "uni" ELSE c     \* Response.reason: every byte is an ISO-8859-1 character
RECURSIVE San(_, _)
San(pipes, c) == IF pipes = <<>> \/ c = "gone" THEN c ELSE San(Tail(pipes), Stage(Head(pipes), c))
\* a str field that dumper.py formats: today either raw or through escape_control_characters
Esc(site) == IF site \in RawSites THEN <<"raw">> ELSE <<"ecc">>
View == <<"dec", "ecc">>     \* contentviews.prettify_message with the raw view, then its final escape

(* ---- segments ------------------------------------------------------------------------------------------- *)
PS == {"print", "sp"}
S(seg, fn) == [seg |-> seg, fn |-> fn, base |-> PS]
Sb(seg, fn, base) == [seg |-> seg, fn |-> fn, base |-> base]
If(c, s) == IF c THEN s ELSE <<>>

SegEv(s, rows, site, c) ==
  LET mine == { r \in rows : r[1] = site /\ r[2] = s.seg /\ San(r[3], c) # "gone" }   \* "gone": field not shown as text
      all  == s.base \cup { San(r[3], c) : r \in mine }
      cls  == SelectSeq(ClassOrder, LAMBDA x : x \in all)
      bad  == SelectSeq(cls, LAMBDA x : x \in Forbidden)
  IN [k |-> "seg", fn |-> s.fn, hit |-> mine # {}, cls |-> cls,
      src |-> [i \in 1..Len(bad) |-> <<bad[i], site>>]]

FdW == CASE fd = 0 -> "fd0" [] fd = 1 -> "fd1" [] fd = 2 -> "fd2" [] fd = 3 -> "fd3" [] OTHER -> "fd4"
HookEvents(ftype, hook, prog, rows, site, c, own) ==
  LET h == [k |-> "hook", hook |-> hook, ftype |-> ftype, fd |-> fd, fdw |-> FdW, styled |-> styled,
            showhost |-> showhost, site |-> site, pcls |-> c]
  IN IF fd = 0 THEN <<h, [k |-> "end", own |-> FALSE]>>            \* Dumper.match: flow_detail 0 prints nothing
     ELSE <<h>> \o [i \in 1..Len(prog) |-> SegEv(prog[i], rows, site, c)]
              \o <<[k |-> "end", own |-> (own /\ styled)]>>

SitesOf(rows) == { r[1] : r \in rows }
Sites(rows) == SitesOf(rows) \cup {"none"}
\* common guard / frame of every hook action (the action bodies stay conjunctions so that TLC labels edges by hook)
CanHook == configured /\ hooks < MaxHooks
\* the payload (field, class) is chosen inside the action: it is not an action parameter, the harness reads it
\* from the emitted hook record (keeps the number of TLC sub-actions per state small)
Cls(site) == IF site = "none" THEN {"print"} ELSE PClasses
Advance == /\ hooks' = hooks + 1 /\ canconf' = TRUE
           /\ UNCHANGED <<fd, styled, showhost, configured>>

(* ---- Dumper.configure / options ------------------------------------------------------------------------- *)
Configure(cfg) ==
  /\ Live /\ canconf /\ hooks < MaxHooks
  /\ fd' = cfg[1] /\ styled' = cfg[2] /\ showhost' = cfg[3] /\ configured' = TRUE /\ canconf' = FALSE
  /\ UNCHANGED hooks
  /\ Emit(<<[k |-> "conf", fd |-> cfg[1], styled |-> cfg[2], showhost |-> cfg[3]]>>)

(* ---- echo_flow: response / error / http_connect_error ---------------------------------------------------- *)
MsgBase(body) == IF body THEN PS ELSE {"sp"}      \* empty body: _echo_message only prints the blank line
HttpProg(sh) ==
     <<S("reqline", "_echo_request_line")>>
  \o If(fd >= 2, <<S("reqhdr", "_echo_headers")>>)
  \o If(fd >= 3, <<Sb("reqmsg", "_echo_message", MsgBase(sh.body))>>)
  \o If(fd >= 2 /\ sh.trl, <<S("reqtrl", "_echo_trailers"), S("reqtrlhdr", "_echo_headers")>>)
  \o If(sh.resp,
          <<S("respline", "_echo_response_line")>>
       \o If(fd >= 2, <<S("resphdr", "_echo_headers")>>)
       \o If(fd >= 3, <<Sb("respmsg", "_echo_message", MsgBase(sh.body))>>)
       \o If(fd >= 2 /\ sh.trl, <<S("resptrl", "_echo_trailers"), S("resptrlhdr", "_echo_headers")>>))
  \o If(sh.err, <<S("errline", "echo_flow")>>)
HttpRows(sh) ==
  { <<"method", "reqline", Esc("method")>>, <<"url_path", "reqline", Esc("url_path")>>,
    <<"req_version", "reqline", Esc("req_version")>>,
    <<"req_hname", "reqhdr", <<"b2e">> >>, <<"req_hvalue", "reqhdr", <<"b2e">> >>,
    <<"host_header", "reqhdr", <<"b2e">> >> }
  \cup (IF showhost THEN { <<"host_header", "reqline", Esc("host_header")>> } ELSE {})   \* pretty_url
  \cup (IF sh.body THEN { <<"req_body", "reqmsg", View>> } ELSE {})
  \cup (IF sh.trl THEN { <<"req_tname", "reqtrlhdr", <<"b2e">> >>, <<"req_tvalue", "reqtrlhdr", <<"b2e">> >> } ELSE {})
  \cup (IF sh.resp THEN
          { <<"resp_version", "respline", Esc("resp_version")>>,
            <<"resp_hname", "resphdr", <<"b2e">> >>, <<"resp_hvalue", "resphdr", <<"b2e">> >> }
          \cup (IF sh.h2 THEN {} ELSE { <<"reason", "respline", <<"latin1">> \o Esc("reason")>> })   \* h2/h3: reason from the table
          \cup (IF sh.body THEN { <<"resp_body", "respmsg", View>> } ELSE {})
          \cup (IF sh.trl THEN { <<"resp_tname", "resptrlhdr", <<"b2e">> >>,
                                 <<"resp_tvalue", "resptrlhdr", <<"b2e">> >> } ELSE {})
        ELSE {})
  \cup (IF sh.err THEN { <<"error_msg", "errline", Esc("error_msg")>> } ELSE {})
HttpHook(sh) ==
  /\ Live /\ CanHook /\ Advance
  /\ \E site \in Sites(HttpRows(sh)) : \E c \in Cls(site) :
       Emit(HookEvents("http", sh.hook, HttpProg(sh), HttpRows(sh), site, c, TRUE))

(* ---- websocket_message / websocket_end ------------------------------------------------------------------- *)
WsMsgProg == <<S("wsline", "websocket_message")>> \o If(fd >= 3, <<S("wsmsg", "_echo_message")>>)
WsMsgRows == { <<"ws_path", "wsline", Esc("ws_path")>>, <<"ws_server_host", "wsline", Esc("ws_server_host")>>,
               <<"ws_content", "wsmsg", View>> }
WsMessage ==
  /\ Live /\ CanHook /\ Advance
  /\ \E site \in Sites(WsMsgRows) : \E c \in Cls(site) :
       Emit(HookEvents("ws", "websocket_message", WsMsgProg, WsMsgRows, site, c, FALSE))

WsEndRows(code) == { <<"close_reason", "wsend", Esc("close_reason")>> }
                   \cup (IF code = "normal" THEN {} ELSE { <<"ws_server_host", "wsend", Esc("ws_server_host")>> })
WsEnd(code) ==
  /\ Live /\ CanHook /\ Advance
  /\ \E site \in Sites(WsEndRows(code)) : \E c \in Cls(site) :
       Emit(HookEvents("ws", "websocket_end", <<S("wsend", "websocket_end")>>, WsEndRows(code), site, c, code # "normal"))

(* ---- tcp/udp message and error --------------------------------------------------------------------------- *)
ProtoMsgProg == <<S("protoline", "_proto_message")>> \o If(fd >= 3, <<S("protomsg", "_echo_message")>>)
ProtoMsgRows == { <<"server_host", "protoline", Esc("server_host")>>, <<"content", "protomsg", View>> }
ProtoMessage(proto) ==
  /\ Live /\ CanHook /\ Advance
  /\ \E site \in Sites(ProtoMsgRows) : \E c \in Cls(site) :
       Emit(HookEvents(proto, IF proto = "tcp" THEN "tcp_message" ELSE "udp_message", ProtoMsgProg, ProtoMsgRows, site, c, FALSE))
ProtoErrRows == { <<"server_host", "protoerr", Esc("server_host")>>, <<"proto_error_msg", "protoerr", Esc("proto_error_msg")>> }
ProtoError(proto) ==
  /\ Live /\ CanHook /\ Advance
  /\ \E site \in Sites(ProtoErrRows) : \E c \in Cls(site) :
       Emit(HookEvents(proto, IF proto = "tcp" THEN "tcp_error" ELSE "udp_error", <<S("protoerr", "_proto_error")>>, ProtoErrRows, site, c, TRUE))

(* ---- dns_response / dns_error ---------------------------------------------------------------------------- *)
DnsRows(ans) ==
  { <<"qname", "dnsq", Esc("qname")>> }
  \cup (IF ans = "txt" THEN { <<"ans_txt", "dnsans", <<"dtxt">> \o Esc("ans_txt")>> } ELSE {})
  \cup (IF ans = "cname" THEN { <<"ans_cname", "dnsans", <<"dname">> \o Esc("ans_cname")>> } ELSE {})
  \cup (IF ans = "https" THEN { <<"ans_https", "dnsans", <<"b2e", "repr">> \o Esc("ans_https")>> } ELSE {})
DnsResponse(ans) ==
  /\ Live /\ CanHook /\ Advance
  /\ \E site \in Sites(DnsRows(ans)) : \E c \in Cls(site) :
       Emit(HookEvents("dns", "dns_response", <<S("dnsq", "_echo_dns_query"), S("dnsans", "dns_response")>>, DnsRows(ans), site, c, TRUE))
DnsErrRows == { <<"qname", "dnsq", Esc("qname")>>, <<"dns_error_msg", "dnserr", Esc("dns_error_msg")>> }
DnsError ==
  /\ Live /\ CanHook /\ Advance
  /\ \E site \in Sites(DnsErrRows) : \E c \in Cls(site) :
       Emit(HookEvents("dns", "dns_error", <<S("dnsq", "_echo_dns_query"), S("dnserr", "dns_error")>>, DnsErrRows, site, c, TRUE))

Next == \/ \E cfg \in Configs : Configure(cfg)
        \/ \E sh \in HttpShapes : HttpHook(sh)
        \/ WsMessage
        \/ \E code \in WsEndCodes : WsEnd(code)
        \/ \E proto \in {"tcp", "udp"} : ProtoMessage(proto)
        \/ \E proto \in {"tcp", "udp"} : ProtoError(proto)
        \/ \E ans \in DnsAnswers : DnsResponse(ans)
        \/ DnsError
Spec == Init /\ [][Next]_vars
Report == mon.bad # <<>> => PrintT(<<"BAD", mon.bad>>)
=============================================================================
