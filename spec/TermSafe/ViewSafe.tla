----------------------------- MODULE ViewSafe -----------------------------
(* Implementation-shaped model for C50: contentviews.prettify_message as a step machine, and the DNS view's
   prettify / reencode pair.

   prettify_message (contentviews/__init__.py):
     GetData      get_data(message): content None -> "Content is missing." is returned at once (not escaped);
                  an undecodable HTTP body (ValueError) falls back to raw_content
     Select*      registry.get_view: explicit name -> that view; unknown name -> warning, best match; "auto" ->
                  the first view with the strictly highest render_priority, views whose render_priority raises
                  are skipped
     Prettify*    view.prettify: text, or an exception
     FallbackRaw  view_name == "auto": raw.prettify(data)      (an unknown explicit name is NOT "auto")
     ErrorText    otherwise: "Couldn't parse as <name>:" + the formatted exception
     Escape       strutils.escape_control_characters(text)     (C1 kept iff EccKeepsC1)
   A registry is a sequence of view descriptors [id, prio, praise, out, oc, nm, real]:
     prio = rank of render_priority (raw = 1), praise = render_priority raises, out = "ok" | "raises",
     oc = class of the text the view returns / of the exception message ("in" = the input's class, like raw),
     nm = class of the view's name, real = a view of mitmproxy (its text is not predicted: exact = FALSE).
   A text is modelled as the set of character classes it contains.

   DNS view (_view_dns.py, dns.py): prettify = DNSMessage.unpack(..).to_json() as YAML, reencode =
   DNSMessage.from_json(..) packed.  to_json does not carry the reserved (Z) bits, from_json sets reserved = 0;
   ResourceRecord._data_json renders undecodable TXT / name data as "0x.. (invalid .. data)" and from_json takes
   that string as the text / name again; names are joined with "." (a label containing "." is split). *)
EXTENDS Mon_ViewSafe, TLC
CONSTANTS StubRegs,     \* set of registries (sequences of descriptors) built from harness stub views + raw
          RealCases,    \* set of [id, mode, out]: real views with a corpus input of that outcome (read at run time)
          InClasses,    \* classes of the input bytes
          MsgKinds,     \* subset of {"http", "tcp", "udp", "ws", "dns"}
          DnsMsgs,      \* set of abstract DNS messages [z, q, rr]
          MaxCalls, EccKeepsC1
VARIABLES pc, call, calls, mon, obs
vars == <<pc, call, calls, mon, obs>>

NoCall == [reg |-> <<>>, msg |-> "", content |-> "", mode |-> "", target |-> 0, c |-> "", chosen |-> 0,
           via |-> "", txt |-> {}, exact |-> TRUE, dns |-> [z |-> 0, q |-> "none", rr |-> "none"], transport |-> ""]
Init == pc = "idle" /\ call = NoCall /\ calls = 0 /\ mon = MonInit /\ obs = <<>>
Emit(evs) == obs' = evs /\ mon' = FoldEvents(MonStep, mon, evs)
Live == mon.bad = <<>>
Quiet == Emit(<<>>)

Ecc(c) == IF c \in {"esc", "c0", "del"} THEN "print" ELSE IF c = "c1" /\ ~EccKeepsC1 THEN "print" ELSE c
Dec(c) == IF c = "bin" THEN "print" ELSE c       \* raw view: bytes.decode("utf-8", "backslashreplace")
ClsSeq(S) == SelectSeq(ClassOrder, LAMBDA x : x \in S)

(* ---- start of a call --------------------------------------------------------------------------------------- *)
StartStub(reg, msg, content, mode, target, c) ==
  /\ Live /\ pc = "idle" /\ calls < MaxCalls
  /\ (content # "present" => msg = "http")     \* only HTTP messages can lack content / have a content-encoding
  /\ (mode = "explicit" <=> target \in 1..Len(reg)) /\ target \in 0..Len(reg)
  /\ call' = [NoCall EXCEPT !.reg = reg, !.msg = msg, !.content = content, !.mode = mode, !.target = target, !.c = c]
  /\ pc' = "getdata" /\ calls' = calls + 1 /\ Quiet
\* a view of mitmproxy with an input of the harness corpus that makes it succeed / fail; in "auto" mode the input is one
\* for which this view has the highest priority
StartReal(rc) ==
  /\ Live /\ pc = "idle" /\ calls < MaxCalls
  /\ call' = [NoCall EXCEPT !.reg = << [id |-> rc.id, prio |-> 2, praise |-> FALSE, out |-> rc.out, oc |-> "in",
                                        nm |-> "print", real |-> TRUE] >>,
                            !.msg = "any", !.content = "present", !.mode = rc.mode,
                            !.target = IF rc.mode = "explicit" THEN 1 ELSE 0, !.c = "print", !.exact = FALSE]
  /\ pc' = "getdata" /\ calls' = calls + 1 /\ Quiet

RenderEv(view, via, txt) ==
  [k |-> "render", mode |-> call.mode,
   req |-> IF call.mode = "auto" THEN "auto" ELSE IF call.mode = "unknown" THEN "nosuchview" ELSE call.reg[call.target].id,
   msg |-> call.msg, content |-> call.content, inctl |-> call.c \in Forbidden, raised |-> "",
   view |-> view, via |-> via, cls |-> IF call.exact THEN ClsSeq(txt) ELSE <<>>]

(* ---- get_data ------------------------------------------------------------------------------------------------ *)
GetDataMissing ==
  /\ Live /\ pc = "getdata" /\ call.content = "missing"
  /\ pc' = "idle" /\ call' = NoCall /\ UNCHANGED calls
  /\ Emit(<<[RenderEv("", "missing", {"print"}) EXCEPT !.cls = <<"print">>]>>)
GetData ==
  /\ Live /\ pc = "getdata" /\ call.content # "missing"
  /\ pc' = "select" /\ UNCHANGED <<call, calls>> /\ Quiet

(* ---- registry.get_view --------------------------------------------------------------------------------------- *)
Cands(reg) == { i \in 1..Len(reg) : ~reg[i].praise }
Best(reg) == CHOOSE i \in Cands(reg) : \A j \in Cands(reg) : reg[j].prio < reg[i].prio \/ (reg[j].prio = reg[i].prio /\ i <= j)
SelectExplicit ==
  /\ Live /\ pc = "select" /\ call.mode = "explicit"
  /\ call' = [call EXCEPT !.chosen = call.target] /\ pc' = "prettify" /\ UNCHANGED calls /\ Quiet
SelectUnknown ==
  /\ Live /\ pc = "select" /\ call.mode = "unknown"
  /\ call' = [call EXCEPT !.chosen = Best(call.reg)] /\ pc' = "prettify" /\ UNCHANGED calls /\ Quiet
SelectAuto ==
  /\ Live /\ pc = "select" /\ call.mode = "auto"
  /\ call' = [call EXCEPT !.chosen = Best(call.reg)] /\ pc' = "prettify" /\ UNCHANGED calls /\ Quiet

(* ---- view.prettify ------------------------------------------------------------------------------------------- *)
V == call.reg[call.chosen]
OutClass(v) == IF v.oc = "in" THEN Dec(call.c) ELSE v.oc
PrettifyOk ==
  /\ Live /\ pc = "prettify" /\ V.out = "ok"
  /\ call' = [call EXCEPT !.via = "view", !.txt = {"print", OutClass(V)}]
  /\ pc' = "escape" /\ UNCHANGED calls /\ Quiet
PrettifyRaises ==
  /\ Live /\ pc = "prettify" /\ V.out = "raises"
  /\ pc' = IF call.mode = "auto" THEN "fallback" ELSE "errortext"
  /\ UNCHANGED <<call, calls>> /\ Quiet
FallbackRaw ==
  /\ Live /\ pc = "fallback"
  /\ call' = [call EXCEPT !.via = "fallback", !.txt = {"print", Dec(call.c)}]
  /\ pc' = "escape" /\ UNCHANGED calls /\ Quiet
ErrorText ==
  /\ Live /\ pc = "errortext"
  /\ call' = [call EXCEPT !.via = "error", !.txt = {"print", "sp", V.nm, OutClass(V)}]
  /\ pc' = "escape" /\ UNCHANGED calls /\ Quiet
Escape ==
  /\ Live /\ pc = "escape"
  /\ pc' = "idle" /\ call' = NoCall /\ UNCHANGED calls
  /\ Emit(<<RenderEv(IF call.via = "fallback" THEN "raw" ELSE V.id, call.via, { Ecc(x) : x \in call.txt })>>)

(* ---- DNS view: prettify, then reencode the unedited rendering ---------------------------------------------------- *)
DnsPrettify(m, transport) ==
  /\ Live /\ pc = "idle" /\ calls < MaxCalls
  /\ call' = [NoCall EXCEPT !.dns = m, !.transport = transport]
  /\ pc' = "dnsrendered" /\ calls' = calls + 1
  \* prettify_message(msg, flow, "dns"): YAML text; ruamel writes control characters as escapes
  /\ Emit(<<[k |-> "render", mode |-> "explicit", req |-> "dns", msg |-> transport, content |-> "present",
             inctl |-> (m.q = "ctl"), raised |-> "", view |-> "dns", via |-> "view", cls |-> <<"sp", "print">>]>>)
\* https_hi: SvcPriority >= 0x8000 (read and written signed); dname/mx/soa: well-formed RDATA of name-bearing types
\* that _data_json does not decode (shown as plain hex, taken back by the hex fallback of from_json)
RType(rr) == CASE rr \in {"txt", "txt_bad"} -> 16 [] rr \in {"cname", "cname_bad"} -> 5 [] rr = "a" -> 1
               [] rr \in {"https", "https_hi"} -> 65 [] rr = "opt" -> 41 [] rr = "dname" -> 39 [] rr = "mx" -> 15
               [] rr = "soa" -> 6 [] OTHER -> 99
DnsReencode ==
  /\ Live /\ pc = "dnsrendered"
  /\ pc' = "idle" /\ call' = NoCall /\ UNCHANGED calls
  /\ LET m == call.dns
         hdr(z) == <<7, 1, 0, 0, 0, 1, 0, z, 0>>
         q(n) == IF m.q = "none" THEN <<>> ELSE << <<n, 1, 1>> >>
         rr(d) == IF m.rr = "none" THEN <<>> ELSE << <<1, 2, RType(m.rr), 1, 1, d>> >>
     IN Emit(<<[k |-> "dns_rt", transport |-> call.transport, valid |-> TRUE, rendered |-> TRUE, dotted |-> (m.q = "dot"), reenc |-> "ok",
                exc |-> "",
                hdr_o |-> hdr(m.z), hdr_r |-> hdr(0),                                  \* from_json: reserved = 0
                q_o |-> q(1), q_r |-> q(IF m.q = "dot" THEN 3 ELSE 1),                 \* "a.b" + "." + "c" re-split
                rr_o |-> rr(1), rr_r |-> rr(IF m.rr \in {"txt_bad", "cname_bad"} THEN 2 ELSE 1)]>>)

Next == \/ \E reg \in StubRegs, msg \in MsgKinds, content \in {"present", "missing", "undecodable"},
              mode \in {"auto", "explicit", "unknown"}, target \in 0..3, c \in InClasses :
              StartStub(reg, msg, content, mode, target, c)
        \/ \E rc \in RealCases : StartReal(rc)
        \/ GetDataMissing \/ GetData
        \/ SelectExplicit \/ SelectUnknown \/ SelectAuto
        \/ PrettifyOk \/ PrettifyRaises \/ FallbackRaw \/ ErrorText \/ Escape
        \/ \E m \in DnsMsgs, transport \in {"udp", "tcp"} : DnsPrettify(m, transport)
        \/ DnsReencode
Spec == Init /\ [][Next]_vars
Report == mon.bad # <<>> => PrintT(<<"BAD", mon.bad>>)
=============================================================================
