--------------------------- MODULE Mon_TermSafe ---------------------------
(* Monitor for C49: the text mitmdump (addons/dumper.py) writes contains no escape character and no other
   control character except tab, newline and carriage return, apart from the styling sequences mitmdump adds
   itself.

   Event records (projected from the real Dumper writing into a recording stream, props/C49.py):
     [k |-> "hook", hook, ftype, fd, fdw, styled, showhost, site, pcls]
          one call of a Dumper hook; site/pcls: the field of the flow that carries the payload and the payload's
          character class ("none"/"print" for a benign flow); fdw is the string "fd<n>" (witness name)
     [k |-> "seg", fn, hit, cls, src]
          the text written by consecutive print calls issued from the Dumper function fn, AFTER removal of the
          SGR sequences that mitmproxy.contrib.click.style added in this hook call (learned from the real calls);
          cls = character classes present in that text, in the order of ClassOrder;
          hit = the payload marker is visible in the text;
          src = << <<class, field>> >> attribution of each forbidden class to the flow field whose marker
                precedes it ("?" if none) -- only used as the signature of a violation
     [k |-> "end", own]      end of the hook call; own = some own styling sequence was removed
     [k |-> "raised", exc]   the hook raised (not addressed by the property; recorded, never a violation)

   Character classes: esc = U+001B; c0 = other C0 controls except TAB LF CR; del = U+007F; c1 = U+0080..U+009F;
   sp = TAB LF CR; print = U+0020..U+007E; uni = other non-ASCII; bin = lone surrogates (undecodable bytes).   *)
EXTENDS Verif

ClassOrder == <<"esc", "c0", "del", "c1", "sp", "print", "uni", "bin">>
\* what the statement forbids: the escape character and every other control character but TAB, LF, CR
Forbidden == {"esc", "c0", "del", "c1"}

MonInit == [bad |-> <<>>, wit |-> {}, pcls |-> "print"]

BadAt(cls) == { i \in 1..Len(cls) : cls[i] \in Forbidden }
FirstBad(cls) == cls[CHOOSE i \in BadAt(cls) : \A j \in BadAt(cls) : i <= j]
FieldOf(src, c) == LET hits == { i \in 1..Len(src) : src[i][1] = c }
                   IN IF hits = {} THEN "?" ELSE src[CHOOSE i \in hits : \A j \in hits : i <= j][2]

Clause(m, ev) ==
  IF ev.k = "seg" /\ BadAt(ev.cls) # {}
  THEN <<"C49.control_in_output", ev.fn, FieldOf(ev.src, FirstBad(ev.cls)), FirstBad(ev.cls)>>
  ELSE <<>>

EchoWit(c) == CASE c = "esc" -> {"echoed_esc"} [] c = "c0" -> {"echoed_c0"} [] c = "del" -> {"echoed_del"}
                [] c = "c1" -> {"echoed_c1"} [] OTHER -> {}

MonStep(m, ev) ==
  IF m.bad # <<>> THEN m     \* the first violated clause is kept
  ELSE IF ev.k = "hook" THEN
     [m EXCEPT !.pcls = ev.pcls,
               !.wit = @ \cup {ev.ftype, ev.fdw} \cup (IF ev.styled THEN {"styled"} ELSE {"plain"})]
  ELSE IF ev.k = "seg" THEN
     [m EXCEPT !.bad = Clause(m, ev),
               \* antecedent exercised: a control-character payload reached an echo site
               !.wit = @ \cup (IF ev.hit THEN EchoWit(m.pcls) ELSE {})]
  ELSE IF ev.k = "end" THEN
     [m EXCEPT !.wit = @ \cup (IF ev.own THEN {"own_styling_removed"} ELSE {})]
  ELSE IF ev.k = "raised" THEN [m EXCEPT !.wit = @ \cup {"raised"}]
  ELSE m
Wit(m) == m.wit
=============================================================================
