------------------------------ MODULE WebEdit ------------------------------
(* Implementation-shaped model of mitmproxy/tools/web/app.py FlowHandler.put (and RevertFlow.post) acting on one
   flow, with mitmproxy/flow.py Flow.backup / revert / modified.

   flow    : tracked field key -> value id  (0 = original value, k = value requested by entry id k, -1 = other)
   backup  : <<>> (Flow._backup is None) or <<snapshot of flow>>
   An edit document is a sequence of <<key, kind>>; what the code does with an entry of a given kind is Eff(kind):
     "set"       setattr succeeds                                (valid values; odd but accepted hosts / ports / codes)
     "api"       raise APIError(400)                             (unknown field; unparsable JSON body)
     "exc"       another exception escapes before any assignment (int("abc"), "str".items(), ...)
     "clear_exc" headers.clear() ran, then the following headers.add call raised
   FlowHandler.put (repaired, /repo fbda5e579; RevertOnAnyError = BackupPerRequest = TRUE):
                      old_state = flow.get_state()      -- complete snapshot incl. an existing backup
                      flow.backup()                     -- a no-op when a backup exists (Flow.backup)
                      try: apply entries in JSON order
                      except APIError: flow.set_state(old_state); raise
                      except (ValueError, TypeError, AttributeError): flow.set_state(old_state); raise APIError(400)
                      self.view.update([flow])
   The handler before that commit (RevertOnAnyError = BackupPerRequest = FALSE) caught APIError only and called
   flow.revert(): an "exc" entry left the entries before it applied (status 500), and an "api" entry reverted to the
   OLDEST backup, which is not the state before the request when an earlier accepted edit is still unreverted.      *)
EXTENDS Mon_WebEdit, TLC
CONSTANTS Keys,              \* tracked field keys
          Docs,              \* set of documents: sequences of <<key, kind>>
          MaxOps,
          RevertOnAnyError,  \* TRUE: every failure restores the snapshot (FALSE: only APIError was caught)
          BackupPerRequest,  \* TRUE: the restore point is the state before the request (FALSE: the oldest backup)
          ModQuirk           \* TRUE: Flow.modified() is True whenever a backup exists (before the C40 fix)
VARIABLES flow, backup, nextV, ops, mon, obs
vars == <<flow, backup, nextV, ops, mon, obs>>

Init == /\ flow = [k \in Keys |-> 0] /\ backup = <<>> /\ nextV = 1 /\ ops = 0
        /\ mon = MonInit /\ obs = <<>>
Live == mon.bad = <<>>
Emit(evs) == obs' = evs /\ mon' = FoldEvents(MonStep, mon, evs)

Eff(kind) == CASE kind \in {"valid", "odd_host", "odd_port", "odd_code"} -> "set"
               [] kind \in {"unknown_field", "bad_json"} -> "api"
               [] kind \in {"malformed_headers"} -> "clear_exc"
               [] OTHER -> "exc"     \* malformed_port, malformed_code, wrong_type_section, malformed_content
HasVal(kind) == Eff(kind) = "set"

Mod(f, b) == b # <<>> /\ (ModQuirk \/ b[1] # f)

RECURSIVE Apply(_, _, _, _)
Apply(f, d, ids, i) ==
  IF i > Len(d) THEN [flow |-> f, out |-> "ok"]
  ELSE LET key == d[i][1]
           e == Eff(d[i][2]) IN
       CASE e = "set" -> Apply([f EXCEPT ![key] = ids[i]], d, ids, i + 1)
         [] e = "api" -> [flow |-> f, out |-> "api"]
         [] e = "clear_exc" -> [flow |-> [f EXCEPT ![key] = -1], out |-> "exc"]
         [] OTHER -> [flow |-> f, out |-> "exc"]

Put(d) ==
  /\ Live /\ ops < MaxOps /\ ops' = ops + 1
  /\ LET b0  == IF backup = <<>> \/ BackupPerRequest THEN <<flow>> ELSE backup     \* flow.backup()
         ids == [i \in 1..Len(d) |-> IF HasVal(d[i][2]) THEN nextV + i - 1 ELSE -9]
         r   == Apply(flow, d, ids, 1)
         rev == r.out = "api" \/ (RevertOnAnyError /\ r.out = "exc")                \* except ...: flow.revert()
         f2  == IF rev THEN b0[1] ELSE r.flow
         b2  == IF rev THEN (IF BackupPerRequest THEN backup ELSE <<>>)
                ELSE IF BackupPerRequest /\ backup # <<>> THEN backup ELSE b0
         st  == CASE r.out = "ok" -> 200 [] r.out = "api" -> 400
                     [] OTHER -> IF RevertOnAnyError THEN 400 ELSE 500   \* repaired handler answers 400
     IN /\ flow' = f2 /\ backup' = b2 /\ nextV' = nextV + Len(d)
        /\ Emit(<<[k |-> "put",
                   doc |-> [i \in 1..Len(d) |-> [key |-> d[i][1], kind |-> d[i][2], v |-> ids[i]]],
                   status |-> st, pre |-> flow, post |-> f2, prest |-> 1, qrest |-> 1,
                   pmod |-> Mod(flow, backup), qmod |-> Mod(f2, b2)]>>)

\* RevertFlow.post: if self.flow.modified(): self.flow.revert()
Revert ==
  /\ Live /\ ops < MaxOps /\ ops' = ops + 1 /\ UNCHANGED nextV
  /\ LET m  == Mod(flow, backup)
         f2 == IF m THEN backup[1] ELSE flow
         b2 == IF m THEN <<>> ELSE backup
     IN /\ flow' = f2 /\ backup' = b2
        /\ Emit(<<[k |-> "revert", pre |-> flow, post |-> f2, prest |-> 1, qrest |-> 1,
                   pmod |-> m, qmod |-> Mod(f2, b2)]>>)

Next == \/ \E d \in Docs : Put(d)
        \/ Revert
Spec == Init /\ [][Next]_vars
Report == mon.bad # <<>> => PrintT(<<"BAD", mon.bad>>)
=============================================================================
