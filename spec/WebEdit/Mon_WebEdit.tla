---------------------------- MODULE Mon_WebEdit ----------------------------
(* Monitor for C47: a flow edit submitted through mitmweb (PUT /flows/<id>) either applies completely or, if any
   part of it is invalid, leaves the flow exactly as it was.

   Event records (projected from the real mitmproxy.tools.web.app.FlowHandler.put by props/C47.py):
     [k |-> "put",
      doc    |-> << [key |-> field key, kind |-> "valid" or the class of the invalid part, v |-> value id] ... >>,
                 the edit document, one entry per field update in JSON order.  v is the id of the requested value
                 (>= 1, unique per trace); entries that carry no usable value have v = -9
      status |-> HTTP status of the answer,
      pre, post |-> [field key |-> value id]   the tracked fields of the flow before / after the request
                 (0: the value the flow was created with, k >= 1: the value requested by entry id k,
                  -1: anything else, e.g. an emptied header list)
      prest, qrest |-> id of everything else in the flow state before / after (interned, first seen = 1)
      pmod, qmod   |-> Flow.modified() before / after]
     [k |-> "revert", pre, post, prest, qrest, pmod, qmod]   POST /flows/<id>/revert (environment; only recorded)
   Value ids are assigned by the scenario (not read from the code); the harness maps observed values back to ids
   by inverting its own concretisation.                                                                  *)
EXTENDS Verif

MonInit == [bad |-> <<>>, wit |-> {}, hist |-> {}]

Snap(ev, side) == IF side = "pre" THEN <<ev.pre, ev.prest>> ELSE <<ev.post, ev.qrest>>

Invalid(ev) == \E i \in 1..Len(ev.doc) : ev.doc[i].kind # "valid"
\* the part named in the signature: the first malformed entry; merely implausible values ("odd_...", which the
\* code may accept) are named only when nothing else is invalid
Odd == {"odd_host", "odd_port", "odd_code"}
FirstOf(ev, S) == ev.doc[CHOOSE i \in 1..Len(ev.doc) :
                           ev.doc[i].kind \in S /\ \A j \in 1..(i-1) : ev.doc[j].kind \notin S].kind
Kinds(ev) == {ev.doc[i].kind : i \in 1..Len(ev.doc)}
FirstInvalid(ev) == IF Kinds(ev) \ (Odd \cup {"valid"}) # {}
                    THEN FirstOf(ev, Kinds(ev) \ (Odd \cup {"valid"}))
                    ELSE FirstOf(ev, Kinds(ev) \ {"valid"})
\* every update of the document took effect
Complete(ev) == \A i \in 1..Len(ev.doc) :
                  /\ ev.doc[i].key \in DOMAIN ev.post
                  /\ ev.post[ev.doc[i].key] = ev.doc[i].v
SameContent(ev) == ev.post = ev.pre /\ ev.qrest = ev.prest
Unchanged(ev) == SameContent(ev) /\ ev.qmod = ev.pmod

How(m, ev) == IF SameContent(ev) THEN "modified_flag_only"
              ELSE IF Snap(ev, "post") \in m.hist THEN "older_state"
              ELSE "partial"
\* the flow carried accepted, unreverted edits before this request (as the user sees it: Flow.modified())
Prior(ev) == IF ev.pmod THEN "after_edit" ELSE "fresh"

Clause(m, ev) ==
  IF ev.k # "put" THEN <<>>
  ELSE IF ~Invalid(ev)
       THEN IF Complete(ev) THEN <<>> ELSE <<"C47.valid_edit_not_applied", Prior(ev)>>
  ELSE IF Complete(ev) \/ Unchanged(ev) THEN <<>>
  ELSE <<"C47.invalid_edit_changed_flow", FirstInvalid(ev), How(m, ev), Prior(ev)>>

MonStep(m, ev) ==
  IF ev.k = "put" THEN
    [m EXCEPT !.bad = Clause(m, ev),
              !.hist = (@ \cup {Snap(ev, "pre")}) \ {Snap(ev, "post")},
              !.wit = @ \cup (IF ~Invalid(ev) /\ Complete(ev) THEN {"valid_applied"} ELSE {})
                        \cup (IF Invalid(ev) /\ Unchanged(ev) THEN {"invalid_unchanged"} ELSE {})
                        \cup (IF Invalid(ev) /\ Complete(ev) THEN {"odd_value_accepted"} ELSE {})
                        \cup (IF Invalid(ev) /\ ev.pmod THEN {"invalid_after_edit"} ELSE {})
                        \cup (IF Invalid(ev) /\ Len(ev.doc) > 1 /\ ev.doc[1].kind = "valid"
                              THEN {"invalid_after_valid_part"} ELSE {})
                        \cup (IF Len(ev.doc) >= 3 THEN {"long_doc"} ELSE {})]
  ELSE IF ev.k = "revert" THEN
    [m EXCEPT !.hist = (@ \cup {Snap(ev, "pre")}) \ {Snap(ev, "post")},
              !.wit = @ \cup {"revert"}]
  ELSE m
Wit(m) == m.wit
=============================================================================
