--------------------------- MODULE Mon_IgnoreHosts ---------------------------
(* Monitor for C19: ignored hosts are passed through untouched and allow/ignore rules are honoured.

   One trace = one client connection in one proxy mode with ignore_hosts / allow_hosts configured, handled by the
   real mode layer + real NextLayer addon + real TCPLayer/HttpLayer/TLS layers under the sans-io driver (props/C19.py).
   Only the payload of the connection is recorded (after CONNECT / the SOCKS5 handshake).  Event records:
     [k |-> "conn", mode, kind, rules, excl, why, syntax, rawtcp, total]
          mode  = "regular" | "transparent" | "reverse" | "socks5";  kind = "tls" | "http" | "other" (first flight)
          rules = "ign" | "alw" | "both" | "none"
          excl  = ORACLE (harness, own regex evaluation over server address, SNI and Host header as HTTP defines it):
                  the destination matches ignore_hosts, or allow_hosts is set and nothing matches it
          why   = the evidence that decides ("addr" | "sni" | "host" | "nothing_allowed" | "none"), syntax = Host header
                  syntax class, total = length of the first flight -- these only label signatures / completeness
     [k |-> "seg", data, cut]   the client delivers a segment of payload; cut = class of the boundary after it
                                ("lt3" | "in_reqline" | "in_head" | "head_done" | "in_hello" | "hello_done" | "early_data" | "other" | "post")
     [k |-> "decide", cls]      the next_layer hook chose the layer for the payload: "pass" (raw relay, no flow),
                                "tcp" (raw relay with a TCP flow), "tls" (TLS layers), "http" (HttpLayer)
     [k |-> "to_server", data] / [k |-> "to_client", data]   payload bytes written to the peers
     [k |-> "srv", data]        the server sends payload
     [k |-> "end"]
   Clauses (the statement's): an excluded connection is never handed to TLS or HTTP layers and every payload byte,
   including those received before the decision, is relayed unmodified and in order in both directions; a connection
   that is not excluded is not passed through as ignored.  Because excl is independent of the segmentation, checking
   both for every segmentation is the segmentation-independence clause.  Segmentations whose first segment is shorter
   than the documented minimum for recognising TLS (TlsMin = 3 bytes) are exempt, as the statement says.        *)
EXTENDS Verif

TlsMin == 3
NoConn == [mode |-> "", kind |-> "", rules |-> "", excl |-> FALSE, why |-> "", syntax |-> "", rawtcp |-> TRUE, total |-> 0]
MonInit == [bad |-> <<>>, wit |-> {}, c |-> NoConn, first |-> 0, fcut |-> "", nseg |-> 0, cls |-> "none", dseg |-> 0,
            c2s |-> <<>>, tos |-> <<>>, s2c |-> <<>>, toc |-> <<>>]

Exempt(m) == m.first > 0 /\ m.first < TlsMin
Sig(m) == <<m.c.kind, m.c.why, m.c.syntax, m.fcut>>

AtDecide(m, cls) ==
  IF Exempt(m) THEN <<>>
  ELSE IF m.c.excl /\ cls \in {"tls", "http"} THEN <<"C19.excluded_but_intercepted">> \o Sig(m)
  ELSE IF ~m.c.excl /\ cls = "pass" THEN <<"C19.not_excluded_but_passed_through">> \o Sig(m)
  ELSE <<>>

Lost(sent, got) == Len(got) < Len(sent) /\ IsPrefix(got, sent)
AtEnd(m) ==
  IF Exempt(m) THEN <<>>
  ELSE IF m.cls = "none"       \* bytes may wait for the decision only while the first flight is incomplete
       THEN IF m.c.total > 0 /\ Len(m.c2s) >= m.c.total THEN <<"C19.undecided">> \o Sig(m) ELSE <<>>
  ELSE IF ~m.c.excl \/ m.cls \notin {"pass", "tcp"} THEN <<>>
  ELSE IF m.tos # m.c2s THEN <<"C19.relay_not_exact", "to_server", IF Lost(m.c2s, m.tos) THEN "lost" ELSE "altered">>
  ELSE IF m.toc # m.s2c THEN <<"C19.relay_not_exact", "to_client", IF Lost(m.s2c, m.toc) THEN "lost" ELSE "altered">>
  ELSE <<>>

MonStep(m, ev) ==
  CASE ev.k = "conn" -> [m EXCEPT !.c = [mode |-> ev.mode, kind |-> ev.kind, rules |-> ev.rules, excl |-> ev.excl,
                                         why |-> ev.why, syntax |-> ev.syntax, rawtcp |-> ev.rawtcp, total |-> ev.total]]
    [] ev.k = "seg" -> [m EXCEPT !.c2s = @ \o ev.data, !.nseg = Min2(@ + 1, 2),
                                 !.first = IF m.nseg = 0 THEN Len(ev.data) ELSE @,
                                 !.fcut = IF m.nseg = 0 THEN ev.cut ELSE @]
    [] ev.k = "srv" -> [m EXCEPT !.s2c = @ \o ev.data]
    [] ev.k = "decide" ->
         [m EXCEPT !.bad = AtDecide(m, ev.cls), !.cls = ev.cls, !.dseg = m.nseg,
                   !.wit = @ \cup (IF Exempt(m) THEN {"exempt"} ELSE
                              (IF m.c.excl /\ ev.cls \in {"pass", "tcp"} THEN {"excluded_by_" \o m.c.why} ELSE {})
                              \cup (IF ~m.c.excl THEN {"intercepted_" \o ev.cls} ELSE {})
                              \cup (IF ~m.c.excl /\ m.c.rules \in {"alw", "both"} THEN {"allowed_by_" \o m.c.why} ELSE {})
                              \cup (IF m.nseg >= 2 THEN {"decided_after_waiting"} ELSE {}))]
    [] ev.k = "to_server" -> [m EXCEPT !.tos = @ \o ev.data]
    [] ev.k = "to_client" -> [m EXCEPT !.toc = @ \o ev.data]
    [] ev.k = "end" ->
         [m EXCEPT !.bad = AtEnd(m),
                   !.wit = @ \cup (IF m.c.excl /\ ~Exempt(m) /\ m.dseg >= 2 /\ m.tos = m.c2s /\ m.c2s # <<>>
                                   THEN {"prebuffered_bytes_relayed"} ELSE {})
                             \cup (IF m.c.excl /\ ~Exempt(m) /\ m.toc = m.s2c /\ m.s2c # <<>> THEN {"server_bytes_relayed"} ELSE {})]
    [] OTHER -> m
Wit(m) == m.wit
=============================================================================
