----------------------------- MODULE IgnoreHosts -----------------------------
(* Implementation-shaped model of the layer decision for a connection's payload:
     mitmproxy/addons/next_layer.py   NextLayer.next_layer / _next_layer / _ignore_connection /
                                      _get_host_header / _get_client_hello (NeedsMoreData) / _setup_reverse_proxy
     mitmproxy/proxy/layer.py         NextLayer (events buffered until a layer is chosen, then replayed)
     mitmproxy/proxy/layers/tcp.py    TCPLayer(ignore=True | False).relay_messages
   A case (constant Cases[i]) fixes mode, rule sets, the evidence classes and the first flight, given as TOKENS
   (pieces between which the model may cut the flight into segments):
     http flight:  r0 "GE" | rl1 "T /x " | rl2 "HTTP/1.1 CRLF User-Agent..CRLF" | host (the Host line) | end (rest + CRLF CRLF)
     tls flight:   t1 (2 bytes) | t2 (3 more: record header) | t3 (part of the ClientHello) | t4 (the rest)
                   | t5 (the non-handshake records a 0-RTT client sends behind the hello: CCS + early data; they may
                     arrive in the segment that completes the hello -- get_client_hello stops at the end of the
                     ClientHello and never looks at them, so they do not change Decide)
     other flight: o1 | o2
   Evidence classes: "I" matches ignore_hosts, "A" matches allow_hosts, "B" both, "N" neither.
   Decide transcribes the code on the token level:
     _get_host_header: expects a header only once "HTTP/" is in the buffer (else no Host evidence, NO waiting);
        finds the Host line if the regex  CRLF Host: \s+ (.+?) \s* CRLF  matches it (syntax "nows", no whitespace after
        the colon, is not matched); header end first -> none; otherwise NeedsMoreData.
     _get_client_hello: TLS-like from 3 bytes on; incomplete -> NeedsMoreData; complete -> SNI (if present).
     both are consulted only if some rule is set; without rules the decision is taken on the first segment.
   HostNeedsWs = TRUE: the Host regex demands whitespace after the colon (finding A).  ReqLineNoWait = TRUE: a buffer
   that does not yet contain "HTTP/" yields "no Host header" instead of NeedsMoreData (finding B).  Set to FALSE when
   the code is repaired (B: wait while the buffer is an incomplete request line).
   Cases with via = "tls_hook" have no rules; an addon excludes the connection in the tls_clienthello hook
   (ClientHelloData.ignore_connection), the other passthrough mechanism of the code.
   After "pass"/"tcp" every buffered segment is relayed, then traffic flows both ways.  After "tls"/"http" the
   behaviour ends (the harness stops there).                                                              *)
EXTENDS Mon_IgnoreHosts, TLC
CONSTANTS Cases, PostC, PostS,      \* PostC / PostS: payload the client / the server sends after the first flight
          HostNeedsWs, ReqLineNoWait  \* named deviations of the code (findings_proposed/C19.md A and B); TRUE = as is
VARIABLES idx, pos, segs, cls, posted, ended, mon, obs
vars == <<idx, pos, segs, cls, posted, ended, mon, obs>>

Init == idx = 0 /\ pos = 0 /\ segs = <<>> /\ cls = "none" /\ posted = 0 /\ ended = FALSE /\ mon = MonInit /\ obs = <<>>
Live == mon.bad = <<>> /\ ~ended
Emit(evs) == obs' = evs /\ mon' = FoldEvents(MonStep, mon, evs)

Types(C, n) == {C.tokens[j].t : j \in 1..n}
RECURSIVE Cat(_, _, _)
Cat(toks, a, b) == IF a > b THEN <<>> ELSE toks[a].data \o Cat(toks, a + 1, b)

\* ---- NextLayer._ignore_connection + _next_layer on the buffer holding tokens 1..n ----
Decide(C, n) ==
  LET ty == Types(C, n)
      rulesSet == C.rules # "none"
      ignSet == C.rules \in {"ign", "both"}
      alwSet == C.rules \in {"alw", "both"}
      tlsLike == "t2" \in ty
      hostRes == IF "rl2" \notin ty
                 THEN IF ~ReqLineNoWait /\ C.kind = "http" THEN "more" ELSE "none"
                 ELSE IF "host" \in ty /\ (C.syntax # "nows" \/ ~HostNeedsWs) THEN "found"
                 ELSE IF "end" \in ty THEN "none" ELSE "more"
      helloRes == IF ~tlsLike THEN "none" ELSE IF "t4" \in ty THEN "found" ELSE "more"
      names == {C.ev.addr} \cup (IF hostRes = "found" \/ (helloRes = "found" /\ C.present) THEN {C.ev.cont} ELSE {})
      excluded == \/ alwSet /\ names \cap {"A", "B"} = {}
                  \/ ignSet /\ names \cap {"I", "B"} # {}
      probNoHttp == "rl2" \notin ty          \* no newline yet / fewer than 3 bytes / not a request line
  IN IF C.via = "tls_hook" /\ tlsLike
     \* no rules: NextLayer installs the TLS layers at once; ClientTLSLayer.receive_handshake_data buffers until the
     \* ClientHello is complete, fires tls_clienthello, and -- the addon set ignore_connection -- becomes a raw relay
     \* that is handed the buffered bytes (mitmproxy/proxy/layers/tls.py)
     THEN IF "t4" \in ty THEN "pass" ELSE "more"
     ELSE IF rulesSet /\ (hostRes = "more" \/ helloRes = "more") THEN "more"
     ELSE IF rulesSet /\ excluded THEN "pass"
     ELSE IF C.mode = "reverse" /\ C.scheme = "https" THEN "tls"
     ELSE IF tlsLike THEN "tls"
     ELSE IF C.mode = "reverse" THEN "http"
     ELSE IF C.rawtcp /\ probNoHttp THEN "tcp"
     ELSE "http"

ConnRec(C) == [k |-> "conn", mode |-> C.mode, kind |-> C.kind, rules |-> C.rules, excl |-> C.excl, why |-> C.why,
               syntax |-> C.syntax, rawtcp |-> C.rawtcp, total |-> Len(Cat(C.tokens, 1, Len(C.tokens)))]

Begin(i) == /\ Live /\ idx = 0
            /\ idx' = i /\ UNCHANGED <<pos, segs, cls, posted, ended>>
            /\ Emit(<<ConnRec(Cases[i])>>)

\* the client delivers the next n tokens as one segment
Seg(n) ==
  /\ Live /\ idx # 0 /\ cls \in {"none", "pass", "tcp"} /\ posted = 0
  /\ pos + n <= Len(Cases[idx].tokens)
  /\ LET C == Cases[idx]
         data == Cat(C.tokens, pos + 1, pos + n)
         rec == [k |-> "seg", data |-> data, cut |-> C.tokens[pos + n].cut]
     IN IF cls # "none"
        THEN /\ UNCHANGED <<cls, segs>> /\ Emit(<<rec, [k |-> "to_server", data |-> data]>>)
        ELSE LET d == Decide(C, pos + n) IN
             IF d = "more"
             THEN /\ segs' = segs \o data /\ UNCHANGED cls /\ Emit(<<rec>>)
             ELSE /\ cls' = d /\ segs' = <<>>
                  \* NextLayer replays the buffered events into the chosen layer; a relay writes them to the server
                  /\ Emit(<<rec, [k |-> "decide", cls |-> d]>>
                          \o (IF d \in {"pass", "tcp"} THEN <<[k |-> "to_server", data |-> segs \o data]>> ELSE <<>>))
  /\ pos' = pos + n /\ UNCHANGED <<idx, posted, ended>>

\* after the relay is in place: server payload, client payload, server payload (one action: the order is fixed)
Post ==
  /\ Live /\ idx # 0 /\ cls \in {"pass", "tcp"} /\ pos = Len(Cases[idx].tokens) /\ posted = 0
  /\ posted' = 3 /\ UNCHANGED <<idx, pos, segs, cls, ended>>
  /\ Emit(<<[k |-> "srv", data |-> PostS], [k |-> "to_client", data |-> PostS],
            [k |-> "seg", data |-> PostC, cut |-> "post"], [k |-> "to_server", data |-> PostC],
            [k |-> "srv", data |-> PostS], [k |-> "to_client", data |-> PostS]>>)

\* a behaviour ends when the layers took over (tls / http), or after the whole exchange, or -- undecided -- with the
\* flight delivered (truncated flights are left to the random driver)
Finish == /\ Live /\ idx # 0 /\ pos > 0
          /\ \/ cls \in {"tls", "http"}
             \/ pos = Len(Cases[idx].tokens) /\ (cls = "none" \/ posted = 3)
          /\ ended' = TRUE /\ UNCHANGED <<idx, pos, segs, cls, posted>>
          /\ Emit(<<[k |-> "end"]>>)

Next == \/ \E i \in 1..Len(Cases) : Begin(i)
        \/ \E n \in 1..5 : Seg(n)
        \/ Post
        \/ Finish
Spec == Init /\ [][Next]_vars
Report == mon.bad # <<>> => PrintT(<<"BAD", mon.bad>>)
=============================================================================
