-------------------------------- MODULE Har --------------------------------
(* Model of SaveHar.make_har / flow_entry (mitmproxy/addons/savehar.py) followed by FlowReader's HAR branch and
   har.request_to_flow (mitmproxy/io/har.py), as a case table over exchange classes.

   Rows[r] = [c |-> class names of the exchange, e |-> the projection of the ORIGINAL flow (the "exp" event without
              its index)], computed by props/C41.py from the flow it builds for the class vector; only the original
              flow is looked at for that, never the code under test.
   The import side is predicted from e and c with the rules the code follows:
     * request_to_flow maps the version strings "HTTP/2" / "http/2.0" / "HTTP/3" and turns everything else, including
       mitmproxy's own "HTTP/2.0", into HTTP/1.1                                      (H2Kept = FALSE)
     * Request.make assigns the URL, which rewrites an existing Host header to the normalised host[:port]
     * only POST / PUT / PATCH bodies are exported (postData)
     * the response is re-encoded from text (charset from the Content-Type header only, no sniffing of <meta charset>
       or of a BOM as get_text() does on export) or from base64, then Message.decode() runs on a non-empty body:
       Content-Encoding is removed and Content-Length is set to the decoded length (in place, or appended)
     * header values that are not UTF-8 make the HAR file unreadable (fix_headers encodes lone surrogates strictly)
   Ids introduced by the import: names 100.., values 200.. in order of appearance (request headers first).        *)
EXTENDS Mon_Har, TLC
CONSTANTS Rows,        \* function 1..NR -> [c, e]  (given as a lazily applied [r \in 1..NR |-> CASE ...]: TLC re-evaluates
                       \* a substituted constant at every use, so a literal table would be rebuilt for every Add(r))
          NR,
          ListRows,    \* row numbers that may appear in lists of more than one flow
          MaxFlows,
          H2Kept       \* FALSE: the code as it is
VARIABLES flows,      \* row numbers of the flows handed to make_har
          data,       \* their rows (copied from Rows when the flow is added, so that the table is consulted only there)
          phase, mon, obs
vars == <<flows, data, phase, mon, obs>>

Init == flows = <<>> /\ data = <<>> /\ phase = "build" /\ mon = MonInit /\ obs = <<>>
Emit(evs) == obs' = evs /\ mon' = FoldEvents(MonStep, mon, evs)
Live == mon.bad = <<>>

\* one more flow in the list handed to make_har
Add(r) ==
  /\ Live /\ phase = "build" /\ Len(flows) < MaxFlows
  /\ (flows # <<>> => r \in ListRows /\ \A j \in 1..Len(flows) : flows[j] \in ListRows)
  /\ flows' = Append(flows, r) /\ data' = Append(data, Rows[r]) /\ UNCHANGED phase /\ Emit(<<>>)

\* the list is handed over newest first (start time (n - j) * 10 at position j): list order is not start order
ExpEv(j) == [k |-> "exp", i |-> j, ts |-> (Len(flows) - j) * 10] @@ data[j].e @@ [c |-> data[j].c]

\* make_har(flows) + json.dumps: observed through the projection of the original flows
Export ==
  /\ Live /\ phase = "build" /\ flows # <<>>
  /\ phase' = "exported" /\ UNCHANGED <<flows, data>>
  /\ Emit([j \in 1..Len(flows) |-> ExpEv(j)])

ImpEv(j) ==
  LET c == data[j].c
      e == data[j].e
      hostNew == c.reqh = "host_explicit_port"
      nu == IF hostNew THEN 1 ELSE 0                         \* values the import has introduced so far
      bodyKept == c.respb \notin {"html_meta_latin1", "utf8_bom"}
      nonempty == c.respb # "empty"
      clSame == c.coding = "identity" /\ bodyKept
      reqh == [x \in 1..Len(e.reqh) |-> IF e.reqh[x][3] = "h" /\ hostNew THEN <<e.reqh[x][1], 200, "h">> ELSE e.reqh[x]]
      kept == SelectSeq(e.resph, LAMBDA h : h[3] # "ce")
      repl == [x \in 1..Len(kept) |-> IF kept[x][3] = "cl" /\ ~clSame THEN <<kept[x][1], 200 + nu, "cl">> ELSE kept[x]]
      resph == IF ~nonempty THEN e.resph
               ELSE IF c.clen = "cl" THEN repl ELSE Append(repl, <<100, 200 + nu, "cl">>)
  IN [k |-> "imp", i |-> j, m |-> e.m, url |-> e.url, st |-> e.st,
      ver |-> IF e.ver = "HTTP/2.0" /\ ~H2Kept THEN "HTTP/1.1" ELSE e.ver,
      reqh |-> reqh,
      reqb |-> IF e.m \in BodyMethods \/ c.reqb = "none" THEN e.reqb ELSE 2,
      resph |-> resph,
      respb |-> IF bodyKept THEN e.respb ELSE 2]

\* FlowReader(...).stream() on the exported bytes
Import ==
  /\ Live /\ phase = "exported"
  /\ phase' = "imported" /\ UNCHANGED <<flows, data>>
  /\ IF \E j \in 1..Len(flows) : data[j].c.reqh = "latin1_value"
     THEN Emit(<<[k |-> "import_failed", exc |-> "FlowReadException"]>>)
     ELSE Emit([j \in 1..Len(flows) |-> ImpEv(j)] \o <<[k |-> "done", nexp |-> Len(flows), nimp |-> Len(flows)]>>)

Next == \/ \E r \in 1..NR : Add(r)
        \/ Export
        \/ Import
Spec == Init /\ [][Next]_vars
View == <<flows, phase, obs, [mon EXCEPT !.wit = {}]>>     \* data is a function of flows
Report == mon.bad # <<>> => PrintT(<<"BAD", mon.bad>>)
=============================================================================
