------------------------------ MODULE Mon_Har ------------------------------
(* Monitor for C41: HAR export followed by HAR import preserves the exchange.

   Event records (projected by props/C41.py from the original flows and from the flows FlowReader returns for the
   exported HAR bytes).  Byte strings are interned per exchange: equal id <=> equal bytes.
     [k |-> "exp", i, m, url, ver, reqh, reqb, st, resph, respb, ts, c]   the i-th original flow of the list handed
                                      to the exporter; ts = its request start time (the list need not be in start order)
     [k |-> "imp", i, m, url, ver, reqh, reqb, st, resph, respb]      the i-th imported flow
         m     request method (string)              ver    request HTTP version (string)
         url   id of (scheme, host, port, path)     st     response status code
         reqh  request header fields without Content-Length fields ("apart from a recomputed Content-Length"),
               each <<name id, value id, tag>>, in order
         reqb  id of the request body               respb  id of the decoded response body
         resph response header fields, each <<name id, value id, tag>>, tag "cl" / "ce" / "o" (Content-Length,
               Content-Encoding, other), in order
         c     the scenario's class names (only used in violation signatures and witnesses)
     [k |-> "done", nexp, nimp]                  import finished: number of original / imported flows
     [k |-> "import_failed", exc] / [k |-> "export_failed", exc]      the reader / exporter raised
   Fields are compared in a fixed order; the first difference is reported.                                  *)
EXTENDS Verif

MonInit == [bad |-> <<>>, wit |-> {}, exp |-> <<>>, nimp |-> 0]
BodyMethods == {"POST", "PUT", "PATCH"}

Drop(h, tags) == SelectSeq(h, LAMBDA x : x[3] \notin tags)
HeaderDiff(a, b) == IF Drop(a, {"cl"}) = Drop(b, {"cl"}) THEN "content_length"
                    ELSE IF Drop(a, {"cl", "ce"}) = Drop(b, {"cl", "ce"}) THEN "content_encoding_and_length"
                    ELSE "other"

Compare(e, i) ==
  IF i.m # e.m THEN <<"C41.method", e.m>>
  ELSE IF i.url # e.url THEN <<"C41.url", e.c.url>>
  ELSE IF i.st # e.st THEN <<"C41.status">>
  ELSE IF e.m \in BodyMethods /\ i.reqb # e.reqb THEN <<"C41.request_body", e.c.reqb>>
  ELSE IF i.respb # e.respb THEN <<"C41.response_body", e.c.respb, e.c.coding>>
  ELSE IF i.reqh # e.reqh THEN <<"C41.request_headers", e.c.reqh>>
  ELSE IF i.ver # e.ver THEN <<"C41.http_version", e.ver>>
  ELSE IF i.resph # e.resph THEN <<"C41.response_headers", HeaderDiff(e.resph, i.resph)>>
  ELSE <<>>

\* scenario feature that explains a refusal of the whole file (signature only)
FailCause(m) == IF \E j \in 1..Len(m.exp) : m.exp[j].c.reqh = "latin1_value" THEN "non_utf8_header_value"
                ELSE IF \E j \in 1..Len(m.exp) : m.exp[j].c.respb \in {"invalid_utf8_declared", "invalid_utf8_html"}
                     THEN "text_body_invalid_for_charset"
                ELSE "no_unusual_input"

Clause(m, ev) ==
  CASE ev.k = "imp" -> IF ev.i # m.nimp + 1 \/ ev.i > Len(m.exp) THEN <<"C41.order_or_count">>
                       ELSE Compare(m.exp[ev.i], ev)
    [] ev.k = "done" -> IF ev.nimp # ev.nexp \/ m.nimp # ev.nexp THEN <<"C41.order_or_count">> ELSE <<>>
    [] ev.k = "import_failed" -> <<"C41.import_failed", ev.exc, FailCause(m)>>
    [] ev.k = "export_failed" -> <<"C41.export_failed", ev.exc, FailCause(m)>>
    [] OTHER -> <<>>

MonStep(m, ev) ==
  [m EXCEPT
    !.bad = IF m.bad # <<>> THEN m.bad ELSE Clause(m, ev),     \* the first violated clause is kept
    !.exp = IF ev.k = "exp" THEN Append(@, ev) ELSE @,
    !.nimp = IF ev.k = "imp" THEN @ + 1 ELSE @,
    !.wit = @ \cup (IF ev.k = "exp"
                    THEN {ev.m, ev.ver, ev.c.coding, ev.c.reqb, ev.c.respb, ev.c.reqh, ev.c.resph, ev.c.clen, ev.c.url}
                         \cup (IF ev.i > 1 THEN {"list"} ELSE {})
                         \cup (IF ev.i > 1 /\ ev.i - 1 <= Len(m.exp) /\ ev.ts < m.exp[ev.i - 1].ts
                               THEN {"list_not_in_start_order"} ELSE {})
                         \cup (IF ev.m \in BodyMethods /\ ev.c.reqb # "none" THEN {"body_method_with_body"} ELSE {})
                    ELSE IF ev.k = "done" THEN {"done"} ELSE {})]
Wit(m) == m.wit
=============================================================================
