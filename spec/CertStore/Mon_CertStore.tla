--------------------------- MODULE Mon_CertStore ---------------------------
(* Monitor for C17: the certificate store is bounded and never serves a certificate for other names.

   A name is a sequence of labels, e.g. <<"b","a","com">>; an IP SAN is the single label <<"ip:1.2.3.4">>.
   Event records (projected from the real mitmproxy.certs.CertStore by props/C17.py):
     [k |-> "add", e |-> entry id, names |-> <<names the entry is registered under>>]
     [k |-> "get", cn |-> name or <<>> (none), sans |-> <<names>>,              \* the request
                   e |-> returned entry id, custom |-> BOOLEAN,
                   ecn |-> returned certificate's CN (name or <<>>), esans |-> <<its SANs>>,
                   ngen |-> number of generated entries held by the store after the call,
                   cap |-> the store's configured capacity (STORE_CAP),
                   cached |-> BOOLEAN: a generated entry for exactly (cn, sans) was held before the call]
   Entry ids are small integers interned in first-seen order.                                        *)
EXTENDS Verif

MonInit == [bad |-> <<>>,
            reg |-> <<>>,      \* sequence of <<entry id, set of registered names>> for custom entries
            lastFor |-> <<>>,  \* sequence of <<cn, sans, entry id>>: last generated entry returned per request
            wit |-> {}]

Star == <<"*">>
\* the store's wildcard rule: a.b.c is covered by a.b.c, *.b.c, *.c  (and "*" covers everything)
AsteriskForms(n) == IF n = <<>> THEN {} ELSE
                    {n} \cup { <<"*">> \o SubSeq(n, i, Len(n)) : i \in 2..Len(n) }
Requested(ev) == AsteriskForms(ev.cn) \cup UNION { AsteriskForms(ev.sans[i]) : i \in 1..Len(ev.sans) } \cup {Star}

RegNames(m, e) == UNION { m.reg[i][2] : i \in { j \in 1..Len(m.reg) : m.reg[j][1] = e } }
LastFor(m, ev) == { m.lastFor[i][3] : i \in { j \in 1..Len(m.lastFor) :
                                                 m.lastFor[j][1] = ev.cn /\ m.lastFor[j][2] = ev.sans } }

Clause(m, ev) ==
  IF ev.k # "get" THEN <<>>
  ELSE IF ev.ngen > ev.cap THEN <<"C17.over_capacity">>
  ELSE IF ev.custom /\ RegNames(m, ev.e) \cap Requested(ev) = {}
       THEN <<"C17.custom_for_other_name">>
  \* a generated certificate names exactly the requested names; its common name may be left out (names of 64+
  \* characters do not fit into a CN), the SANs must be the requested ones
  ELSE IF ~ev.custom /\ ((ev.ecn # <<>> /\ ev.ecn # ev.cn) \/ ToSet(ev.esans) # ToSet(ev.sans))
       THEN <<"C17.generated_for_other_names">>
  ELSE IF ~ev.custom /\ ev.cached /\ LastFor(m, ev) # {} /\ ev.e \notin LastFor(m, ev)
       THEN <<"C17.not_same_while_cached">>
  ELSE <<>>

MonStep(m, ev) ==
  IF ev.k = "add" THEN
     [m EXCEPT !.reg = Append(@, <<ev.e, ToSet(ev.names)>>),
               !.lastFor = <<>>,   \* a registration may legitimately shadow cached generated entries
               !.wit = @ \cup {"add"}]
  ELSE
     [m EXCEPT !.bad = IF m.bad # <<>> THEN m.bad ELSE Clause(m, ev),
               !.lastFor = IF ev.custom THEN @
                           ELSE SelectSeq(@, LAMBDA t : ~(t[1] = ev.cn /\ t[2] = ev.sans)) \o <<<<ev.cn, ev.sans, ev.e>>>>,
               !.wit = @ \cup (IF ev.custom THEN {"get_custom"} ELSE {"get_generated"})
                         \cup (IF ev.ngen = ev.cap THEN {"at_capacity"} ELSE {})
                         \cup (IF ~ev.custom /\ ev.cached /\ LastFor(m, ev) # {} THEN {"cache_hit"} ELSE {})]
Wit(m) == m.wit
=============================================================================
