----------------------------- MODULE CertStore -----------------------------
(* Implementation-shaped model of mitmproxy.certs.CertStore (add_cert / get_cert / expire).

   certs        : the `certs` dict, as a sequence of <<key, entry id>> in insertion order (dict order matters:
                  get_cert takes the first potential key present)
   expire_queue : FIFO of generated entry ids, capacity Cap
   kind         : entry id -> "custom" | "gen";  cnOf/sansOf: what a generated entry was made for
   Keys are either a name (custom registration) or <<"gen", cn, sans>>.                                *)
EXTENDS Mon_CertStore, TLC
CONSTANTS Cap,         \* STORE_CAP
          MaxOps,      \* bound on the history length
          Requests,    \* set of <<cn, sans>> that may be requested
          Customs      \* set of name sequences a custom certificate may be registered under
VARIABLES certs, queue, nextId, genInfo, ops, mon, obs
vars == <<certs, queue, nextId, genInfo, ops, mon, obs>>

Init == /\ certs = <<>> /\ queue = <<>> /\ nextId = 1 /\ genInfo = <<>> /\ ops = 0
        /\ mon = MonInit /\ obs = <<>>

Emit(evs) == obs' = evs /\ mon' = FoldEvents(MonStep, mon, evs)
Live == mon.bad = <<>>   \* behaviours stop at the first violated clause

Lookup(key) == LET hits == { i \in 1..Len(certs) : certs[i][1] = key }
               IN IF hits = {} THEN 0 ELSE certs[CHOOSE i \in hits : TRUE][2]
SetKey(cs, key, e) ==
  IF \E i \in 1..Len(cs) : cs[i][1] = key
  THEN [i \in 1..Len(cs) |-> IF cs[i][1] = key THEN <<key, e>> ELSE cs[i]]
  ELSE Append(cs, <<key, e>>)
RECURSIVE SetKeys(_, _, _)
SetKeys(cs, names, e) == IF names = <<>> THEN cs ELSE SetKeys(SetKey(cs, Head(names), e), Tail(names), e)

\* add_cert(entry, *names): certs[name] = entry for every name
AddCert(names) ==
  /\ Live /\ ops < MaxOps
  /\ certs' = SetKeys(certs, names, nextId)
  /\ nextId' = nextId + 1 /\ ops' = ops + 1
  /\ UNCHANGED <<queue, genInfo>>
  /\ Emit(<<[k |-> "add", e |-> nextId, names |-> names]>>)

\* asterisk_forms in the order get_cert builds potential_keys
FormsSeq(n) == IF n = <<>> THEN <<>> ELSE
               <<n>> \o [i \in 1..(Len(n) - 1) |-> <<"*">> \o SubSeq(n, i + 1, Len(n))]
RECURSIVE Concat(_)
Concat(ss) == IF ss = <<>> THEN <<>> ELSE Head(ss) \o Concat(Tail(ss))
Potential(cn, sans) == FormsSeq(cn) \o Concat([i \in 1..Len(sans) |-> FormsSeq(sans[i])]) \o <<Star>>
                       \o << <<"gen", cn, sans>> >>

GenCount(cs) == Cardinality({ cs[i][2] : i \in { j \in 1..Len(cs) : cs[j][1][1] = "gen" } })
InfoOf(e) == genInfo[CHOOSE i \in 1..Len(genInfo) : genInfo[i][1] = e]

GetCert(cn, sans) ==
  /\ Live /\ ops < MaxOps /\ ops' = ops + 1
  /\ LET pk   == Potential(cn, sans)
         hits == { i \in 1..Len(pk) : Lookup(pk[i]) # 0 }
         gkey == <<"gen", cn, sans>>
         wasCached == Lookup(gkey) # 0
     IN IF hits # {}
        THEN LET first == CHOOSE i \in hits : \A j \in hits : i <= j
                 e == Lookup(pk[first])
                 isGen == pk[first][1] = "gen"
             IN /\ UNCHANGED <<certs, queue, nextId, genInfo>>
                /\ Emit(<<[k |-> "get", cn |-> cn, sans |-> sans, e |-> e, custom |-> ~isGen,
                           ecn |-> IF isGen THEN InfoOf(e)[2] ELSE <<>>,
                           esans |-> IF isGen THEN InfoOf(e)[3] ELSE <<>>,
                           ngen |-> GenCount(certs), cap |-> Cap, cached |-> wasCached]>>)
        ELSE \* generate, insert, expire()
             LET e == nextId
                 cs1 == Append(certs, <<gkey, e>>)
                 q1 == Append(queue, e)
                 over == Len(q1) > Cap
                 d == Head(q1)
                 cs2 == IF over THEN SelectSeq(cs1, LAMBDA t : t[2] # d) ELSE cs1
             IN /\ certs' = cs2
                /\ queue' = IF over THEN Tail(q1) ELSE q1
                /\ nextId' = nextId + 1
                /\ genInfo' = Append(genInfo, <<e, cn, sans>>)
                /\ Emit(<<[k |-> "get", cn |-> cn, sans |-> sans, e |-> e, custom |-> FALSE,
                           ecn |-> cn, esans |-> sans, ngen |-> GenCount(cs2), cap |-> Cap, cached |-> FALSE]>>)

Next == \/ \E r \in Requests : GetCert(r[1], r[2])
        \/ \E c \in Customs : AddCert(c)
Spec == Init /\ [][Next]_vars
Report == mon.bad # <<>> => PrintT(<<"BAD", mon.bad>>)
=============================================================================
