--------------------------- MODULE Mon_ClientReplay ---------------------------
(* Monitor for C53: with client_replay_concurrency 1, client replay runs queued flows one at a time in queue order,
   every replayed flow ends with a response or an error, unreplayable flows are never queued, and stopping restores
   every still-queued flow to its pre-replay state.

   Event records (projected by props/C53.py; f = flow id, state ids = interned flow.get_state() snapshots):
     [k |-> "submit", flows, cls, added, pre, bk]   replay.client was called with <flows> of classes <cls>; <added> are
                                                    the entries appended to the queue (ids, in order), <pre> their state
                                                    snapshots taken BEFORE the call, <bk> whether each already carried a
                                                    backup (an edited or previously replayed flow)
     [k |-> "stop", cleared, post, left]            replay.client.stop: <cleared> entries were in the queue, <post> their
                                                    states after the call, <left> what is still queued afterwards
     [k |-> "hook", name, f]                        an addon saw hook <name> for flow f (requestheaders = a replay begins;
                                                    response / error = it ends)
     [k |-> "arrive", f, s]                         the request line of flow f arrived at the (fake) server on socket s
     [k |-> "raised", op, exc]                      the command raised an exception
     [k |-> "end"]                                  the environment has let every replay finish (held flows resumed,
                                                    pending connects refused, waiting connections closed)
   Other kinds (dial, sock_open, sock_close, wrapup) are ignored.                                               *)
EXTENDS Verif
CONSTANTS Unreplayable            \* flow classes that cannot be replayed

MonInit == [bad |-> <<>>, wit |-> {},
            pending |-> <<>>,     \* queued entries not yet begun: <<f, pre, bk>>
            cur |-> 0,            \* flow whose replay began last (0: none yet)
            fin |-> TRUE,         \* ... and whether it has ended with a response or an error
            revcur |-> FALSE]     \* a stop reverted the flow whose replay began last (it was queued once more): signature only

ClsOf(ev, f) == ev.cls[CHOOSE j \in 1..Len(ev.flows) : ev.flows[j] = f]
BadAdded(ev) == {i \in 1..Len(ev.added) : ClsOf(ev, ev.added[i]) \in Unreplayable}
\* pre-replay state of flow f = snapshot taken when its earliest still-queued entry was submitted
FirstEntry(m, f) == m.pending[CHOOSE i \in 1..Len(m.pending) : m.pending[i][1] = f /\ \A j \in 1..(i-1) : m.pending[j][1] # f]
Unrestored(m, ev) == {i \in 1..Len(ev.cleared) :
                        /\ \E j \in 1..Len(m.pending) : m.pending[j][1] = ev.cleared[i]
                        /\ ev.post[i] # FirstEntry(m, ev.cleared[i])[2]}
MinOf(S) == CHOOSE i \in S : \A j \in S : i <= j

Begins(m, ev) == ev.k \in {"hook", "arrive"} /\ (ev.f # m.cur \/ (m.fin /\ ev.k = "hook" /\ ev.name = "requestheaders"))

Clause(m, ev) ==
  CASE ev.k = "submit" ->
         IF BadAdded(ev) # {} THEN <<"C53.unreplayable_queued", ClsOf(ev, ev.added[MinOf(BadAdded(ev))])>>
         ELSE IF ~m.fin /\ \E i \in 1..Len(ev.added) : ev.added[i] = m.cur THEN <<"C53.unreplayable_queued", "in_flight">>
         ELSE <<>>
    [] ev.k = "stop" ->
         IF Unrestored(m, ev) # {}
           THEN <<"C53.stop_not_restored",
                  IF FirstEntry(m, ev.cleared[MinOf(Unrestored(m, ev))])[3] THEN "flow_had_backup" ELSE "no_backup">>
         ELSE IF ev.left # <<>> THEN <<"C53.stop_left_queued">>
         ELSE <<>>
    [] Begins(m, ev) ->
         IF ~m.fin THEN <<"C53.overlap", ev.k>>                    \* the previous replay has not finished
         ELSE IF m.pending = <<>> \/ m.pending[1][1] # ev.f THEN <<"C53.not_in_queue_order">>
         ELSE <<>>
    [] ev.k = "arrive" -> IF m.fin THEN <<"C53.sent_after_finish">> ELSE <<>>
    [] ev.k = "raised" -> <<"C53.command_raised", ev.op, ev.exc>>
    [] ev.k = "end" ->
         IF ~m.fin THEN <<"C53.replay_without_outcome", IF m.revcur THEN "reverted_in_flight" ELSE "not_reverted">>
         ELSE IF m.pending # <<>> THEN <<"C53.queued_never_replayed", IF m.revcur THEN "reverted_last_begun" ELSE "not_reverted">>
         ELSE <<>>
    [] OTHER -> <<>>

Ends(ev) == ev.k = "hook" /\ ev.name \in {"response", "error"}
Upd(m, ev) ==
  CASE ev.k = "submit" ->
         [m EXCEPT !.pending = @ \o [i \in 1..Len(ev.added) |-> <<ev.added[i], ev.pre[i], ev.bk[i]>>],
                   !.wit = @ \cup {"skip_" \o ev.cls[j] : j \in {j \in 1..Len(ev.flows) : ev.cls[j] \in Unreplayable
                                                                      /\ \A i \in 1..Len(ev.added) : ev.added[i] # ev.flows[j]}}
                             \cup (IF ev.added # <<>> THEN {"queued"} ELSE {})
                             \cup (IF ~m.fin /\ \E j \in 1..Len(ev.flows) : ev.flows[j] = m.cur THEN {"skip_in_flight"} ELSE {})
                             \cup (IF \E i \in 1..Len(ev.added) : ev.bk[i] THEN {"queued_flow_with_backup"} ELSE {})]
    [] ev.k = "stop" ->
         [m EXCEPT !.pending = SelectSeq(@, LAMBDA e : \E i \in 1..Len(ev.left) : ev.left[i] = e[1]),
                   !.revcur = @ \/ (\E i \in 1..Len(ev.cleared) : ev.cleared[i] = m.cur),
                   !.wit = @ \cup (IF ev.cleared # <<>> THEN {"stop_restores"} ELSE {"stop_empty_queue"})
                             \cup (IF ev.cleared # <<>> /\ ~m.fin THEN {"stop_while_in_flight"} ELSE {})
                             \cup (IF \E i \in 1..Len(ev.cleared) : \E j \in 1..Len(m.pending) : m.pending[j][1] = ev.cleared[i] /\ m.pending[j][3]
                                   THEN {"stop_flow_with_backup"} ELSE {})]
    [] Begins(m, ev) ->
         [m EXCEPT !.cur = ev.f, !.fin = Ends(ev), !.revcur = FALSE,
                   !.pending = IF @ # <<>> /\ @[1][1] = ev.f THEN Tail(@) ELSE @,
                   !.wit = @ \cup (IF m.cur # 0 THEN {"begin_after_previous_finished"} ELSE {"first_begin"})]
    [] Ends(ev) /\ ev.f = m.cur /\ ~m.fin ->
         [m EXCEPT !.fin = TRUE, !.wit = @ \cup {"outcome_" \o ev.name}]
    [] ev.k = "arrive" -> [m EXCEPT !.wit = @ \cup {"request_sent"}]
    [] OTHER -> m

MonStep(m, ev) == [Upd(m, ev) EXCEPT !.bad = Clause(m, ev)]
Wit(m) == m.wit
=============================================================================
