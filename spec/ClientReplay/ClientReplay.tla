------------------------------ MODULE ClientReplay ------------------------------
(* Implementation-shaped model of mitmproxy/addons/clientplayback.py with client_replay_concurrency = 1:
     Submit  = ClientPlayback.start_replay(flows): check() each flow, backup(), is_replay/response/error reset, queue.put
     Stop    = ClientPlayback.stop_replay(): drain the queue, revert() each flow
     the playback task: inflight = await queue.get(); ReplayHandler(inflight).replay(); task_done; inflight = None
     ReplayHandler.replay / handle_hook: the flow goes through the real HttpLayer; every hook is awaited (and
       wait_for_resume if an addon intercepted the flow); on the response / error hook the upstream connection is
       cancelled and awaited, then done is set and the playback task takes the next flow.
   After each environment action the event loop runs until the single replay in flight blocks again, so one model
   step = environment action + the deterministic run of the pipeline (operator Go) up to the next blocking point:
     hs = "idle"       nothing in flight, queue empty (playback task waits in queue.get)
     hs = "held"       an addon intercepted the flow in hook <at>; continues at label <next> on Resume
     hs = "dial"       asyncio.open_connection pending (ConnOk / ConnFail)
     hs = "wait_resp"  the request is at the server (Respond / Garbage / SEof / SErr)
     hs = "stuck"      the held flow was reverted by Stop (it was queued once more): nobody can resume it any more
   Flow states are abstracted to <<content version, backup version>> (a fresh version per mutation); that is enough
   to predict which snapshots are equal.  Flow.backup() does nothing when a backup exists and Flow.revert() restores
   the backup: modelled as the code does it (a flow that carried a backup when queued -- edited, or replayed before --
   is therefore not restored to its pre-replay state by Stop; the monitor reports that).                       *)
EXTENDS Mon_ClientReplay, TLC
CONSTANTS MaxFlows, Cfgs
VARIABLES cfg, s, ops, mon, obs
vars == <<cfg, s, ops, mon, obs>>

Replayable == {"plain", "modified", "with_body"}
Init == /\ cfg \in {Cfgs[j] : j \in 1..Len(Cfgs)}
        /\ s = [flows |-> <<>>,      \* [cls, cv, bv, prep, resp, bresp]: resp = the flow has a response (bresp: in its backup)
                pmap |-> <<>>,       \* <<content version, version of its prepared form>>: preparation is a function
                nv |-> 0, queue |-> <<>>, infl |-> 0, hs |-> "idle", at |-> "", next |-> "",
                natt |-> 0, nsock |-> 0, sock |-> FALSE]
        /\ ops = 0 /\ mon = MonInit /\ obs = <<>>
Live == mon.bad = <<>>
Emit(evs) == obs' = evs /\ mon' = FoldEvents(MonStep, mon, evs)

Out(w, r) == [w EXCEPT !.out = Append(@, r)]
Snap(fl) == fl.cv * 1000 + (IF fl.bv = fl.cv THEN 0 ELSE fl.bv)     \* image of get_state() (backup key only if it differs)
Fresh(w, f) == [w EXCEPT !.nv = @ + 1, !.flows[f].cv = w.nv + 1, !.flows[f].prep = FALSE]

\* start_replay's is_replay = "request"; response = None; error = None: a function of the content
PrepOf(w, c) == IF \E i \in 1..Len(w.pmap) : w.pmap[i][1] = c
                THEN w.pmap[CHOOSE i \in 1..Len(w.pmap) : w.pmap[i][1] = c][2] ELSE 0
PrepareContent(w, f) ==
  LET c == w.flows[f].cv p == PrepOf(w, c) IN
  IF p # 0 THEN [w EXCEPT !.flows[f].cv = p, !.flows[f].prep = TRUE, !.flows[f].resp = FALSE]
  ELSE [w EXCEPT !.nv = @ + 1, !.flows[f].cv = w.nv + 1, !.flows[f].prep = TRUE, !.flows[f].resp = FALSE,
                 !.pmap = Append(@, <<c, w.nv + 1>>)]

RECURSIVE Go(_, _)
\* handle_hook(<name>): addons see the hook; an intercepting addon holds the flow until Resume
Hook(w, name, nxt) ==
  LET w1 == Out(w, [k |-> "hook", name |-> name, f |-> w.infl]) IN
  IF name \in w.cfg.icpt THEN [w1 EXCEPT !.hs = "held", !.at = name, !.next = nxt]
  ELSE Go(w1, nxt)
Go(w, l) ==
  CASE l = "next" ->          \* playback(): queue.get() / nothing queued
         IF w.queue = <<>> THEN [w EXCEPT !.hs = "idle", !.infl = 0]
         ELSE Go(Fresh([w EXCEPT !.infl = Head(w.queue), !.queue = Tail(@)], Head(w.queue)), "rh")
    [] l = "rh" -> Hook(w, "requestheaders", "rq")
    [] l = "rq" -> Hook(w, "request", "connect")
    [] l = "connect" ->         \* a flow that already has a response (an earlier replay of the same queued object, or a
                                \* revert while it was held) is answered from it: no request is sent
         IF w.flows[w.infl].resp THEN Go(w, "resph") ELSE
         Out([w EXCEPT !.hs = "dial", !.natt = @ + 1], [k |-> "dial", att |-> w.natt])
    [] l = "resph" -> Hook(w, "responseheaders", "resp")
    [] l = "resp" -> Hook(w, "response", "close")
    [] l = "err_open" ->        \* protocol error: the layer starts the error hook and closes the server connection itself
         LET w1 == Out(Out([w EXCEPT !.sock = FALSE], [k |-> "hook", name |-> "error", f |-> w.infl]),
                       [k |-> "sock_close", s |-> w.nsock - 1]) IN
         IF "error" \in w.cfg.icpt THEN [w1 EXCEPT !.hs = "held", !.at = "error", !.next = "finish"] ELSE Go(w1, "finish")
    [] l = "err_closed" -> Hook(w, "error", "finish")   \* connect failed / peer closed: no socket any more
    [] l = "close" -> IF w.sock THEN Go(Out([w EXCEPT !.sock = FALSE], [k |-> "sock_close", s |-> w.nsock - 1]), "finish_resp")
                      ELSE Go(w, "finish_resp")
    [] l = "finish_resp" -> Go([Fresh(w, w.infl) EXCEPT !.flows[w.infl].resp = TRUE], "next")
    [] l = "finish" -> Go(Fresh(w, w.infl), "next")

W0 == s @@ [out |-> <<>>, cfg |-> cfg]
Commit(w) == s' = [k \in DOMAIN s |-> w[k]] /\ Emit(w.out) /\ ops' = ops + 1 /\ UNCHANGED cfg
Env == Live /\ ops < cfg.maxops

\* ClientPlayback.check + the preparation in start_replay, for one flow of the batch
RECURSIVE Prepare(_, _, _, _)
Prepare(w, w0, batch, acc) ==      \* acc = [ids, added, pre, bk]
  IF batch = <<>> THEN <<w, acc>>
  ELSE LET e == Head(batch)
           isnew == e.n = 0 \/ e.n > Len(w.flows)
           f == IF isnew THEN Len(w.flows) + 1 ELSE e.n
           \* an edited flow carries a backup (version nv+1) of its original content and has content nv+2
           w1 == IF ~isnew THEN w
                 ELSE IF e.cls = "modified"
                   THEN [w EXCEPT !.flows = Append(@, [cls |-> e.cls, cv |-> w.nv + 2, bv |-> w.nv + 1, prep |-> FALSE, resp |-> TRUE, bresp |-> TRUE]), !.nv = @ + 2]
                   ELSE [w EXCEPT !.flows = Append(@, [cls |-> e.cls, cv |-> w.nv + 1, bv |-> 0, prep |-> FALSE, resp |-> TRUE, bresp |-> FALSE]), !.nv = @ + 1]
           fl == w1.flows[f]
           okay == fl.cls \in Replayable /\ f # w1.infl
           w2 == IF ~okay THEN w1
                 ELSE LET wb == IF fl.bv = 0 THEN [w1 EXCEPT !.flows[f].bv = fl.cv, !.flows[f].bresp = fl.resp] ELSE w1   \* backup()
                          wc == IF fl.prep THEN wb ELSE PrepareContent(wb, f)
                      IN [wc EXCEPT !.queue = Append(@, f)]
       IN Prepare(w2, w0, Tail(batch),
                  [ids |-> Append(acc.ids, f), cls |-> Append(acc.cls, fl.cls),
                   added |-> IF okay THEN Append(acc.added, f) ELSE acc.added,
                   \* snapshot of flow f BEFORE the call (a flow new in this batch: its creation state)
                   pre |-> IF okay THEN Append(acc.pre, IF isnew THEN Snap(fl) ELSE Snap(w0.flows[f])) ELSE acc.pre,
                   bk |-> IF okay THEN Append(acc.bk, (IF isnew THEN fl.bv ELSE w0.flows[f].bv) # 0) ELSE acc.bk])

NewCount(batch) == Cardinality({i \in 1..Len(batch) : batch[i].n = 0})
Submit(b) ==
  /\ Env /\ b \in 1..Len(cfg.batches)
  /\ LET batch == cfg.batches[b] IN
     /\ Len(s.flows) + NewCount(batch) <= MaxFlows
     /\ \A i \in 1..Len(batch) : batch[i].n <= Len(s.flows)        \* an old flow must exist
     /\ \E r \in {Prepare(W0, W0, batch, [ids |-> <<>>, cls |-> <<>>, added |-> <<>>, pre |-> <<>>, bk |-> <<>>])} :
          LET w == Out(r[1], [k |-> "submit", flows |-> r[2].ids, cls |-> r[2].cls, added |-> r[2].added,
                              pre |-> r[2].pre, bk |-> r[2].bk])
          IN Commit(IF w.hs = "idle" THEN Go(w, "next") ELSE w)

RECURSIVE Revert(_, _)
Revert(w, q) ==
  IF q = <<>> THEN w
  ELSE LET f == Head(q) fl == w.flows[f] IN
       Revert(IF fl.bv # 0 THEN [w EXCEPT !.flows[f].cv = fl.bv, !.flows[f].bv = 0, !.flows[f].prep = FALSE, !.flows[f].resp = fl.bresp]
              ELSE w, Tail(q))
\* revert() of the flow in flight while its server connection is open: Flow.set_state assigns server_conn.address,
\* which connection.Server.__setattr__ refuses on an open connection -> stop_replay raises RuntimeError half-way
StopRaises == s.sock /\ \E i \in 1..Len(s.queue) : s.queue[i] = s.infl
Stop ==
  /\ Env /\ "stop" \in cfg.feat
  /\ IF StopRaises
     THEN Commit(Out([W0 EXCEPT !.queue = <<>>], [k |-> "raised", op |-> "stop", exc |-> "RuntimeError"]))
     \* reverting the held flow in flight clears flow.intercepted without releasing wait_for_resume: it stays stuck
     ELSE \E w \in {Revert([W0 EXCEPT !.queue = <<>>, !.hs = IF s.hs = "held" /\ \E i \in 1..Len(s.queue) : s.queue[i] = s.infl
                                                            THEN "stuck" ELSE s.hs], s.queue)} :
       Commit(Out(w, [k |-> "stop", cleared |-> s.queue, post |-> [i \in 1..Len(s.queue) |-> Snap(w.flows[s.queue[i]])],
                      left |-> <<>>]))

Resume == /\ Env /\ s.hs = "held"
          /\ \E w \in {Go([W0 EXCEPT !.hs = "run", !.at = "", !.next = ""], s.next)} : Commit(w)
ConnOk == /\ Env /\ s.hs = "dial"
          /\ Commit(Out(Out([W0 EXCEPT !.hs = "wait_resp", !.sock = TRUE, !.nsock = @ + 1], [k |-> "sock_open", s |-> s.nsock]),
                        [k |-> "arrive", f |-> s.infl, s |-> s.nsock]))
ConnFail == /\ Env /\ s.hs = "dial" /\ "fail" \in cfg.feat
            /\ \E w \in {Go([W0 EXCEPT !.hs = "run"], "err_closed")} : Commit(w)
Respond == /\ Env /\ s.hs = "wait_resp"
           /\ \E w \in {Go([W0 EXCEPT !.hs = "run"], "resph")} : Commit(w)
Garbage == /\ Env /\ s.hs = "wait_resp" /\ "garbage" \in cfg.feat
           /\ \E w \in {Go([W0 EXCEPT !.hs = "run"], "err_open")} : Commit(w)
\* the server closes / resets the connection before answering: handle_connection closes our side, then the error hook
SEof == /\ Env /\ s.hs = "wait_resp" /\ "seof" \in cfg.feat
        /\ \E w \in {Go(Out([W0 EXCEPT !.hs = "run", !.sock = FALSE], [k |-> "sock_close", s |-> s.nsock - 1]), "err_closed")} : Commit(w)
SErr == /\ Env /\ s.hs = "wait_resp" /\ "serr" \in cfg.feat
        /\ \E w \in {Go(Out([W0 EXCEPT !.hs = "run", !.sock = FALSE], [k |-> "sock_close", s |-> s.nsock - 1]), "err_closed")} : Commit(w)
\* everything queued has been replayed
End == /\ Live /\ s.hs \in {"idle", "stuck"} /\ ops < 1000
       /\ ops' = 1000 /\ UNCHANGED <<cfg, s>> /\ Emit(<<[k |-> "end"]>>)

Next == \/ \E b \in 1..8 : Submit(b)
        \/ Stop \/ Resume \/ ConnOk \/ ConnFail \/ Respond \/ Garbage \/ SEof \/ SErr \/ End
Spec == Init /\ [][Next]_vars
Report == mon.bad # <<>> => PrintT(<<"BAD", mon.bad>>)
=============================================================================
