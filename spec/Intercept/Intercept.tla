------------------------------ MODULE Intercept ------------------------------
(* Implementation-shaped model of interception for one client connection:
     mitmproxy/flow.py                 Flow.intercept / resume / kill / killable / wait_for_resume
     mitmproxy/proxy/mode_servers.py   ProxyConnectionHandler.handle_hook (handle_lifecycle, then wait_for_resume)
     mitmproxy/proxy/server.py         hook_task: handle_hook, then server_event(HookCompleted)
     the message hooks of the layers   tcp.py / udp.py / websocket.py (send after the hook, no look at flow.error),
                                       dns.py (handle_request looks at flow.error, handle_response does not),
                                       http/__init__.py (HttpStream.check_killed after request and response hooks,
                                       and after responseheaders when the response of a killed flow arrives)
   Flow object (per flow f): ic = intercepted, kd = error is the kill marker, live.  _resume_event needs no variable:
   a waiter blocks iff ic is set when handle_lifecycle returns, and only resume() of an intercepted flow sets the
   event; kill() clears ic without setting it (the waiter stays where it is -- copied from the code, not a clause).
   Protocols: "tcp", "udp", "ws", "dns" have ONE layer whose hooks block the whole connection (busy / q are
   Layer._paused / _paused_event_queue); "http1", "http2" have one HttpStream per flow, a pending hook blocks only it.
   Messages: raw protocols: one flow, message n goes to the peer chosen on arrival.  http / dns: flow f has request
   2f-1 (to the server) and response 2f (to the client, can arrive once the request has been forwarded).
   Streamed http messages (request.stream / response.stream): head and body are forwarded when they arrive
   (start_request_stream / start_response_stream), before the request / response hook; after that hook only the end
   of the message is left (SendHttp(RequestEndOfMessage) / flow_done); send_response looks at the kill marker,
   state_stream_request_body does not.
   An http message may arrive without a body (kind "nobody": head only, END_STREAM on the HEADERS frame) and an
   edit of a held message may give it a body or take it away: what is forwarded is decided after the hook from
   the flow's current request / response (raw_content, done_after_headers), not from what arrived.
   User actions (resume, kill, edit) do not run the event loop; Run does (waiters wake up in the order of resume()). *)
EXTENDS Mon_Intercept, TLC
CONSTANTS Cfg,        \* per protocol to explore: [n |-> messages, flows |-> flows, user |-> user actions per behaviour,
                      \*   str |-> the messages that may be streamed (http: the addon sets .stream in the *headers hook),
                      \*   nobody |-> the (http) messages that may arrive without a body]
          Decisions,
          StreamReqKillCheck   \* FALSE copies the code: state_stream_request_body has no check_killed after the request
                               \* hook, the end of a streamed request is sent on although the flow was killed (C11-F3)
VARIABLES proto,
          ms,        \* per message: [st: "none", "queued", "waiting", "rel", "done", to, dec, cur]
          fl,        \* per flow: [ic, kd, live, known]  (known: the harness has seen the flow object in a hook)
          busy, q,   \* serial protocols: the message whose hook blocks the layer (0: none), queued arrivals
          relq,      \* waiters released by resume() that have not run yet
          fwd,       \* messages written to their destination
          closed,    \* http1: the client connection has been closed by the proxy
          sconn,     \* http: the server connection has been opened (HttpLayer.get_connection / OpenConnection)
          nuser, mon, obs
vars == <<proto, ms, fl, busy, q, relq, fwd, closed, sconn, nuser, mon, obs>>

Protos == DOMAIN Cfg
MaxN == Cfg[proto].n
NFlows == Cfg[proto].flows
MaxUser == Cfg[proto].user
Msgs == 1..MaxN
Flows == 1..NFlows
\* constant-level bounds for the quantifiers of Next (TLC names the actions only then); guards restrict to Msgs / Flows
AllMsgs == 1..(CHOOSE k \in {Cfg[p].n : p \in Protos} : \A p \in Protos : Cfg[p].n <= k)
AllFlows == 1..(CHOOSE k \in {Cfg[p].flows : p \in Protos} : \A p \in Protos : Cfg[p].flows <= k)
Serial == proto \in {"tcp", "udp", "ws", "dns"}
Paired == proto \in {"http1", "http2", "dns"}          \* request / response flows
FlowOfN(n) == IF Paired THEN (n + 1) \div 2 ELSE 1
IsReq(n) == n % 2 = 1
HasHead == proto \in {"http1", "http2"}

Init == /\ proto \in Protos
        /\ ms = [n \in Msgs |-> [st |-> "none", to |-> "s", dec |-> "pass", cur |-> n, str |-> FALSE, body |-> TRUE]]
        /\ fl = [f \in Flows |-> [ic |-> FALSE, kd |-> FALSE, live |-> TRUE, known |-> FALSE]]
        /\ busy = 0 /\ q = <<>> /\ relq = <<>> /\ fwd = {} /\ closed = FALSE /\ sconn = FALSE /\ nuser = 0
        /\ mon = MonStep(MonInit, [k |-> "cfg", proto |-> proto]) /\ obs = <<>>

Live == mon.bad = <<>>
Emit(evs) == obs' = evs /\ mon' = FoldEvents(MonStep, mon, evs)

W0(first) == [ms |-> ms, fl |-> fl, busy |-> busy, q |-> q, fwd |-> fwd, closed |-> closed, sconn |-> sconn,
              defer |-> <<>>, out |-> <<first>>]
\* http: two things a released stream asks for complete in a later loop iteration, in the order they were asked for:
\*  - requests released while the server connection is not open wait in waiting_for_establishment; when the
\*    open_connection task completes, all of them are written, in order;
\*  - check_killed(emit_error_hook=True) first runs the error hook (another hook task), then ends the flow.
AbortRec(n) == [k |-> "abort", to |-> "c", f |-> IF proto = "http1" THEN 0 ELSE FlowOfN(n)]
RECURSIVE FlushSeq(_, _, _)
FlushSeq(w, s, wdone) ==
  IF s = <<>> THEN w
  ELSE IF Head(s).t = "a" THEN FlushSeq([w EXCEPT !.out = Append(@, AbortRec(Head(s).n))], Tail(s), wdone)
  ELSE IF wdone THEN FlushSeq(w, Tail(s), TRUE)
  ELSE LET ws == SelectSeq(s, LAMBDA x : x.t = "w")
           ids == [i \in DOMAIN ws |-> w.ms[ws[i].n].cur]
           wsb == SelectSeq(ws, LAMBDA x : w.ms[x.n].body)
           bds == [i \in DOMAIN wsb |-> w.ms[wsb[i].n].cur]
           fin == IF proto = "http2" THEN [i \in DOMAIN ws |-> ws[i].n] ELSE <<>>
       IN FlushSeq([w EXCEPT !.sconn = TRUE,
                             !.out = Append(@, [k |-> "write", to |-> "s", hd |-> ids, bd |-> bds, fin |-> fin])],
                   Tail(s), TRUE)
Flush(w) == [FlushSeq(w, w.defer, FALSE) EXCEPT !.defer = <<>>]
Commit(w0) == LET w == Flush(w0) IN
              /\ ms' = w.ms /\ fl' = w.fl /\ busy' = w.busy /\ q' = w.q /\ fwd' = w.fwd /\ closed' = w.closed
              /\ sconn' = w.sconn /\ Emit(w.out)
Killable(w, f) == w.fl[f].live /\ ~w.fl[f].kd

\* the layer sends message n on (after its hook; SendData / SendHttp)
Forward(w, n) ==
  LET id == w.ms[n].cur
      f == FlowOfN(n) IN
  IF HasHead /\ IsReq(n) /\ ~w.sconn THEN [w EXCEPT !.fwd = @ \cup {n}, !.defer = Append(@, [t |-> "w", n |-> n])] ELSE
  [w EXCEPT !.fwd = @ \cup {n},
            !.fl[f].live = IF HasHead /\ ~IsReq(n) THEN FALSE ELSE @,     \* HttpStream.flow_done
            !.out = Append(@, [k |-> "write", to |-> w.ms[n].to, hd |-> IF HasHead THEN <<id>> ELSE <<>>,
                                                     bd |-> IF w.ms[n].body THEN <<id>> ELSE <<>>,
                                                     fin |-> IF proto = "http2" THEN <<n>> ELSE <<>>])]
\* a streamed message arrives: head and body go on at once (the connect, if needed, completes within the step)
StreamOn(w, n) ==
  [w EXCEPT !.sconn = IF IsReq(n) THEN TRUE ELSE @,
            !.out = Append(@, [k |-> "write", to |-> w.ms[n].to, hd |-> <<w.ms[n].cur>>, bd |-> <<w.ms[n].cur>>, fin |-> <<>>])]
\* ... and after its hook the end of the message
StreamEnd(w, n) ==
  LET f == FlowOfN(n) IN
  [w EXCEPT !.fwd = @ \cup {n},
            !.fl[f].live = IF ~IsReq(n) THEN FALSE ELSE @,
            !.out = Append(@, [k |-> "write", to |-> w.ms[n].to, hd |-> <<>>, bd |-> <<>>, fin |-> <<n>>])]
\* check_killed / DNSLayer.handle_error: the flow is ended towards the client without content
Abort(w, n) ==
  IF HasHead /\ IsReq(n)
    THEN [w EXCEPT !.closed = IF proto = "http1" THEN TRUE ELSE @, !.defer = Append(@, [t |-> "a", n |-> n])]
    ELSE [w EXCEPT !.closed = IF proto = "http1" THEN TRUE ELSE @, !.out = Append(@, AbortRec(n))]
ChecksKill(n) == proto \in {"http1", "http2"} \/ (proto = "dns" /\ IsReq(n))

RECURSIVE Fire(_, _), Release(_, _), Drain(_)
\* hook_task: handle_hook returned, HookCompleted is fed, the layer continues
Release(w, n) ==
  LET f == FlowOfN(n)
      w1 == [w EXCEPT !.ms[n].st = "done", !.busy = IF Serial THEN 0 ELSE @,
                      !.out = Append(@, [k |-> "release", n |-> n, f |-> f])]
      w2 == IF w1.ms[n].str
              THEN IF w1.fl[f].kd /\ (~IsReq(n) \/ StreamReqKillCheck) THEN Abort(w1, n) ELSE StreamEnd(w1, n)
            ELSE IF w1.fl[f].kd /\ ChecksKill(n) THEN Abort(w1, n) ELSE Forward(w1, n)
  IN Drain(w2)
\* the message hook of n runs: the addon decides, then wait_for_resume
Fire(w, n) ==
  LET f == FlowOfN(n)
      d == w.ms[n].dec
      kb == Killable(w, f)
      fl1 == CASE d = "intercept" -> [w.fl EXCEPT ![f].ic = TRUE, ![f].known = TRUE]
               [] d = "kill" /\ kb -> [w.fl EXCEPT ![f].kd = TRUE, ![f].ic = FALSE, ![f].live = FALSE, ![f].known = TRUE]
               [] OTHER -> [w.fl EXCEPT ![f].known = TRUE]
      w1 == [w EXCEPT !.fl = fl1, !.busy = IF Serial THEN n ELSE @,
                      !.out = Append(@, [k |-> "hook", n |-> n, f |-> f, d |-> d, ok |-> (d # "kill" \/ kb)])]
  IN IF fl1[f].ic THEN [w1 EXCEPT !.ms[n].st = "waiting"] ELSE Release(w1, n)
\* Layer.__continue: replay queued events while the layer is not blocked
Drain(w) == IF Serial /\ w.busy = 0 /\ w.q # <<>> THEN Fire([w EXCEPT !.q = Tail(@)], Head(w.q)) ELSE w

\* which message may arrive next
CanArrive(n) ==
  /\ ms[n].st = "none" /\ relq = <<>> /\ ~closed
  /\ IF ~Paired THEN \A k \in 1..(n - 1) : ms[k].st # "none"
     ELSE IF IsReq(n) THEN /\ \A k \in 1..(n - 1) : IsReq(k) => ms[k].st # "none"
                           /\ (proto = "http1" => \A k \in 1..(n - 1) : k \in fwd)
          ELSE (n - 1) \in fwd

\* kind: "buf" (buffered, with body), "str" (streamed, with body), "nobody" (head only)
Arrive(n, to, d, kind) ==
  /\ Live /\ n \in Msgs /\ CanArrive(n) /\ (Paired => to = (IF IsReq(n) THEN "s" ELSE "c"))
  /\ (kind = "str" => HasHead /\ n \in Cfg[proto].str)
  /\ (kind = "nobody" => HasHead /\ n \in Cfg[proto].nobody)
  /\ LET f == FlowOfN(n)
         str == kind = "str"
         w0 == [W0([k |-> "arrive", n |-> n, f |-> f, to |-> to, str |-> str, body |-> kind # "nobody"]) EXCEPT
                   !.ms[n].to = to, !.ms[n].dec = d, !.ms[n].str = str, !.ms[n].body = kind # "nobody"]
     IN IF Serial /\ busy # 0 THEN Commit([w0 EXCEPT !.ms[n].st = "queued", !.q = Append(@, n)])
        ELSE IF HasHead /\ ~IsReq(n) /\ fl[f].kd
          THEN Commit(Abort([w0 EXCEPT !.ms[n].st = "done"], n))     \* check_killed after responseheaders
        ELSE IF kind = "str" THEN Commit(Fire(StreamOn(w0, n), n))
        ELSE Commit(Fire(w0, n))
  /\ UNCHANGED <<proto, relq, nuser>>

Resume(f) ==
  /\ Live /\ f \in Flows /\ fl[f].known /\ nuser < MaxUser /\ nuser' = nuser + 1
  /\ Emit(<<[k |-> "resume", f |-> f]>>)
  /\ IF fl[f].ic
       THEN /\ fl' = [fl EXCEPT ![f].ic = FALSE]
            /\ relq' = relq \o SelectSeq([i \in 1..MaxN |-> i], LAMBDA n : ms[n].st = "waiting" /\ FlowOfN(n) = f)
            /\ ms' = [n \in Msgs |-> IF ms[n].st = "waiting" /\ FlowOfN(n) = f THEN [ms[n] EXCEPT !.st = "rel"] ELSE ms[n]]
       ELSE UNCHANGED <<fl, relq, ms>>
  /\ UNCHANGED <<proto, busy, q, fwd, closed, sconn>>

Kill(f) ==
  /\ Live /\ f \in Flows /\ fl[f].known /\ nuser < MaxUser /\ nuser' = nuser + 1
  /\ LET kb == fl[f].live /\ ~fl[f].kd IN
     /\ Emit(<<[k |-> "kill", f |-> f, ok |-> kb]>>)
     /\ fl' = IF kb THEN [fl EXCEPT ![f].kd = TRUE, ![f].ic = FALSE, ![f].live = FALSE] ELSE fl
  /\ UNCHANGED <<proto, ms, busy, q, relq, fwd, closed, sconn>>

\* the user edits the held message of flow f; b: it has a body afterwards (only http messages can lose / gain one)
EditMsg(f, b) ==
  /\ Live /\ f \in Flows /\ nuser < MaxUser /\ nuser' = nuser + 1 /\ (~b => HasHead)
  /\ \E n \in Msgs : /\ FlowOfN(n) = f /\ ms[n].st \in {"waiting", "rel"} /\ ms[n].cur = n /\ ~ms[n].str
                     /\ (b # ms[n].body => n \in Cfg[proto].nobody)
                     /\ ms' = [ms EXCEPT ![n].cur = n + EditOff, ![n].body = b]
                     /\ Emit(<<[k |-> "edit", n |-> n, f |-> f, id |-> n + EditOff, body |-> b]>>)
  /\ UNCHANGED <<proto, fl, busy, q, relq, fwd, closed, sconn>>

RECURSIVE RunAll(_, _)
RunAll(w, s) == IF s = <<>> THEN w ELSE RunAll(Release(w, Head(s)), Tail(s))
Run ==
  /\ Live /\ relq # <<>> /\ relq' = <<>>
  /\ Commit(RunAll(W0([k |-> "run"]), relq))
  /\ UNCHANGED <<proto, nuser>>

Next == \/ \E n \in AllMsgs, to \in {"s", "c"}, d \in Decisions, kind \in {"buf", "str", "nobody"} : Arrive(n, to, d, kind)
        \/ \E f \in AllFlows : Resume(f)
        \/ \E f \in AllFlows : Kill(f)
        \/ \E f \in AllFlows, b \in BOOLEAN : EditMsg(f, b)
        \/ Run
Spec == Init /\ [][Next]_vars
Report == mon.bad # <<>> => PrintT(<<"BAD", mon.bad>>)
=============================================================================
