---------------------------- MODULE Mon_Intercept ----------------------------
(* Monitor for C11: intercepted flows are held until resumed, killed flows are never forwarded.

   Observed on one client connection of the real ProxyConnectionHandler (server_event, hook_task, handle_hook,
   Flow.intercept / resume / kill / wait_for_resume) in front of the real layer stack of one of six protocols
   (props/C11.py, lib/vf/icept.py).  Abstract message n belongs to flow f and is destined for peer to ("s" server,
   "c" client); its content is identified by a small integer id (n itself; n + EditOff after it has been edited).
   Event records, in the order things happen:
     [k |-> "cfg", proto]                      first record: "http1", "http2", "ws", "tcp", "udp" or "dns"
     [k |-> "arrive", n, f, to, str]           environment: the complete message n arrived at the proxy; str: an addon
                                               asks to stream its body (http: request.stream / response.stream), so
                                               head and body travel on before the message hook and only the end of
                                               the message (trailers, last-chunk, END_STREAM) is left to withhold
                                               optional body (default TRUE): FALSE = the message has a head only
     [k |-> "hook", n, f, d, ok]               the message's hook runs; the addon's decision d is "pass", "intercept"
                                               (flow.intercept()) or "kill" (flow.kill() if killable: ok)
     [k |-> "release", n, f]                   handle_hook returned for that hook (the waiter in wait_for_resume is
                                               through); the layer continues
     [k |-> "resume", f]                       user: flow.resume()
     [k |-> "kill", f, ok]                     user: flow.kill() if flow.killable (ok)
     [k |-> "edit", n, f, id, body]            user: the held message n now has content id; body (default TRUE):
                                               whether it has a body after the edit
     [k |-> "run"]                             environment: the event loop runs until nothing is runnable
     [k |-> "write", to, hd, bd, fin]          the proxy wrote to peer to; hd / bd = content ids found (by the peer's own
                                               decoder) in message heads / bodies, fin = messages n whose clean end it
                                               saw (last-chunk, END_STREAM); consecutive writes to a peer are merged
     [k |-> "abort", to, f]                    the proxy ended flow f towards peer to without content: connection close
                                               (f = 0: all flows), stream reset, DNS SERVFAIL
     [k |-> "raised", exc]                     the proxy reported a crash
     [k |-> "end", flows]                      end of the behaviour; flows = <<[f, err, intercepted, waiting]>>:
                                               flow.error is set, flow.intercepted, hooks of f still not returned   *)
EXTENDS Verif
CONSTANTS EditOff    \* ids n and n + EditOff denote the original and the edited content of message n (n < EditOff)

Base(id) == id % EditOff
Multiplexed(proto) == proto \in {"http2", "dns"}

MonInit == [bad |-> <<>>, wit |-> {},
            proto |-> "tcp",
            arrived |-> {},      \* <<n, f, to>>
            hooked |-> {},       \* n whose hook has started
            heldI |-> {},        \* n whose hook intercepted the flow and has not returned
            released |-> {},     \* n whose hook has returned
            mustfw |-> {},       \* n owed to the destination exactly once: released while the flow was not killed, or
                                 \* held by a flow that was resumed (and not killed since) before the event loop ran
            resumed |-> {},      \* n held by an intercepted flow that has been resumed; the event loop has not run yet
            fw |-> {},           \* n whose body has been written to its destination
            fins |-> {},         \* n whose clean end has been written to its destination
            hw |-> {},           \* n whose head has been written to its destination
            nobody |-> {},       \* n whose current content is a head without body
            streamed |-> {},     \* n that are streamed
            cur |-> {},          \* <<n, id>>: current content of n
            icpt |-> {},         \* flows that are intercepted now
            killed |-> {},       \* flows that have been killed
            killedHeld |-> {}]   \* n whose hook had not returned when their flow was killed

Nums(m) == {t[1] : t \in m.arrived}
FlowOf(m, n) == (CHOOSE t \in m.arrived : t[1] = n)[2]
ToOf(m, n) == (CHOOSE t \in m.arrived : t[1] = n)[3]
CurOf(m, n) == (CHOOSE t \in m.cur : t[1] = n)[2]
Pending(m) == m.hooked \ m.released

\* messages (known ones, written towards their own destination) that a write carries something of
Fin(ev) == Get(ev, "fin", <<>>)
Carried(m, ev) == {n \in Nums(m) : ToOf(m, n) = ev.to /\ \E i \in DOMAIN (ev.hd \o ev.bd \o Fin(ev)) :
                                                             Base((ev.hd \o ev.bd \o Fin(ev))[i]) = n}
Ended(m, ev) == {n \in Nums(m) : ToOf(m, n) = ev.to /\ \E i \in DOMAIN Fin(ev) : Fin(ev)[i] = n}
BodyCount(ev, n) == Cardinality({i \in DOMAIN ev.bd : Base(ev.bd[i]) = n})
HeadCount(ev, n) == Cardinality({i \in DOMAIN ev.hd : Base(ev.hd[i]) = n})
\* message n, in its current form, is at its destination
Delivered(m, n) == IF n \in m.streamed THEN n \in m.fins ELSE IF n \in m.nobody THEN n \in m.hw ELSE n \in m.fw

OnWrite(m, ev) ==
  LET ns == Carried(m, ev) IN
  IF \E n \in ns : n \in m.heldI \/ FlowOf(m, n) \in m.icpt THEN <<"C11.sent_while_held", m.proto>>
  ELSE IF \E n \in ns : FlowOf(m, n) \in m.killed
    THEN LET n == CHOOSE x \in ns : FlowOf(m, x) \in m.killed
         IN <<"C11.sent_after_kill", m.proto,
              IF n \in m.streamed /\ n \in Ended(m, ev) THEN "streamed_end"
              ELSE IF n \in m.killedHeld THEN "held_message" ELSE "later_message",
              IF ev.to = "s" THEN "to_server" ELSE "to_client">>
  ELSE IF \E n \in ns : BodyCount(ev, n) > 1 \/ (BodyCount(ev, n) = 1 /\ n \in m.fw)
    THEN <<"C11.forwarded_twice", m.proto>>
  ELSE IF \E n \in ns : (\E i \in DOMAIN (ev.hd \o ev.bd) :
                              Base((ev.hd \o ev.bd)[i]) = n /\ (ev.hd \o ev.bd)[i] # CurOf(m, n))
                          \/ (n \in m.nobody /\ BodyCount(ev, n) > 0)     \* a body the message no longer has
    THEN <<"C11.forwarded_stale_content", m.proto>>
  ELSE <<>>

\* evaluated in the state before an environment event: what the proxy could do synchronously has been done
Check(m) ==
  IF \E n \in m.mustfw : ~Delivered(m, n) THEN <<"C11.released_or_resumed_but_not_forwarded", m.proto>>
  ELSE IF Multiplexed(m.proto)
          /\ \E t \in m.arrived : /\ t[1] \notin m.hooked /\ t[2] \notin m.killed /\ t[2] \notin m.icpt
                                  /\ ~\E n \in Pending(m) : FlowOf(m, n) = t[2]
                                  /\ \E g \in m.icpt : g # t[2]
    THEN <<"C11.sibling_stalled", m.proto>>
  ELSE <<>>

Clause(m, ev) ==
  CASE ev.k \in {"arrive", "resume", "kill", "edit", "run"} -> Check(m)
    [] ev.k = "end" ->
         IF Check(m) # <<>> THEN Check(m)
         ELSE IF \E i \in DOMAIN ev.flows : ev.flows[i].f \in m.killed /\ ~ev.flows[i].err
           THEN <<"C11.killed_without_error", m.proto>> ELSE <<>>
    [] ev.k = "hook" ->
         \* what the hook can still withhold has already left: the body, or the end of a streamed message
         IF ev.d = "intercept" /\ Delivered(m, ev.n)
           THEN <<"C11.sent_while_held", m.proto>> ELSE <<>>
    [] ev.k = "write" -> OnWrite(m, ev)
    [] ev.k = "raised" -> <<"C11.proxy_crashed", m.proto>>
    [] OTHER -> <<>>

W(c, name) == IF c THEN {name} ELSE {}
T(m, name) == m.proto \o ":" \o name     \* witnesses are per protocol

MonStep(m, ev) ==
  LET m1 == [m EXCEPT !.bad = Clause(m, ev)] IN
  CASE ev.k = "cfg" -> [m1 EXCEPT !.proto = ev.proto]
    [] ev.k = "arrive" ->
         [m1 EXCEPT !.arrived = @ \cup {<<ev.n, ev.f, ev.to>>}, !.cur = @ \cup {<<ev.n, ev.n>>},
                    !.streamed = IF Get(ev, "str", FALSE) THEN @ \cup {ev.n} ELSE @,
                    !.nobody = IF Get(ev, "body", TRUE) THEN @ ELSE @ \cup {ev.n},
                    !.mustfw = @ \cup m.resumed, !.resumed = {},      \* delivering a message runs the event loop too
                    !.wit = @ \cup W(m.icpt # {} /\ ev.f \notin m.icpt, T(m, "sibling_arrives_while_other_held"))
                              \cup W(ev.f \in m.icpt, T(m, "arrives_while_own_flow_held"))
                              \cup W(ev.f \in m.killed, T(m, "arrives_after_kill"))]
    [] ev.k = "hook" ->
         [m1 EXCEPT !.hooked = @ \cup {ev.n},
                    !.heldI = IF ev.d = "intercept" THEN @ \cup {ev.n} ELSE @,
                    !.icpt = IF ev.d = "intercept" THEN @ \cup {ev.f}
                             ELSE IF ev.d = "kill" /\ ev.ok THEN @ \ {ev.f} ELSE @,
                    !.killed = IF ev.d = "kill" /\ ev.ok THEN @ \cup {ev.f} ELSE @,
                    !.killedHeld = IF ev.d = "kill" /\ ev.ok THEN @ \cup {ev.n} ELSE @,
                    !.wit = @ \cup W(ev.d = "intercept", T(m, "intercepted"))
                              \cup W(ev.d = "intercept" /\ ev.n \in m.streamed, T(m, "streamed_intercepted"))
                              \cup W(ev.d = "kill" /\ ev.ok /\ ev.n \in m.streamed, T(m, "streamed_killed_in_hook"))
                              \cup W(ev.d = "kill" /\ ev.ok, T(m, "killed_in_hook"))
                              \cup W(m.icpt # {} /\ ev.f \notin m.icpt, T(m, "sibling_progress"))]
    [] ev.k = "release" ->
         [m1 EXCEPT !.released = @ \cup {ev.n}, !.heldI = @ \ {ev.n},
                    !.mustfw = IF ev.f \in m.killed THEN @ ELSE @ \cup {ev.n},
                    !.wit = @ \cup W(ev.n \in m.heldI, T(m, "held_then_released"))
                              \cup W(ev.n \in m.heldI /\ ev.f \in m.killed, T(m, "released_after_kill"))]
    [] ev.k = "resume" -> [m1 EXCEPT !.icpt = @ \ {ev.f},
                                     !.resumed = IF ev.f \in m.icpt THEN @ \cup {n \in m.heldI : FlowOf(m, n) = ev.f} ELSE @,
                                     !.wit = @ \cup W(ev.f \in m.killed, T(m, "resume_after_kill"))]
    [] ev.k = "run" -> [m1 EXCEPT !.mustfw = @ \cup m.resumed, !.resumed = {}]
    [] ev.k = "kill" ->
         IF ~ev.ok THEN [m1 EXCEPT !.wit = @ \cup {T(m, "kill_refused")}]
         ELSE [m1 EXCEPT !.killed = @ \cup {ev.f}, !.icpt = @ \ {ev.f},
                         !.resumed = {n \in @ : FlowOf(m, n) # ev.f},
                         !.killedHeld = @ \cup {n \in Pending(m) : FlowOf(m, n) = ev.f},
                         !.wit = @ \cup W(ev.f \in m.icpt, T(m, "killed_while_held"))
                                   \cup W(\E n \in Pending(m) : FlowOf(m, n) = ev.f /\ ev.f \notin m.icpt,
                                          T(m, "killed_after_resume_before_release"))
                                   \cup W(~\E n \in Pending(m) : FlowOf(m, n) = ev.f, T(m, "killed_between_messages"))]
    [] ev.k = "edit" -> [m1 EXCEPT !.cur = {t \in @ : t[1] # ev.n} \cup {<<ev.n, ev.id>>},
                                   !.nobody = IF Get(ev, "body", TRUE) THEN @ \ {ev.n} ELSE @ \cup {ev.n},
                                   !.wit = @ \cup {T(m, "edited")}
                                             \cup W(Get(ev, "body", TRUE) /\ ev.n \in m.nobody, T(m, "edit_adds_body"))
                                             \cup W(~Get(ev, "body", TRUE) /\ ev.n \notin m.nobody, T(m, "edit_removes_body"))]
    [] ev.k = "write" ->
         LET ns == Carried(m, ev) IN
         [m1 EXCEPT !.fw = @ \cup {n \in ns : BodyCount(ev, n) > 0},
                    !.fins = @ \cup Ended(m, ev),
                    !.hw = @ \cup {n \in ns : HeadCount(ev, n) > 0},
                    !.wit = @ \cup W(\E n \in Ended(m, ev) : n \in m.streamed /\ n \in m.released, T(m, "streamed_end_after_release"))
                              \cup W(ns # {}, T(m, "forwarded"))
                              \cup W(\E n \in ns : CurOf(m, n) # n, T(m, "edited_forwarded"))]
    [] ev.k = "abort" -> [m1 EXCEPT !.wit = @ \cup {T(m, "aborted")}]
    [] ev.k = "end" ->
         [m1 EXCEPT !.wit = @ \cup W(\E i \in DOMAIN ev.flows : ev.flows[i].f \in m.killed /\ ev.flows[i].waiting > 0,
                                     T(m, "waiter_not_released_by_kill"))]
    [] OTHER -> m1
Wit(m) == m.wit
=============================================================================
