---------------------------- MODULE Mon_Http1Seg ----------------------------
(* Monitor for C02: HTTP/1 behaviour does not depend on TCP segmentation or pipelining.

   A trace is one pair of byte streams (client, origin server) run twice through the real stack: whole-stream
   delivery first (reference), then the segmentation / interleaving under test.  Event records (props/C02.py):
     [k |-> "stream", feat, tags]     stimulus: feature class of the client stream ("plain", "blank_line": an empty line
                                      precedes a request line, ...), X-Id tags of the client's requests in order
     [k |-> "ref", flows, up, down]   outcome of whole-stream delivery: interned ids (first-seen order) of
                                      flows = per flow: hook sequence, recorded request, recorded response, error flag
                                      up    = messages the reference parser reads from the bytes written upstream
                                      down  = messages it reads from the bytes written to the client (+ close state)
     [k |-> "seg", c |-> "client"|"server", cut]    one segment delivered; cut: role of the piece it ends in
                                      (n blank line, h head, H end of head, b body, B end of body; "+": inside the piece)
     [k |-> "hook", name, f, tag (, rtag)]   tag: X-Id of the flow's request; rtag: X-Re of its response (0: none)
     [k |-> "fwd", i, tag]            the i-th complete request appeared on the upstream bytes
     [k |-> "answer", i, tag]         the origin-server peer answers it, echoing tag as X-Re
     [k |-> "relayed", i, tag, status]   the i-th final response appeared on the client-side bytes (tag: its X-Re)
     [k |-> "interim", status]  [k |-> "sclose"]  [k |-> "raised", exc]
     [k |-> "end", flows, up, down]   outcome of the run under test (everything delivered)
   Clauses (C02 statement):
     every segmentation yields the same flows and the peers receive the same messages  -> outcome_depends_on_segmentation
     pipelined requests are answered in order, each response matched to its own request
                                                       -> response_mismatched, flow_response_mismatched, forward_order   *)
EXTENDS Verif

MonInit == [bad |-> <<>>, wit |-> {}, feat |-> "", tags |-> <<>>, ref |-> <<0, 0, 0>>,
            lastFwd |-> 0,        \* position (in tags) of the last forwarded request
            nfwd |-> 0, nrel |-> 0, csegs |-> 0, ssegs |-> 0, sinceSeg |-> 0]

Clause(m, ev) ==
  CASE ev.k = "relayed" ->
         IF ev.tag # 0 /\ (ev.i > Len(m.tags) \/ m.tags[ev.i] # ev.tag)
           THEN <<"C02.response_mismatched", m.feat>> ELSE <<>>
    [] ev.k = "hook" /\ ev.name = "response" ->
         IF ev.rtag # 0 /\ ev.rtag # ev.tag THEN <<"C02.flow_response_mismatched", m.feat>> ELSE <<>>
    [] ev.k = "fwd" ->
         IF ev.tag # 0 /\ IndexOf(m.tags, ev.tag) # 0 /\ IndexOf(m.tags, ev.tag) <= m.lastFwd
           THEN <<"C02.forward_order", m.feat>> ELSE <<>>
    [] ev.k = "end" ->
         IF ev.flows # m.ref[1] THEN <<"C02.outcome_depends_on_segmentation", "flows", m.feat>>
         ELSE IF ev.up # m.ref[2] THEN <<"C02.outcome_depends_on_segmentation", "upstream", m.feat>>
         ELSE IF ev.down # m.ref[3] THEN <<"C02.outcome_depends_on_segmentation", "client", m.feat>>
         ELSE <<>>
    [] OTHER -> <<>>

MonStep(m, ev) ==
  IF m.bad # <<>> THEN m
  ELSE LET m1 == [m EXCEPT !.bad = Clause(m, ev)] IN
  CASE ev.k = "stream" -> [m1 EXCEPT !.feat = ev.feat, !.tags = ev.tags, !.wit = @ \cup {"feat_" \o ev.feat}]
    [] ev.k = "ref" -> [m1 EXCEPT !.ref = <<ev.flows, ev.up, ev.down>>]
    [] ev.k = "seg" ->
         [m1 EXCEPT !.csegs = IF ev.c = "client" THEN @ + 1 ELSE @, !.ssegs = IF ev.c = "server" THEN @ + 1 ELSE @,
                    !.sinceSeg = 0,
                    !.wit = @ \cup {"cut_" \o ev.c \o "_" \o ev.cut}
                              \cup (IF ev.c = "client" /\ m.nfwd > m.nrel THEN {"client_data_while_exchange_open"} ELSE {})]
    [] ev.k = "hook" ->
         [m1 EXCEPT !.sinceSeg = @ + 1,
                    !.wit = @ \cup (IF ev.name = "requestheaders" /\ ev.f > 1 /\ m.sinceSeg > 0 /\ m.nrel >= 1
                                      THEN {"next_request_from_buffer"} ELSE {})
                              \cup (IF ev.name = "error" THEN {"error_hook"} ELSE {})]
    [] ev.k = "fwd" -> [m1 EXCEPT !.nfwd = @ + 1, !.lastFwd = Max2(@, IndexOf(m.tags, ev.tag)),
                                  !.wit = @ \cup (IF m.nfwd >= 1 THEN {"second_request_forwarded"} ELSE {})]
    [] ev.k = "relayed" -> [m1 EXCEPT !.nrel = @ + 1, !.sinceSeg = @ + 1,
                                      !.wit = @ \cup (IF ev.tag # 0 THEN {"response_matched"} ELSE {"untagged_response"})
                                                \cup (IF ev.tag # 0 /\ ev.i >= 2 THEN {"second_response_matched"} ELSE {})]
    [] ev.k = "interim" -> [m1 EXCEPT !.wit = @ \cup {"interim"}]
    [] ev.k = "sclose" -> [m1 EXCEPT !.wit = @ \cup {"server_close"}]
    [] ev.k = "end" -> [m1 EXCEPT !.wit = @ \cup (IF m1.bad = <<>> THEN {"same_outcome"} ELSE {})
                                          \cup (IF m.csegs >= 3 THEN {"three_client_segments"} ELSE {})
                                          \cup (IF m.ssegs >= 3 THEN {"three_server_segments"} ELSE {})]
    [] OTHER -> m1
Wit(m) == m.wit
=============================================================================
