----------------------------- MODULE Http1Seg -----------------------------
(* Implementation-shaped model for C02: delivery of the two byte streams made explicit.

   A scenario is a sequence of exchanges [req |-> kind, resp |-> kind]; each message is a sequence of pieces
   (tokens) with a role:  n  blank line before the request line     h  part of the head     H  piece completing the head
                           b  part of the body                       B  piece completing the body
   request kinds   get head crlf_get crlf2_get lf3_get post_cl post_chunked expect bad(Content-Length + Transfer-Encoding: rejected)
   response kinds  cl chunked eof(body until close) nobody(204) bad(Content-Length + Transfer-Encoding: rejected)
                   cl_x (a complete response followed by surplus bytes x the proxy never asked for)
   DeliverC(k) / DeliverS(k) hand the next k pieces to the proxy as one DataReceived; the origin server's pieces for
   exchange i exist only after request i was forwarded (causality).  What the code does with a segment is computed by
     RunS  = Http1Server.read_headers / read_body / wait on Http1Connection.buf   (_http1.py)
     RunC  = Http1Client.read_headers / read_body
     Done  = mark_done on both connections: reset, and re-dispatch of a non-empty buf (if self.buf: self.state(...))
   Former deviation (DevBlankLineStalls, repaired): ReceiveBuffer.maybe_extract_lines() returns [] for a leading blank
   line and read_headers used to return without looking at the rest of the buffer.
   The reference outcome (whole-stream delivery) is computed with the same operators (RefW).                  *)
EXTENDS Mon_Http1Seg, TLC
CONSTANTS Scenarios, MaxCSeg, MaxSSeg

\* finding C02-F1 (a request behind a blank line was parsed only when the next segment arrived), repaired in /repo
\* by 89551eb23 -> FALSE describes the current code
DevBlankLineStalls == FALSE

VARIABLES scn, st, ncseg, nsseg, ended, mon, obs
vars == <<scn, st, ncseg, nsseg, ended, mon, obs>>

ReqToks(k) == CASE k \in {"get", "head"} -> <<"h", "h", "H">>
                [] k = "crlf_get" -> <<"n", "h", "h", "H">>
                [] k = "crlf2_get" -> <<"n", "n", "h", "h", "H">>            \* two empty lines (CRLF CRLF) before the request line
                [] k = "lf3_get" -> <<"n", "n", "n", "h", "h", "H">>         \* three bare LF
                [] k \in {"post_cl", "expect", "bad"} -> <<"h", "H", "b", "B">>
                [] k = "post_chunked" -> <<"h", "H", "b", "b", "B">>
RespToks(k, nobody) == IF nobody \/ k = "nobody" THEN <<"h", "H">>
                       ELSE CASE k \in {"cl", "bad"} -> <<"h", "H", "b", "B">>
                              [] k = "cl_x" -> <<"h", "H", "b", "B", "x", "x">>     \* x: bytes the server sends beyond the response
                              [] k = "chunked" -> <<"h", "H", "b", "b", "B">>
                              [] k = "eof" -> <<"h", "H", "b", "b">>
Toks(i, roles) == [j \in 1..Len(roles) |-> [i |-> i, r |-> roles[j]]]
RECURSIVE Flat(_, _)
Flat(s, i) == IF i > Len(s) THEN <<>> ELSE Toks(i, ReqToks(s[i].req)) \o Flat(s, i + 1)
Nobody(s, i) == s[i].req = "head"
RespOf(s, i) == Toks(i, RespToks(s[i].resp, Nobody(s, i)))
EofBody(s, i) == s[i].resp = "eof" /\ ~Nobody(s, i)            \* the body ends when the server closes

PosOf(seq, i, r) == CHOOSE p \in 1..Len(seq) : seq[p].i = i /\ seq[p].r = r
LastPos(seq, i) == CHOOSE p \in 1..Len(seq) : seq[p].i = i /\ seq[p].r # "x"
                                             /\ \A q \in (p + 1)..Len(seq) : seq[q].i # i \/ seq[q].r = "x"
\* Http1Client.read_headers without an outstanding request ("Unexpected data from server"): the upstream connection is
\* closed, what the peer sends on it afterwards is never seen; the next request opens a new connection
Unexpected(w) == [w EXCEPT !.ss = SubSeq(@, 1, w.spos), !.spp = w.spos]
SurplusPending(w) == \E p \in (w.spos + 1)..Len(w.ss) : w.ss[p].r = "x"

\* state of one run
W0 == [cpos |-> 0, cpp |-> 0, sst |-> "rh", curi |-> 0, nflow |-> 0, cdead |-> FALSE,
       ss |-> <<>>, spos |-> 0, spp |-> 0, cst |-> "rh", wf |-> 0, wi |-> 0, sclosed |-> FALSE, sdead |-> FALSE,
       closeDue |-> FALSE, nfwd |-> 0, nrel |-> 0, nint |-> 0, out |-> <<>>]
Hook(name, f, tag) == [k |-> "hook", name |-> name, f |-> f, tag |-> tag]

RECURSIVE RunS(_, _)
RunS(s, w) ==
  LET cs == Flat(s, 1) IN
  IF w.cdead \/ w.sst \in {"wait", "done"} THEN w
  ELSE IF w.sst = "rh" THEN
    IF w.cpp >= w.cpos THEN w
    ELSE LET t == cs[w.cpp + 1] IN
      IF t.r = "n"        \* maybe_extract_lines() returns [] for a leading blank line
        THEN IF DevBlankLineStalls THEN [w EXCEPT !.cpp = @ + 1]      \* old code: nothing else in this call
             ELSE RunS(s, [w EXCEPT !.cpp = @ + 1])                   \* repaired: keep extracting
      ELSE LET hp == PosOf(cs, t.i, "H")
               f == w.nflow + 1
           IN IF hp > w.cpos THEN w
              ELSE IF s[t.i].req = "bad"   \* check_invalid: requestheaders, error, 400 page, close
                THEN [w EXCEPT !.cpp = hp, !.nflow = f, !.cdead = TRUE, !.sst = "done", !.nrel = @ + 1,
                               !.out = @ \o <<Hook("requestheaders", f, t.i), Hook("error", f, t.i),
                                              [k |-> "relayed", i |-> w.nrel + 1, tag |-> 0, status |-> 400]>>]
                ELSE RunS(s, [w EXCEPT !.cpp = hp, !.nflow = f, !.curi = t.i, !.sst = "rb",
                                       !.nint = IF s[t.i].req = "expect" THEN @ + 1 ELSE @,
                                       !.out = @ \o <<Hook("requestheaders", f, t.i)>>
                                                 \o (IF s[t.i].req = "expect" THEN <<[k |-> "interim", status |-> 100]>> ELSE <<>>)])
  ELSE \* read_body
    LET i == w.curi
        lp == LastPos(cs, i)
        upto == Min2(w.cpos, lp)
    IN IF upto < lp THEN [w EXCEPT !.cpp = upto]
       ELSE [w EXCEPT !.cpp = lp, !.sst = "wait", !.wf = w.nflow, !.wi = i, !.nfwd = @ + 1,
                      !.ss = @ \o RespOf(s, i), !.closeDue = s[i].resp = "eof",
                      !.out = @ \o <<Hook("request", w.nflow, i), [k |-> "fwd", i |-> w.nfwd + 1, tag |-> i],
                                     [k |-> "answer", i |-> w.nfwd + 1, tag |-> i]>>]

RunC(s, w) ==
  IF w.sdead THEN w
  ELSE IF w.wf = 0 THEN (IF w.spos > w.spp THEN Unexpected(w) ELSE w)
  ELSE LET i == w.wi
           f == w.wf
           hp == PosOf(w.ss, i, "H")
           lp == LastPos(w.ss, i)
           headNow == w.cst = "rh" /\ hp <= w.spos
           inBody == w.cst = "rb" \/ headNow
           bad == s[i].resp = "bad"
           complete == inBody /\ w.spos >= lp /\ (EofBody(s, i) => w.sclosed)
           evH == IF headNow /\ ~bad THEN <<Hook("responseheaders", f, i)>> ELSE <<>>
           status == IF s[i].resp = "nobody" THEN 204 ELSE 200
       IN
       IF w.cst = "rh" /\ ~headNow THEN w
       ELSE IF headNow /\ bad      \* check_invalid(False): close server, error hook, 502 page, close client
         THEN [w EXCEPT !.spp = hp, !.sdead = TRUE, !.cdead = TRUE, !.sst = "done", !.wf = 0, !.nrel = @ + 1,
                        !.out = @ \o <<Hook("error", f, i), [k |-> "relayed", i |-> w.nrel + 1, tag |-> 0, status |-> 502]>>]
       ELSE IF ~complete THEN [w EXCEPT !.cst = "rb", !.spp = Min2(w.spos, lp), !.out = @ \o evH]
       ELSE \* response complete: response hook, relay, mark_done on both connections
         LET w1 == [w EXCEPT !.cst = "rh", !.spp = lp, !.wf = 0, !.nrel = @ + 1,
                             !.out = @ \o evH \o <<Hook("response", f, i) @@ [rtag |-> i],
                                                   [k |-> "relayed", i |-> w.nrel + 1, tag |-> i, status |-> status]>>]
         IN IF EofBody(s, i)     \* read-until-EOF semantics: both connections are closed
              THEN [w1 EXCEPT !.sdead = TRUE, !.cdead = TRUE, !.sst = "done"]
              ELSE \* mark_done on Http1Client (if self.buf: surplus bytes -> Unexpected), then on Http1Server (re-dispatch)
                   RunS(s, [(IF w1.spos > lp THEN Unexpected(w1) ELSE w1) EXCEPT !.sst = "rh"])

DelC(s, w, k) == RunS(s, [w EXCEPT !.cpos = @ + k])
DelS(s, w, k) == RunC(s, [w EXCEPT !.spos = @ + k])
SClose(s, w) == IF w.sdead THEN [w EXCEPT !.closeDue = FALSE]
                ELSE RunC(s, [w EXCEPT !.sclosed = TRUE, !.closeDue = FALSE])
CloseReady(w) == w.closeDue /\ w.spos = Len(w.ss) /\ ~w.sdead

\* whole-stream delivery: everything the client has in one segment, then each response whole
RECURSIVE Drain(_, _, _)
Drain(s, w, fuel) ==
  IF fuel = 0 THEN w
  ELSE IF ~w.sdead /\ w.spos < Len(w.ss) THEN Drain(s, DelS(s, w, Len(w.ss) - w.spos), fuel - 1)
  ELSE IF CloseReady(w) THEN Drain(s, SClose(s, w), fuel - 1)
  ELSE w
RefW(s) == Drain(s, DelC(s, W0, Len(Flat(s, 1))), 3 * Len(s) + 2)

---------------------------------------------------------------------------
Init == scn = <<>> /\ st = W0 /\ ncseg = 0 /\ nsseg = 0 /\ ended = FALSE /\ mon = MonInit /\ obs = <<>>
Live == mon.bad = <<>> /\ ~ended
Emit(evs) == obs' = evs /\ mon' = FoldEvents(MonStep, mon, evs)
Feat(s) == IF \E i \in 1..Len(s) : s[i].req \in {"crlf_get", "crlf2_get", "lf3_get"} THEN "blank_line"
           ELSE IF \E i \in 1..Len(s) : s[i].resp = "cl_x" THEN "surplus" ELSE "plain"
\* causality for unsolicited bytes: they reach the proxy before the client's next request does (otherwise they ARE the
\* answer to that request as far as any HTTP/1 recipient can tell)
ClientMay(s, w, p) == LET m == Flat(s, 1)[p].i
                      IN IF m = 1 THEN TRUE
                         ELSE IF s[m - 1].resp # "cl_x" THEN TRUE
                         ELSE w.nrel >= m - 1 /\ ~SurplusPending(w)

Start(s) ==
  /\ Live /\ scn = <<>> /\ scn' = s /\ UNCHANGED <<st, ncseg, nsseg, ended>>
  /\ Emit(<<[k |-> "stream", feat |-> Feat(s), tags |-> [i \in 1..Len(s) |-> i]],
            [k |-> "ref", flows |-> 1, up |-> 1, down |-> 1]>>)

Step(w, first) == /\ st' = [w EXCEPT !.out = <<>>] /\ Emit(<<first>> \o w.out)

DeliverC(k) ==
  /\ Live /\ scn # <<>> /\ ~st.cdead /\ k >= 1 /\ st.cpos + k <= Len(Flat(scn, 1))
  /\ ncseg < MaxCSeg /\ (ncseg = MaxCSeg - 1 => st.cpos + k = Len(Flat(scn, 1)))
  /\ \A p \in (st.cpos + 1)..(st.cpos + k) : ClientMay(scn, st, p)
  /\ ncseg' = ncseg + 1 /\ UNCHANGED <<scn, ended>>
  /\ LET w == DelC(scn, st, k)
     IN /\ nsseg' = IF w.nfwd > st.nfwd THEN 0 ELSE nsseg
        /\ Step(w, [k |-> "seg", c |-> "client", cut |-> Flat(scn, 1)[st.cpos + k].r])

DeliverS(k) ==
  /\ Live /\ scn # <<>> /\ ~st.sdead /\ k >= 1 /\ st.spos + k <= Len(st.ss)
  /\ nsseg < MaxSSeg /\ (nsseg = MaxSSeg - 1 => st.spos + k = Len(st.ss))
  /\ UNCHANGED <<scn, ncseg, ended>>
  /\ LET w == DelS(scn, st, k)
     IN /\ nsseg' = IF w.nfwd > st.nfwd THEN 0 ELSE nsseg + 1
        /\ Step(w, [k |-> "seg", c |-> "server", cut |-> st.ss[st.spos + k].r])

ServerClose ==
  /\ Live /\ scn # <<>> /\ CloseReady(st)
  /\ UNCHANGED <<scn, ncseg, nsseg, ended>>
  /\ Step(SClose(scn, st), [k |-> "sclose"])

Finish ==
  /\ Live /\ scn # <<>>
  /\ (st.cdead \/ st.cpos = Len(Flat(scn, 1))) /\ (st.sdead \/ st.spos = Len(st.ss)) /\ ~CloseReady(st)
  /\ ended' = TRUE /\ UNCHANGED <<scn, st, ncseg, nsseg>>
  /\ LET r == RefW(scn)
     IN Emit(<<[k |-> "end", flows |-> IF st.nflow = r.nflow THEN 1 ELSE 2,
                up |-> IF st.nfwd = r.nfwd THEN 1 ELSE 2,
                down |-> IF st.nrel = r.nrel /\ st.nint = r.nint THEN 1 ELSE 2]>>)

Next == \/ \E s \in Scenarios : Start(s)
        \/ \E k \in 1..12 : DeliverC(k)
        \/ \E k \in 1..12 : DeliverS(k)
        \/ ServerClose
        \/ Finish
Spec == Init /\ [][Next]_vars
Report == mon.bad # <<>> => PrintT(<<"BAD", mon.bad>>)
=============================================================================
