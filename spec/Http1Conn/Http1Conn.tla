----------------------------- MODULE Http1Conn -----------------------------
(* Implementation-shaped model for C01: one client connection through
     HttpLayer(regular) -> Http1Server -> HttpStream -> Http1Client      (mitmproxy/proxy/layers/http)
   with complete messages as stimuli.  A message is abstracted to the features that decide framing:
     request class  [m, v, te, cl, nm, body, exp]       response class [st, v, te, cl, nm, body, close, pre103]
       te   Transfer-Encoding class  none chunked gzip_chunked two_fields gzip identity unknown_chunked chunked_twice
                                     chunked_gzip nonascii empty
       cl   Content-Length class     none n zero ws plus hex padded neg list_same two_same two_diff empty
       nm   field-name class         ok fold sp_colon ctl nonascii sp_colon_cl sp_colon_te empty nocolon lead_fold
       body chunk shape              plain ext ext_bws upper zero badhex lf      (only meaningful for chunked bodies)
       exp  Expect: 100-continue     close: the server closes after the response     pre103: a 103 head precedes it
   A feed (DataReceived for one complete message) is synchronous in the code and the harness completes hooks and
   connection attempts right after it, so one stimulus is one action; what happens inside is computed by operators
   that follow the code:
     ReqSize / RespSize   net/http/http1/read.py  expected_http_body_size
     Invalid              net/http/validate.py    validate_headers (called from HttpStream.check_invalid)
     ProxyReq             _http1.py Http1Server.read_headers + read_body, HttpStream.state_wait_for_request_headers
     ProxyResp            _http1.py Http1Client.read_headers + read_body, HttpStream.state_wait_for_response_headers
     ProcReq / ProcResp   the rest of the cascade: hooks, addon edits, Http1Client.send / Http1Server.send, mark_done
     Ref*                 what a strict RFC 9112 recipient does with the same class (lib/vf/h1ref.py)
   Known deviation of the code, modelled as such: a body the addon puts on a response that cannot have one (HEAD,
   1xx, 204, 304) is written to the client (Http1Server.send does not look at the request method for ResponseData);
   a 1xx head from the server is recorded and relayed as the (final) response of the flow.  (The last-chunk after a
   304 with Transfer-Encoding: chunked was repaired: DevLastChunkAfterBodilessStatus.)                    *)
EXTENDS Mon_Http1Conn, TLC
CONSTANTS ReqPlans,      \* set of <<request class, <<requestheaders edit, request edit>> >>
          RespPlans,     \* set of <<response class, <<responseheaders edit, response edit>> >>
          CanonReq,      \* request plans after which every response plan is explored
          CanonResp,     \* response plans explored after the other request plans
          LimChoices,    \* subset of BOOLEAN: may the connection run with stream_large_bodies = 6 (edit name "limit")
          MaxEx,         \* client messages per connection
          Pipeline       \* may the client send the next request before the response arrived

VARIABLES nsent, cconn, h1s, pend, cur, sconn, nflow, nT, nF, nB, cms, nfinal, lag, up, down, brk, ended, lim, mon, obs
vars == <<nsent, cconn, h1s, pend, cur, sconn, nflow, nT, nF, nB, cms, nfinal, lag, up, down, brk, ended, lim, mon, obs>>

\* Http1Server.send(ResponseEndOfMessage) wrote 0 CRLF CRLF after 204 / 304 / 1xx responses carrying
\* Transfer-Encoding: chunked (finding C01-F2); repaired in /repo by feb0b40bb -> FALSE describes the current code
DevLastChunkAfterBodilessStatus == FALSE
NoBrk == [on |-> FALSE, at |-> 0, kind |-> ""]    \* where the client-side byte stream stops being parsable (deviations below)
NoCur == [on |-> FALSE, f |-> 0, tag |-> 0, m |-> "", v10 |-> FALSE, exp |-> FALSE, answered |-> FALSE, canon |-> FALSE]
Init == /\ nsent = 0 /\ cconn = "open" /\ h1s = "read_headers" /\ pend = <<>> /\ cur = NoCur
        /\ sconn = [n |-> 0, open |-> FALSE] /\ nflow = 0 /\ nT = 0 /\ nF = 0 /\ nB = 0
        /\ cms = <<>> /\ nfinal = 0 /\ lag = 0 /\ up = <<>> /\ down = <<>> /\ brk = NoBrk /\ ended = FALSE
        /\ lim \in LimChoices
        /\ mon = MonInit /\ obs = <<>>

\* stream_large_bodies is an option of the whole connection: with it every message above the limit is streamed, and hooks
\* that run after the head was streamed (request / response hook, stream edit) cannot edit what is on the wire any more
EditOK(ed) == (ed[1] = "limit" => lim) /\ (lim => ed[2] = "none" /\ ed[1] \in {"none", "limit", "hdr"})

Live == mon.bad = <<>> /\ ~ended
Emit(evs) == obs' = evs /\ mon' = FoldEvents(MonStep, mon, evs)

---------------------------------------------------------------------------
\* the code's view of the header classes
NameReadFails(nm) == nm \in {"empty", "nocolon", "lead_fold"}            \* read.py _read_headers raises
NameInvalid(nm) == nm \in {"sp_colon", "ctl", "nonascii", "sp_colon_cl", "sp_colon_te"}   \* validate._valid_header_name
TEPresent(te) == te # "none"
TETruthy(te) == te \notin {"none", "empty"}                               \* headers.get(..) is a non-empty string
TEParse(te) == CASE te \in {"chunked", "gzip_chunked", "two_fields"} -> "chunked"   \* two fields are joined by get()
                 [] te = "gzip" -> "coding" [] te = "identity" -> "identity" [] OTHER -> "error"
TECount(te) == IF te = "none" THEN 0 ELSE IF te = "two_fields" THEN 2 ELSE 1
CLPresent(cl) == cl # "none"
CLTruthy(cl) == cl \notin {"none", "empty"}
CLParse(cl) == IF cl \in {"n", "ws"} THEN "n" ELSE IF cl = "zero" THEN "zero" ELSE "error"
CLCount(cl) == IF cl = "none" THEN 0 ELSE IF cl \in {"two_same", "two_diff"} THEN 2 ELSE 1
BadShape(b) == b \in {"badhex", "lf", "ext_bws"}     \* h11 ChunkedReader raises (ext_bws: BWS before ";" is legal, h11 refuses it)
RefBadShape(b) == b \in {"badhex", "lf"}
BodilessSt(st) == (st >= 100 /\ st <= 199) \/ st = 204 \/ st = 304

ViaCL(c, dflt) == IF CLTruthy(c.cl) THEN CLParse(c.cl) ELSE dflt
ReqSize(rc) ==          \* "zero" | "n" | "chunked" | "eof" | "error"
  IF TETruthy(rc.te)
    THEN CASE TEParse(rc.te) = "error" -> "error"
           [] TEParse(rc.te) = "chunked" -> "chunked"
           [] OTHER -> IF TEParse(rc.te) = "identity" \/ CLPresent(rc.cl) THEN ViaCL(rc, "zero") ELSE "eof"
    ELSE ViaCL(rc, "zero")
RespSize(sc, meth) ==
  IF meth = "HEAD" \/ BodilessSt(sc.st) THEN "zero"
  ELSE IF TETruthy(sc.te)
    THEN CASE TEParse(sc.te) = "error" -> "error" [] TEParse(sc.te) = "chunked" -> "chunked" [] OTHER -> "eof"
    ELSE ViaCL(sc, "eof")
Invalid(c, isResp, st) ==
  \/ NameInvalid(c.nm)
  \/ TEPresent(c.te) /\ CLPresent(c.cl)
  \/ TEPresent(c.te) /\ ( \/ TECount(c.te) > 1 \/ c.v # "1.1"
                          \/ (isResp /\ ((st >= 100 /\ st <= 199) \/ st = 204))
                          \/ TEParse(c.te) = "error"
                          \/ (~isResp /\ TEParse(c.te) \in {"coding", "identity"}) )
  \/ ~TEPresent(c.te) /\ CLPresent(c.cl) /\ (CLCount(c.cl) > 1 \/ CLParse(c.cl) = "error")

ProxyReq(rc) ==
  IF NameReadFails(rc.nm) THEN "nohead400"
  ELSE IF ReqSize(rc) = "error" THEN "head400"
  ELSE IF Invalid(rc, FALSE, 0) THEN "invalid"
  ELSE IF ReqSize(rc) = "chunked" /\ BadShape(rc.body) THEN "chunk_err"
  ELSE "accept"
ProxyResp(sc, meth) ==
  IF NameReadFails(sc.nm) \/ RespSize(sc, meth) = "error" THEN "parse_err"
  ELSE IF Invalid(sc, TRUE, sc.st) THEN "invalid"
  ELSE IF RespSize(sc, meth) = "chunked" /\ BadShape(sc.body) THEN "chunk_err"
  ELSE IF RespSize(sc, meth) = "eof" /\ ~sc.close THEN "pending"
  ELSE "accept"

---------------------------------------------------------------------------
\* the reference recipient's view (RFC 9112 section 6.3; lib/vf/h1ref.py)
RefHead(c) == CASE c.nm \in {"empty", "sp_colon", "ctl", "nonascii", "sp_colon_cl", "sp_colon_te"} -> "bad_field_name"
                [] c.nm \in {"nocolon", "lead_fold"} -> "bad_field_line" [] OTHER -> ""
RefTE(te) == CASE te \in {"chunked", "gzip_chunked", "two_fields", "unknown_chunked"} -> "chunked"
               [] te \in {"gzip", "identity"} -> "notfinal" [] OTHER -> "malformed"
RefCL(cl) == CASE cl \in {"n", "ws", "padded", "list_same", "two_same"} -> "n" [] cl = "zero" -> "zero"
               [] cl = "two_diff" -> "differ" [] OTHER -> "invalid"
Amb(why) == [v |-> "amb", why |-> why]
Ok == [v |-> "ok", why |-> "-"]
Partial == [v |-> "partial", why |-> "-"]
Ref(c, isResp, bodiless) ==
  IF RefHead(c) # "" THEN Amb(RefHead(c))
  ELSE IF bodiless THEN Ok
  ELSE IF TEPresent(c.te) THEN
         IF c.v = "1.0" THEN Amb("te_http10")
         ELSE IF CLPresent(c.cl) THEN Amb("cl_te")
         ELSE IF RefTE(c.te) = "malformed" THEN Amb("te_malformed")
         ELSE IF RefTE(c.te) = "chunked" THEN (IF RefBadShape(c.body) THEN Amb("bad_chunk") ELSE Ok)
         ELSE IF isResp THEN (IF c.close THEN Ok ELSE Partial) ELSE Amb("te_not_chunked_final")
  ELSE IF CLPresent(c.cl) THEN
         (CASE RefCL(c.cl) = "invalid" -> Amb("cl_invalid") [] RefCL(c.cl) = "differ" -> Amb("cl_differ") [] OTHER -> Ok)
  ELSE IF isResp THEN (IF c.close THEN Ok ELSE Partial) ELSE Ok
InEv(side, r) == IF r.v = "partial" THEN <<>> ELSE <<[k |-> "in", side |-> side, ref |-> r.v, why |-> r.why]>>

---------------------------------------------------------------------------
W0(first, cm) == [cconn |-> cconn, h1s |-> h1s, pend |-> pend, cur |-> cur, sconn |-> sconn, nflow |-> nflow,
                  nT |-> nT, nF |-> nF, nB |-> nB, nfinal |-> nfinal, lag |-> lag, up |-> up, down |-> down, brk |-> brk,
                  cms |-> cm, out |-> first]
Commit(w) == /\ cconn' = w.cconn /\ h1s' = w.h1s /\ pend' = w.pend /\ cur' = w.cur /\ sconn' = w.sconn
             /\ nflow' = w.nflow /\ nT' = w.nT /\ nF' = w.nF /\ nB' = w.nB /\ nfinal' = w.nfinal /\ lag' = w.lag
             /\ up' = w.up /\ down' = w.down /\ brk' = w.brk /\ cms' = w.cms /\ Emit(w.out)

\* the method the client-side reference parser reads the next final response in the context of
ClientCtx(w) == IF w.nfinal + 1 <= Len(w.cms) THEN w.cms[w.nfinal + 1] ELSE "GET"
Page(w, st) == [kind |-> "page", status |-> st, fields |-> 0, body |-> 0, method |-> ClientCtx(w),
                framing |-> IF ClientCtx(w) = "HEAD" THEN "none" ELSE "cl"]
\* deviation: the error page has a body even when the client asked with HEAD (the connection is closed afterwards)
AddPage(w, st) == [w EXCEPT !.down = Append(@, Page(w, st)), !.nfinal = @ + 1,
                            !.brk = IF ClientCtx(w) = "HEAD" /\ ~@.on THEN [on |-> TRUE, at |-> Len(w.down) + 1, kind |-> "page"] ELSE @]
Cont100(w) == [kind |-> "cont", status |-> 100, fields |-> 0, body |-> 0, framing |-> "none", method |-> ClientCtx(w)]
Hook(name, f) == [k |-> "hook", name |-> name, f |-> f]

\* Http1Server.read_headers .. HttpStream request half .. Http1Client.send, for one complete request of class p[1]
ProcReq(w, p, tag) ==
  LET rc == p[1]
      ed == p[2]
      f == w.nflow + 1
      pr == ProxyReq(rc)
      hRH == [k |-> "hook", name |-> "requestheaders", f |-> f, expect |-> rc.exp]
      closed == [w EXCEPT !.cconn = "closed", !.h1s = "done", !.pend = <<>>]
  IN
  CASE pr = "nohead400" ->            \* make_error_response(400) + CloseConnection, no flow
         AddPage(closed, 400)
    [] pr \in {"head400", "invalid"} ->   \* flow is registered (requestheaders), then error; 400 page; close
         AddPage([closed EXCEPT !.nflow = f, !.out = @ \o <<hRH, Hook("error", f)>>], 400)
    [] pr = "chunk_err" ->            \* h11 rejects the chunk: CloseConnection, RequestProtocolError seen by check_killed
         [closed EXCEPT !.nflow = f, !.out = @ \o <<hRH, Hook("error", f)>>]
    [] pr = "accept" ->
         LET meth == IF ed[2] = "line" /\ rc.m = "POST" THEN "PUT" ELSE rc.m
             size == ReqSize(rc)
             origEmpty == size = "zero" \/ (size = "chunked" /\ rc.body = "zero")
             empty == CASE ed[2] = "body" -> FALSE [] ed[2] = "empty" -> TRUE [] OTHER -> origEmpty
             bid == IF empty THEN 0 ELSE w.nB + 1
             rec == [method |-> meth, target |-> w.nT + 1, fields |-> w.nF + 1, body |-> bid]
             fr == IF size = "chunked" THEN "chunked"
                   ELSE IF CLPresent(rc.cl) \/ ed[2] \in {"body", "empty"} THEN "cl" ELSE "none"
             c == IF w.sconn.open THEN w.sconn.n ELSE w.sconn.n + 1
         IN [w EXCEPT !.nflow = f, !.nT = @ + 1, !.nF = @ + 1, !.nB = IF empty THEN @ ELSE @ + 1,
                      !.h1s = "wait", !.sconn = [n |-> c, open |-> TRUE],
                      !.cur = [on |-> TRUE, f |-> f, tag |-> tag, m |-> meth, v10 |-> rc.v = "1.0", exp |-> rc.exp,
                              answered |-> FALSE, canon |-> p \in CanonReq],
                      !.up = Append(@, [c |-> c, method |-> meth, target |-> rec.target, fields |-> rec.fields,
                                        body |-> bid, framing |-> fr]),
                      !.down = IF rc.exp THEN Append(@, Cont100(w)) ELSE @,
                      !.out = @ \o <<hRH, [k |-> "hook", name |-> "request", f |-> f, method |-> meth,
                                           target |-> rec.target, fields |-> rec.fields, body |-> bid]>>]

\* one recorded response goes to the client: what a recipient reads from the bytes Http1Server.send writes.
\* proxyBodiless: the proxy (and the origin server) treated it as a message without body (recorded method HEAD, status)
Relay(w, st, fid, bid, fr, lastChunk, proxyBodiless, closes) ==
  LET cmeth == ClientCtx(w)
      bodilessC == cmeth = "HEAD" \/ BodilessSt(st)
      interim == st >= 100 /\ st <= 199
      \* deviations: bytes follow a message that cannot have a body -- a body put there by the addon (ResponseData is
      \* written whatever the method / status), or the last-chunk that Http1Server.send adds for every chunked
      \* response unless the request method is HEAD
      dev == IF bodilessC /\ bid # 0 THEN (IF fr = "chunked" THEN "body_chunked" ELSE "body")
             ELSE IF bodilessC /\ lastChunk THEN "chunk" ELSE ""
      \* after a relayed 1xx the client reads the next response in the context of the previous request: a response
      \* the proxy sent without body (HEAD) may then be one the client expects a body for
      starved == ~bodilessC /\ proxyBodiless /\ bid = 0 /\ (fr = "chunked" \/ fr = "cl" \/ (fr = "eof" /\ ~closes))
      item == [kind |-> "relay", status |-> st, fields |-> fid, body |-> IF bodilessC THEN 0 ELSE bid,
               framing |-> IF bodilessC THEN "none" ELSE fr, method |-> cmeth]
  IN IF starved /\ ~w.brk.on
       THEN [w EXCEPT !.brk = [on |-> TRUE, at |-> Len(w.down), kind |-> "starved"], !.lag = IF interim THEN @ + 1 ELSE @]
       ELSE [w EXCEPT !.down = Append(@, item), !.nfinal = IF interim THEN @ ELSE @ + 1, !.lag = IF interim THEN @ + 1 ELSE @,
                      !.brk = IF dev # "" /\ ~@.on THEN [on |-> TRUE, at |-> Len(w.down) + 1, kind |-> dev] ELSE @]

\* the origin server closes a connection the proxy still has open: with a request outstanding on it (a pipelined request
\* was forwarded meanwhile) Http1Client.read_headers reports "server closed connection" -> error hook, 502, close
ServerClosed(w) ==
  IF ~w.sconn.open THEN w
  ELSE IF ~w.cur.on THEN [w EXCEPT !.sconn.open = FALSE]
  ELSE LET w1 == [w EXCEPT !.sconn.open = FALSE, !.cconn = "closed", !.h1s = "done", !.pend = <<>>, !.cur = NoCur,
                           !.out = @ \o <<Hook("error", w.cur.f)>>]
       IN IF w.cur.exp THEN w1 ELSE AddPage(w1, 502)

\* Http1Client.read_headers .. HttpStream response half .. Http1Server.send .. mark_done on both sides
ProcResp(w, p) ==
  LET sc0 == p[1]
      ed == p[2]
      f == w.cur.f
      meth == w.cur.m
      \* a 103 head in front is what the code takes for the response of the flow; the rest is "unexpected data"
      sc == IF sc0.pre103 THEN [sc0 EXCEPT !.st = 103, !.te = "none", !.cl = "none", !.nm = "ok", !.close = FALSE] ELSE sc0
      pr == ProxyResp(sc, meth)
      \* Http1Server.send(ResponseProtocolError): the 502 page only if no response head was sent for this request yet --
      \* the proxy's own 100 Continue counts (Http1Server.response is set by it)
      failed0 == [w EXCEPT !.cconn = "closed", !.h1s = "done", !.pend = <<>>, !.cur = NoCur,
                           !.sconn = [n |-> w.sconn.n, open |-> FALSE]]
      failed == IF w.cur.exp THEN failed0 ELSE AddPage(failed0, 502)
  IN
  CASE pr \in {"parse_err", "invalid"} -> [failed EXCEPT !.out = @ \o <<Hook("error", f)>>]
    [] pr = "chunk_err" -> [failed EXCEPT !.out = @ \o <<Hook("responseheaders", f), Hook("error", f)>>]
    [] pr = "pending" -> [w EXCEPT !.cur.answered = TRUE, !.out = @ \o <<Hook("responseheaders", f)>>]
    [] pr = "accept" ->
         LET size == RespSize(sc, meth)
             st == IF ed[2] = "status" /\ sc.st = 200 THEN 203 ELSE sc.st
             origEmpty == size = "zero" \/ (size = "chunked" /\ sc.body = "zero")
             empty == CASE ed[2] = "body" -> FALSE [] ed[2] = "empty" -> TRUE [] OTHER -> origEmpty
             bid == IF empty THEN 0 ELSE w.nB + 1
             fid == w.nF + 1
             fr == IF TEPresent(sc.te) /\ TEParse(sc.te) = "chunked" THEN "chunked"
                   ELSE IF TEPresent(sc.te) THEN "eof"
                   ELSE IF CLPresent(sc.cl) \/ ed[2] \in {"body", "empty"} THEN "cl" ELSE "eof"
             \* mark_done: Http1Client decides before the response hook, Http1Server after it (sees the edit)
             eofS == size = "eof"
             eofC == fr = "eof" /\ ~(meth = "HEAD" \/ BodilessSt(st))
             closeS == eofS \/ w.cur.v10 \/ sc.v = "1.0" \/ sc0.pre103
             closeC == eofC \/ w.cur.v10 \/ sc.v = "1.0"
             w1 == Relay([w EXCEPT !.nF = fid, !.nB = IF empty THEN @ ELSE @ + 1, !.cur = NoCur,
                                   !.sconn = [n |-> w.sconn.n, open |-> ~closeS],
                                   !.out = @ \o <<Hook("responseheaders", f),
                                                  [k |-> "hook", name |-> "response", f |-> f, status |-> st,
                                                   fields |-> fid, body |-> bid, method |-> meth]>>],
                         st, fid, bid, fr,
                         meth # "HEAD" /\ (DevLastChunkAfterBodilessStatus \/ ~BodilessSt(st))
                           /\ TEPresent(sc.te) /\ TEParse(sc.te) = "chunked",
                         meth = "HEAD" \/ BodilessSt(sc.st), closeC)
             w2 == IF closeC THEN [w1 EXCEPT !.cconn = "closed", !.h1s = "done", !.pend = <<>>]
                   ELSE IF w1.pend # <<>>
                     THEN ProcReq([w1 EXCEPT !.h1s = "read_headers", !.pend = <<>>], w1.pend[1][1], w1.pend[1][2])
                   ELSE [w1 EXCEPT !.h1s = "read_headers"]
         IN IF sc.close THEN ServerClosed(w2) ELSE w2

---------------------------------------------------------------------------
\* the client sends one complete request (one DataReceived)
ClientSend(p) ==
  /\ Live /\ cconn = "open" /\ nsent < MaxEx /\ pend = <<>> /\ (cur.on => Pipeline /\ ~cur.answered /\ lag = 0)
  /\ mon.ambReq = "" /\ ~brk.on /\ EditOK(p[2])
  /\ nsent' = nsent + 1
  /\ LET r == Ref(p[1], FALSE, FALSE)
         first == InEv("req", r)
         cm == IF r.v = "ok" THEN Append(cms, p[1].m) ELSE cms
     IN IF h1s = "wait"       \* Http1Connection.wait: the bytes stay in buf until mark_done
          THEN Commit([W0(first, cm) EXCEPT !.pend = << <<p, nsent + 1>> >>])
          ELSE Commit(ProcReq(W0(first, cm), p, nsent + 1))
  /\ UNCHANGED <<ended, lim>>

\* the origin server answers the forwarded request (one DataReceived, then ConnectionClosed if the class says so)
ServerSend(p) ==
  /\ Live /\ cur.on /\ ~cur.answered
  /\ (cur.canon \/ p \in CanonResp) /\ EditOK(p[2])
  /\ LET bodiless == cur.m = "HEAD" \/ BodilessSt(IF p[1].pre103 THEN 103 ELSE p[1].st)
         r1 == IF p[1].pre103 THEN <<[k |-> "in", side |-> "resp", ref |-> "ok", why |-> "-"]>> ELSE <<>>
         r2 == InEv("resp", Ref(p[1], TRUE, cur.m = "HEAD" \/ BodilessSt(p[1].st)))
     IN Commit(ProcResp(W0(r1 \o r2, cms), p))
  /\ UNCHANGED <<nsent, ended, lim>>

\* end of the scenario: both peers' byte streams as the reference parser reads them
RECURSIVE DownEvs(_, _, _, _)
DownEvs(items, i, nf, nb) ==
  IF i > Len(items) \/ (brk.on /\ i > brk.at) THEN <<>>
  ELSE LET it == items[i]
           page == it.kind = "page"
           ev == [k |-> "out", side |-> "resp", c |-> 0, status |-> it.status,
                  fields |-> IF page THEN nf + 1 ELSE it.fields,
                  body |-> IF page THEN (IF it.framing = "none" THEN 0 ELSE nb + 1) ELSE it.body,
                  framing |-> it.framing,
                  method |-> it.method]
       IN <<ev>> \o DownEvs(items, i + 1, IF page THEN nf + 1 ELSE nf, IF page THEN nb + 1 ELSE nb)
UpEvs(c) == LET idx == SelectSeq([i \in 1..Len(up) |-> i], LAMBDA i : up[i].c = c)
            IN [j \in 1..Len(idx) |-> [k |-> "out", side |-> "req", c |-> c, method |-> up[idx[j]].method,
                                        target |-> up[idx[j]].target, fields |-> up[idx[j]].fields,
                                        body |-> up[idx[j]].body, framing |-> up[idx[j]].framing]]
           \o <<[k |-> "out_end", side |-> "req", c |-> c, tail |-> "clean", why |-> "-"]>>
RECURSIVE AllUp(_)
AllUp(c) == IF c > sconn.n THEN <<>> ELSE UpEvs(c) \o AllUp(c + 1)
\* how the reference parser ends on the client-side bytes after a deviation
BrkTail == CASE ~brk.on -> <<"clean", "-">>
             [] brk.kind = "starved" -> <<"partial", "-">>                    \* the client still waits for a body
             [] brk.kind = "body_chunked" -> <<"invalid", "bad_start_line">>  \* a chunk-size line where a status line is due
             [] brk.kind = "page" -> <<"invalid", "bare_lf">>                 \* the HTML of the error page
             [] brk.kind = "chunk" -> <<"invalid", "bad_start_line">>         \* 0 CRLF CRLF where a status line is due
             [] brk.at < Len(down) -> <<"invalid", "bad_start_line">>         \* body bytes glued to the next head
             [] OTHER -> <<"partial", "-">>                                   \* body bytes without a line end
Finish ==
  /\ Live /\ ended' = TRUE
  /\ UNCHANGED <<nsent, cconn, h1s, pend, cur, sconn, nflow, nT, nF, nB, cms, nfinal, lag, up, down, brk, lim>>
  /\ Emit(AllUp(1) \o DownEvs(down, 1, nF, nB)
          \o <<[k |-> "out_end", side |-> "resp", c |-> 0,
                tail |-> BrkTail[1], why |-> BrkTail[2]],
               [k |-> "end"]>>)

Next == \/ \E p \in ReqPlans : ClientSend(p)
        \/ \E p \in RespPlans : ServerSend(p)
        \/ Finish
Spec == Init /\ [][Next]_vars
Report == mon.bad # <<>> => PrintT(<<"BAD", mon.bad>>)
=============================================================================
