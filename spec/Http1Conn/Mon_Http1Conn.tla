--------------------------- MODULE Mon_Http1Conn ---------------------------
(* Monitor for C01: HTTP/1 forwarding is framing-consistent (no request or response desync).

   One client connection through the real stack HttpLayer(regular) / Http1Server / HttpStream / Http1Client.
   Event records (props/C01.py; ids are small integers interned in first-seen order, 0 = empty):
     [k |-> "in", side |-> "req"|"resp", ref |-> "ok"|"amb", why]
          the independent RFC 9112 parser (lib/vf/h1ref.py) read one more message from the bytes the client (req) /
          the origin server (resp) SENT: a strict recipient accepts it ("ok") or must treat it as a framing / syntax
          error ("amb", why = reason class).  Nothing is reported after the first "amb" of a byte stream.
     [k |-> "hook", name |-> "requestheaders", f, expect]      expect: the request carried Expect: 100-continue
     [k |-> "hook", name |-> "request", f, method, target, fields, body]       the request recorded in flow f
     [k |-> "hook", name |-> "response", f, status, fields, body, method]      the response recorded in flow f
     [k |-> "hook", name |-> "responseheaders"|"error", f]
     [k |-> "out", side |-> "req", c, method, target, fields, body, framing]   one message the reference parser reads
     [k |-> "out", side |-> "resp", c, status, fields, body, framing, method]  from the bytes WRITTEN to upstream
          connection c / to the client (method: the client's request it is read in the context of)
     [k |-> "out_end", side, c, tail |-> "clean"|"partial"|"invalid"|"tunnel", why]   what follows the last message
     [k |-> "raised", exc]   [k |-> "end"]
   Clauses (C01 statement):
     same number, order, method, target, fields, body upstream as recorded  -> upstream_* , recorded_request_not_upstream
     ambiguous framing is rejected instead of forwarded                     -> ambiguous_request_forwarded / _response_relayed
     same for responses towards the client, in the context of the request   -> client_* , recorded_response_not_relayed
   Messages the proxy sends on its own are tolerated on the client side only: one field-less 100 (Continue) per
   request that carried Expect: 100-continue, and one final error response (status >= 400) after the last recorded
   response.                                                                                           *)
EXTENDS Verif

MonInit == [bad |-> <<>>, wit |-> {},
            okReq |-> 0, ambReq |-> "", okResp |-> 0, ambResp |-> "",
            recReq |-> <<>>, recResp |-> <<>>,
            nUp |-> 0, nDown |-> 0, credit |-> 0, errPage |-> FALSE,
            last |-> "none",          \* kind of the last message read from the client-side bytes
            interim |-> FALSE]        \* a recorded 1xx response has been relayed

Bodiless(method, status) == method = "HEAD" \/ (status >= 100 /\ status <= 199) \/ status = 204 \/ status = 304
Ctx(ev) == IF Bodiless(ev.method, ev.status) THEN "bodiless" ELSE "body_allowed"
Kind(ev) == IF ev.method = "HEAD" THEN "head" ELSE IF ev.status <= 199 THEN "1xx" ELSE IF ev.status = 204 THEN "204"
            ELSE IF ev.status = 304 THEN "304" ELSE "other"
\* is the message read in the context of the request it was recorded for?
Shift(r, ev) == IF r.method = ev.method THEN "own_request" ELSE "other_request"

OutReq(m, ev) ==
  LET p == m.nUp + 1 IN
  IF m.ambReq # "" /\ p > m.okReq THEN <<"C01.ambiguous_request_forwarded", m.ambReq>>
  ELSE IF p > Len(m.recReq) THEN <<"C01.upstream_message_not_recorded">>
  ELSE LET r == m.recReq[p] IN
       IF r.method # ev.method THEN <<"C01.upstream_differs_from_recorded", "method">>
       ELSE IF r.target # ev.target THEN <<"C01.upstream_differs_from_recorded", "target">>
       ELSE IF r.fields # ev.fields THEN <<"C01.upstream_differs_from_recorded", "fields">>
       ELSE IF r.body # ev.body THEN <<"C01.upstream_differs_from_recorded", "body">>
       ELSE <<>>

\* [v |-> "match" | "continue" | "errpage" | "bad", bad |-> tuple]
R(v) == [v |-> v, bad |-> <<>>]
B(t) == [v |-> "bad", bad |-> t]
OutResp(m, ev) ==
  LET p == m.nDown + 1
      has == p <= Len(m.recResp)
      same == has /\ m.recResp[p].status = ev.status /\ m.recResp[p].fields = ev.fields /\ m.recResp[p].body = ev.body
  IN
  IF same THEN (IF m.ambResp # "" /\ p > m.okResp THEN B(<<"C01.ambiguous_response_relayed", m.ambResp>>) ELSE R("match"))
  ELSE IF ev.status = 100 /\ ev.fields = 0 /\ ev.body = 0 /\ m.credit > 0 THEN R("continue")
  ELSE IF ~has /\ ev.status >= 400 /\ ~m.errPage THEN R("errpage")
  ELSE IF ~has THEN B(<<"C01.client_message_not_recorded">>)
  ELSE IF m.recResp[p].status # ev.status THEN B(<<"C01.client_differs_from_recorded", "status", Ctx(ev), Shift(m.recResp[p], ev)>>)
  ELSE IF m.recResp[p].fields # ev.fields THEN B(<<"C01.client_differs_from_recorded", "fields", Ctx(ev), Shift(m.recResp[p], ev)>>)
  ELSE B(<<"C01.client_differs_from_recorded", "body", Ctx(ev), Shift(m.recResp[p], ev)>>)

OutEnd(m, ev) ==
  IF ev.tail # "invalid" THEN <<>>
  ELSE IF ev.side = "req" THEN
       (IF m.ambReq # "" /\ m.nUp >= m.okReq THEN <<"C01.ambiguous_request_forwarded", m.ambReq>>
        ELSE <<"C01.upstream_unparsable", ev.why>>)
  ELSE IF m.errPage THEN <<>>     \* what follows the proxy's own final error response is not a relayed message
  ELSE IF m.ambResp # "" /\ m.nDown >= m.okResp /\ ev.why = m.ambResp THEN <<"C01.ambiguous_response_relayed", m.ambResp>>
  ELSE <<"C01.client_unparsable", ev.why, m.last>>

AtEnd(m) ==
  IF m.nUp < Len(m.recReq) THEN <<"C01.recorded_request_not_upstream">>
  ELSE IF m.nDown < Len(m.recResp)
    THEN <<"C01.recorded_response_not_relayed", IF m.interim THEN "after_relayed_1xx" ELSE "-">>
  ELSE <<>>

MonStep(m, ev) ==
  IF m.bad # <<>> THEN m
  ELSE CASE ev.k = "in" /\ ev.side = "req" ->
         IF ev.ref = "ok" THEN [m EXCEPT !.okReq = @ + 1]
         ELSE [m EXCEPT !.ambReq = ev.why, !.wit = @ \cup {"amb_req", "amb_req_" \o ev.why}]
    [] ev.k = "in" /\ ev.side = "resp" ->
         IF ev.ref = "ok" THEN [m EXCEPT !.okResp = @ + 1]
         ELSE [m EXCEPT !.ambResp = ev.why, !.wit = @ \cup {"amb_resp", "amb_resp_" \o ev.why}]
    [] ev.k = "hook" /\ ev.name = "requestheaders" ->
         [m EXCEPT !.credit = IF ev.expect THEN @ + 1 ELSE @, !.wit = IF ev.expect THEN @ \cup {"expect"} ELSE @]
    [] ev.k = "hook" /\ ev.name = "request" ->
         [m EXCEPT !.recReq = Append(@, [method |-> ev.method, target |-> ev.target, fields |-> ev.fields, body |-> ev.body])]
    [] ev.k = "hook" /\ ev.name = "response" ->
         [m EXCEPT !.recResp = Append(@, [status |-> ev.status, fields |-> ev.fields, body |-> ev.body, method |-> ev.method])]
    [] ev.k = "hook" /\ ev.name = "error" -> [m EXCEPT !.wit = @ \cup {"error_hook"}]
    [] ev.k = "out" /\ ev.side = "req" ->
         LET b == OutReq(m, ev) IN
         IF b # <<>> THEN [m EXCEPT !.bad = b]
         ELSE [m EXCEPT !.nUp = @ + 1,
                        !.wit = @ \cup {"req_matched", "req_" \o ev.framing}
                                  \cup (IF m.nUp >= 1 THEN {"second_request_matched"} ELSE {})
                                  \cup (IF ev.body # 0 THEN {"req_body"} ELSE {})]
    [] ev.k = "out" /\ ev.side = "resp" ->
         LET b == OutResp(m, ev) IN
         IF b.v = "bad" THEN [m EXCEPT !.bad = b.bad]
         ELSE IF b.v = "match" THEN
              [m EXCEPT !.nDown = @ + 1, !.last = Kind(ev), !.interim = @ \/ ev.status <= 199,
                        !.wit = @ \cup {"resp_matched", "resp_" \o ev.framing}
                                  \cup (IF m.nDown >= 1 THEN {"second_response_matched"} ELSE {})
                                  \cup (IF ev.method = "HEAD" THEN {"resp_to_head"} ELSE {})
                                  \cup (IF ev.status = 204 \/ ev.status = 304 THEN {"resp_204_304"} ELSE {})
                                  \cup (IF ev.status < 200 THEN {"resp_1xx"} ELSE {})]
         ELSE IF b.v = "continue" THEN [m EXCEPT !.credit = @ - 1, !.last = "1xx", !.wit = @ \cup {"own_100_continue"}]
         ELSE [m EXCEPT !.errPage = TRUE, !.last = Kind(ev), !.wit = @ \cup {"own_error_page"}]
    [] ev.k = "out_end" -> [m EXCEPT !.bad = OutEnd(m, ev)]
    [] ev.k = "end" ->
         [m EXCEPT !.bad = AtEnd(m),
                   !.wit = @ \cup (IF m.ambReq # "" /\ m.nUp <= m.okReq THEN {"amb_req_rejected"} ELSE {})
                             \cup (IF m.ambResp # "" /\ m.nDown <= m.okResp THEN {"amb_resp_rejected"} ELSE {})]
    [] OTHER -> m
Wit(m) == m.wit
=============================================================================
