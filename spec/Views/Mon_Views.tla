------------------------------ MODULE Mon_Views ------------------------------
(* Monitor for C34: query, cookie, form and path views are lossless.

   Strings never reach TLC: keys and values are small integers (ids of a fixed concretisation table, or fresh ids
   >= 1000 for strings the table does not know).  A pair is <<key id, value id>>; a path component is <<0, id>>.
   Event records (props/C34.py, real mitmproxy.http.Request / Response):
     [k |-> "assign",    view, rep |-> BOOLEAN,          \* rep: every pair is representable in the view's wire format
                         pairs |-> <<pairs>>, cls |-> <<<<key class, value class>>>>,   \* abstract classes (signature only)
                         exc |-> "" | class name, read |-> <<pairs>>,                   \* the view read back after the assignment
                         over |-> "" | class of the existing message the assignment was made over (witness only)]
     [k |-> "mutate",    view, op |-> "add" | "del" | "setitem", rep, key, val, exc, read]   \* through the MultiDictView
     [k |-> "writeback", view, origin |-> "assigned" | "wire", wcls |-> class of the message (signature only), rep,
                         exc, before, after |-> [other |-> id, meaning |-> <<<<ids>>>>],
                         rb, ra |-> <<pairs>>]           \* view reads before / after
       before/after are projections of the message by INDEPENDENT reference decoders (lib/vf/viewsref.py): `other` is
       the part of the message the view does not own (ids local to the event), `meaning` the decoded content; the path
       view also reports `core`, the decoded NON-EMPTY segments (same ids), so that losing a real segment
       (C34.writeback_content) is told apart from losing only empty ones (C34.writeback_meaning, finding F4).

   Clauses (only what the statement says; judged only for representable pair lists):
     C34.assign_raised / C34.assign_read   assignment fails / the view does not read back the same pairs in order
     C34.mutate                            a change made through the view is not what the view then reads
     C34.writeback_raised / _other / _content / _meaning / _read   writing the current value back changes the message *)
EXTENDS Verif

MonInit == [bad |-> <<>>, wit |-> {}, cur |-> <<>>]       \* cur: <<view, pairs>> entries, latest last

Known(m, v) == \E i \in 1..Len(m.cur) : m.cur[i][1] = v
Cur(m, v) == LET S == { i \in 1..Len(m.cur) : m.cur[i][1] = v } IN m.cur[CHOOSE i \in S : \A j \in S : j <= i][2]
SetCur(m, v, ps) == SelectSeq(m.cur, LAMBDA e : e[1] # v) \o <<<<v, ps>>>>

FirstDiff(a, b) == LET n == Min2(Len(a), Len(b))
                       D == { i \in 1..n : a[i] # b[i] }
                   IN IF D = {} THEN n + 1 ELSE CHOOSE i \in D : \A j \in D : i <= j
ClsAt(cls, i) == IF cls = <<>> THEN <<"none", "none">> ELSE cls[Min2(i, Len(cls))]
\* first pair whose classes are not both "plain" (attribution of a failure of the whole list)
FirstOdd(cls) == LET S == { i \in 1..Len(cls) : cls[i] # <<"plain", "plain">> }
                 IN IF S = {} THEN ClsAt(cls, 1) ELSE cls[CHOOSE i \in S : \A j \in S : i <= j]

Sel(ps, key) == SelectSeq(ps, LAMBDA p : p[1] = key)
Unt(ps, key) == SelectSeq(ps, LAMBDA p : p[1] # key)

AssignStep(m, ev) ==
  LET bad == IF ~ev.rep THEN <<>>
             ELSE IF ev.exc # "" THEN <<"C34.assign_raised", ev.view>> \o FirstOdd(ev.cls)
             ELSE IF ev.read # ev.pairs THEN <<"C34.assign_read", ev.view>> \o ClsAt(ev.cls, FirstDiff(ev.pairs, ev.read))
             ELSE <<>>
      w == {"assign_" \o ev.view} \cup (IF ev.rep THEN {"rep"} ELSE {"unrep"})
           \cup (IF ev.rep THEN { "v_" \o ev.cls[i][2] : i \in 1..Len(ev.cls) } \cup { "k_" \o ev.cls[i][1] : i \in 1..Len(ev.cls) }
                 ELSE {})
           \cup (IF ev.rep /\ ev.pairs = <<>> THEN {"assign_empty"} ELSE {})
           \cup (IF ev.rep /\ \E i, j \in 1..Len(ev.pairs) : i < j /\ ev.pairs[i][1] = ev.pairs[j][1] /\ ev.pairs[i][1] # 0
                 THEN {"dup_key"} ELSE {})
           \cup (IF ev.rep /\ Known(m, ev.view) THEN {"reassign"} ELSE {})
           \cup (IF ev.rep /\ Get(ev, "over", "") # "" THEN {"assign_over_existing", "over_" \o ev.over} ELSE {})
  IN [m EXCEPT !.bad = bad, !.cur = SetCur(m, ev.view, ev.read), !.wit = @ \cup w]

MutateStep(m, ev) ==
  LET c == Cur(m, ev.view)
      judged == ev.rep /\ Known(m, ev.view)
      wrong == CASE ev.op = "add" -> ev.exc # "" \/ ev.read # c \o <<<<ev.key, ev.val>>>>
                 [] ev.op = "del" -> IF Sel(c, ev.key) = <<>> THEN ev.exc # "KeyError" \/ ev.read # c
                                     ELSE ev.exc # "" \/ ev.read # Unt(c, ev.key)
                 [] ev.op = "setitem" -> \/ ev.exc # "" \/ Unt(ev.read, ev.key) # Unt(c, ev.key)
                                         \/ Sel(ev.read, ev.key) # <<<<ev.key, ev.val>>>>
                 [] OTHER -> TRUE
  IN [m EXCEPT !.bad = IF judged /\ wrong THEN <<"C34.mutate", ev.view, ev.op>> ELSE <<>>,
               !.cur = SetCur(m, ev.view, ev.read),
               !.wit = @ \cup (IF judged THEN {"mutate_" \o ev.op, "mutate_" \o ev.view} ELSE {})]

WritebackStep(m, ev) ==
  LET sig == <<ev.view, ev.origin, ev.wcls>>
      bad == IF ~ev.rep THEN <<>>
             ELSE IF ev.exc # "" THEN <<"C34.writeback_raised">> \o sig
             ELSE IF ev.after.other # ev.before.other THEN <<"C34.writeback_other">> \o sig
             ELSE IF Get(ev.after, "core", <<>>) # Get(ev.before, "core", <<>>) THEN <<"C34.writeback_content">> \o sig
             ELSE IF ev.after.meaning # ev.before.meaning THEN <<"C34.writeback_meaning">> \o sig
             ELSE IF ev.ra # ev.rb THEN <<"C34.writeback_read">> \o sig
             ELSE <<>>
  IN [m EXCEPT !.bad = bad, !.cur = SetCur(m, ev.view, ev.ra),
               !.wit = @ \cup (IF ev.rep THEN {"writeback_" \o ev.view, "writeback_" \o ev.origin} ELSE {})
                         \cup (IF ev.rep /\ ev.before.meaning # <<>> THEN {"writeback_nonempty"} ELSE {})]

MonStep(m, ev) == IF ev.k = "assign" THEN AssignStep(m, ev)
                  ELSE IF ev.k = "mutate" THEN MutateStep(m, ev)
                  ELSE IF ev.k = "writeback" THEN WritebackStep(m, ev)
                  ELSE m
Wit(m) == m.wit
=============================================================================
