-------------------------------- MODULE Views --------------------------------
(* Model of the request/response views (Request.query / cookies / urlencoded_form / multipart_form / path_components,
   Response.cookies) as containers over a message.  The wire formats themselves are NOT transcribed (DESIGN section 7):
   the model is the container semantics plus a table of the places where the real encoders/decoders are known to lose
   information, so that its predictions match the code (drift 0):
     LossyVal   <<view, value id, value id read back>>   multipart.decode_multipart joins the lines of a value
                                                         (splitlines + b"".join): line breaks inside values vanish
     Dropped    <<view, value id>>                       path_components' getter filters empty segments
     AddRaises  views                                    Request._get_multipart_form returns a list, so
                                                         MultiDictView.add/insert (tuple + list) raise TypeError
   One action per public operation:
     Assign     request.<view> = pairs                    (the setter: url.encode / format_cookie_header /
                                                           encode_multipart / quote + urlunparse); on a blank message or
                                                           over an existing corpus message (sc.base): as a container the
                                                           view must read the same pairs whatever the message held before
     WriteBack  request.<view> = request.<view>.fields    on the message just assigned, or on a wire message of the corpus
     Add/Del/SetItem  MultiDictView.add / __delitem__ / __setitem__  (getter, change the tuple, setter)
   The scenario (view, pair list or corpus message, how many operations follow) is chosen in Init.              *)
EXTENDS Mon_Views, TLC
CONSTANTS Scen,       \* set of [kind |-> "fresh"|"wire", view, pairs, cls, wcls, same |-> BOOLEAN, depth |-> Nat,
                      \*         wire |-> corpus message written back (kind "wire"), base |-> corpus message the
                      \*         assignment is made over (0 = a blank message), bcls |-> its class]
          LossyVal, Dropped,
          MutPairs,   \* set of <<view, <<key id, value id>>>> used by Add / SetItem / Del
          AddRaises   \* views whose getter returns a list: MultiDictView.add / insert (tuple + list) raise TypeError
VARIABLES sc, pc, cur, faithful, ops, mon, obs
vars == <<sc, pc, cur, faithful, ops, mon, obs>>

Live == mon.bad = <<>>
Emit(evs) == obs' = evs /\ mon' = FoldEvents(MonStep, mon, evs)

Init == /\ sc \in Scen /\ pc = (IF sc.kind = "fresh" THEN "new" ELSE "wire") /\ cur = <<>> /\ faithful = TRUE /\ ops = 0
        /\ mon = MonInit /\ obs = <<>>

ReadVal(v, x) == IF \E t \in LossyVal : t[1] = v /\ t[2] = x
                 THEN (CHOOSE t \in LossyVal : t[1] = v /\ t[2] = x)[3] ELSE x
\* what the view reads after `pairs` were assigned
ReadBack(v, ps) == LET kept == SelectSeq(ps, LAMBDA p : <<v, p[2]>> \notin Dropped)
                   IN [i \in 1..Len(kept) |-> <<kept[i][1], ReadVal(v, kept[i][2])>>]
Placeholder(same) == IF same THEN [other |-> 1, meaning |-> <<>>] ELSE [other |-> 1, meaning |-> <<<<0>>>>]

Assign ==
  /\ Live /\ pc = "new"
  /\ LET r == ReadBack(sc.view, sc.pairs)
     IN /\ cur' = r /\ faithful' = (r = sc.pairs) /\ pc' = "run" /\ UNCHANGED <<sc, ops>>
        /\ Emit(<<[k |-> "assign", view |-> sc.view, rep |-> TRUE, pairs |-> sc.pairs, cls |-> sc.cls, exc |-> "",
                   over |-> sc.bcls, read |-> r]>>)

Can == Live /\ pc = "run" /\ ops < sc.depth
\* the setter re-encodes what the getter returned: a message that was not faithful to the assigned pairs changes
WriteBack ==
  /\ Can
  /\ ops' = ops + 1 /\ faithful' = TRUE /\ UNCHANGED <<sc, pc, cur>>
  /\ Emit(<<[k |-> "writeback", view |-> sc.view, origin |-> "assigned", wcls |-> "assigned", rep |-> TRUE, exc |-> "",
             before |-> Placeholder(TRUE), after |-> Placeholder(faithful), rb |-> cur, ra |-> cur]>>)
WriteBackWire ==
  /\ Live /\ pc = "wire"
  /\ pc' = "done" /\ UNCHANGED <<sc, cur, faithful, ops>>
  /\ Emit(<<[k |-> "writeback", view |-> sc.view, origin |-> "wire", wcls |-> sc.wcls, rep |-> TRUE, exc |-> "",
             before |-> Placeholder(TRUE), after |-> Placeholder(sc.same), rb |-> <<>>, ra |-> <<>>]>>)

Mut(op, p, exc, r) == [k |-> "mutate", view |-> sc.view, op |-> op, rep |-> TRUE, key |-> p[1], val |-> p[2],
                       exc |-> exc, read |-> r]
Step(r, ev) == /\ ops' = ops + 1 /\ cur' = r /\ faithful' = TRUE /\ UNCHANGED <<sc, pc>> /\ Emit(<<ev>>)
Add(p) ==
  /\ Can /\ <<sc.view, p>> \in MutPairs
  /\ IF sc.view \in AddRaises
     THEN /\ ops' = ops + 1 /\ UNCHANGED <<sc, pc, cur, faithful>> /\ Emit(<<Mut("add", p, "TypeError", cur)>>)
     ELSE LET r == cur \o <<p>> IN Step(r, Mut("add", p, "", r))
Del(p) ==
  /\ Can /\ <<sc.view, p>> \in MutPairs
  /\ IF Sel(cur, p[1]) = <<>> THEN Step(cur, Mut("del", <<p[1], 0>>, "KeyError", cur))
     ELSE LET r == Unt(cur, p[1]) IN Step(r, Mut("del", <<p[1], 0>>, "", r))
\* _MultiDict.set_all(key, [value]): first occurrence overwritten, the others removed, appended if there was none
RECURSIVE SetOne(_, _, _)
SetOne(ps, p, done) ==
  IF ps = <<>> THEN (IF done THEN <<>> ELSE <<p>>)
  ELSE IF Head(ps)[1] = p[1] THEN (IF done THEN SetOne(Tail(ps), p, TRUE) ELSE <<p>> \o SetOne(Tail(ps), p, TRUE))
  ELSE <<Head(ps)>> \o SetOne(Tail(ps), p, done)
SetItem(p) ==
  /\ Can /\ <<sc.view, p>> \in MutPairs
  /\ LET r == SetOne(cur, p, FALSE) IN Step(r, Mut("setitem", p, "", r))

AllMutPairs == { t[2] : t \in MutPairs }
Next == \/ Assign
        \/ WriteBack
        \/ WriteBackWire
        \/ \E p \in AllMutPairs : Add(p)
        \/ \E p \in AllMutPairs : Del(p)
        \/ \E p \in AllMutPairs : SetItem(p)
Spec == Init /\ [][Next]_vars
Report == mon.bad # <<>> => PrintT(<<"BAD", mon.bad>>)
=============================================================================
